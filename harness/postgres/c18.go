//go:build postgres && verif

package postgres

import (
	"context"
	"encoding/binary"
	"encoding/json"
	"fmt"
	"net"
	"regexp"
	"sort"
	"strings"
	"sync"
	"testing"
	"time"

	"github.com/jackc/pgproto3/v2"
	"github.com/jackc/pgx/v4/pgxpool"
	"github.com/tinode/chat/server/store"
	t "github.com/tinode/chat/server/store/types"
	"github.com/tinode/chat/server/vfkit"
)

// C18, Postgres: the real adapter (pgx) talks to a fake backend speaking the v3 wire protocol which
// records BEGIN / statements / COMMIT / ROLLBACK / connection loss and fails the k-th operation.
// As in PostgreSQL, a failed statement aborts the transaction: later statements are refused and COMMIT
// of an aborted transaction rolls back.

type pgEvent struct {
	K      int    `json:"k"`
	Conn   int    `json:"conn"`
	Kind   string `json:"kind"` // begin | exec | commit | rollback | commit-of-aborted | connclose
	SQL    string `json:"sql,omitempty"`
	InTx   bool   `json:"in_tx"`
	Failed string `json:"failed,omitempty"`
}

type pgFake struct {
	mu       sync.Mutex
	lis      net.Listener
	trace    []pgEvent
	k        int
	failAt   int
	failKind string
	fired    bool
	nconn    int
	inTx     map[int]bool
	affected int64
	credDone int
	fileRows int
}

func newPgFake() *pgFake {
	lis, err := net.Listen("tcp", "127.0.0.1:0")
	if err != nil {
		panic(err)
	}
	f := &pgFake{lis: lis, inTx: map[int]bool{}}
	go func() {
		for {
			c, err := lis.Accept()
			if err != nil {
				return
			}
			go f.serve(c)
		}
	}()
	return f
}

func (f *pgFake) reset(failAt int, kind string) {
	f.mu.Lock()
	f.trace, f.k, f.failAt, f.failKind, f.fired = nil, 0, failAt, kind, false
	f.mu.Unlock()
}

func (f *pgFake) openTx() int {
	f.mu.Lock()
	defer f.mu.Unlock()
	n := 0
	for _, v := range f.inTx {
		if v {
			n++
		}
	}
	return n
}

// step records one fallible operation; returns the fault to apply ("" = none).
func (f *pgFake) step(conn int, kind, q string, inTx bool) string {
	f.mu.Lock()
	defer f.mu.Unlock()
	f.k++
	ev := pgEvent{K: f.k, Conn: conn, Kind: kind, SQL: q, InTx: inTx}
	fault := ""
	if f.k == f.failAt {
		f.fired = true
		fault = f.failKind
		ev.Failed = fault
	}
	f.trace = append(f.trace, ev)
	return fault
}

func (f *pgFake) note(conn int, kind, q string, inTx bool, failed string) {
	f.mu.Lock()
	f.trace = append(f.trace, pgEvent{Conn: conn, Kind: kind, SQL: q, InTx: inTx, Failed: failed})
	f.mu.Unlock()
}

var pgParam = regexp.MustCompile(`\$(\d+)`)

func pgNumParams(q string) int {
	n := 0
	for _, m := range pgParam.FindAllStringSubmatch(q, -1) {
		var k int
		fmt.Sscan(m[1], &k)
		if k > n {
			n = k
		}
	}
	return n
}

type pgCol struct {
	name string
	oid  uint32
}

// answer describes the result of a SELECT issued inside the transactional operations.
func (f *pgFake) answer(q string) ([]pgCol, [][]any) {
	uq := strings.ToUpper(strings.TrimSpace(q))
	switch {
	case strings.HasPrefix(uq, "SELECT TAG FROM USERTAGS"):
		return []pgCol{{"tag", 25}}, [][]any{{"alpha"}, {"beta"}}
	case strings.HasPrefix(uq, "SELECT DONE FROM CREDENTIALS"):
		switch f.credDone {
		case 0:
			return []pgCol{{"done", 16}}, [][]any{{false}}
		case 1:
			return []pgCol{{"done", 16}}, [][]any{{true}}
		}
		return []pgCol{{"done", 16}}, nil
	case strings.HasPrefix(uq, "SELECT FU.ID,FU.LOCATION FROM FILEUPLOADS") || strings.HasPrefix(uq, "SELECT FU.ID, FU.LOCATION FROM FILEUPLOADS"):
		var rows [][]any
		for i := 0; i < f.fileRows; i++ {
			rows = append(rows, []any{int64(100 + i), fmt.Sprintf("/tmp/f%d", i)})
		}
		return []pgCol{{"id", 20}, {"location", 25}}, rows
	case strings.HasPrefix(uq, "SELECT"):
		return []pgCol{{"x", 25}}, nil
	case strings.Contains(uq, " RETURNING "):
		return []pgCol{{"id", 20}}, [][]any{{int64(1)}}
	}
	return nil, nil
}

func pgEncode(v any, oid uint32, binaryFmt bool) []byte {
	switch x := v.(type) {
	case nil:
		return nil
	case bool:
		if binaryFmt {
			if x {
				return []byte{1}
			}
			return []byte{0}
		}
		if x {
			return []byte("t")
		}
		return []byte("f")
	case int64:
		if binaryFmt {
			b := make([]byte, 8)
			binary.BigEndian.PutUint64(b, uint64(x))
			return b
		}
		return []byte(fmt.Sprint(x))
	case string:
		return []byte(x)
	}
	return []byte(fmt.Sprint(v))
}

func (f *pgFake) serve(c net.Conn) {
	defer c.Close()
	be := pgproto3.NewBackend(pgproto3.NewChunkReader(c), c)
	for {
		sm, err := be.ReceiveStartupMessage()
		if err != nil {
			return
		}
		switch sm.(type) {
		case *pgproto3.SSLRequest:
			c.Write([]byte("N"))
			continue
		case *pgproto3.CancelRequest:
			return
		case *pgproto3.StartupMessage:
		default:
			return
		}
		break
	}
	f.mu.Lock()
	f.nconn++
	id := f.nconn
	f.mu.Unlock()
	be.Send(&pgproto3.AuthenticationOk{})
	for k, v := range map[string]string{"server_version": "14.5", "client_encoding": "UTF8", "standard_conforming_strings": "on", "integer_datetimes": "on", "DateStyle": "ISO, MDY", "TimeZone": "UTC"} {
		be.Send(&pgproto3.ParameterStatus{Name: k, Value: v})
	}
	be.Send(&pgproto3.BackendKeyData{ProcessID: uint32(id), SecretKey: 42})
	be.Send(&pgproto3.ReadyForQuery{TxStatus: 'I'})

	inTx, failed, skipping := false, false, false
	prepared := map[string]string{}
	portalQuery, portalFormats := "", []int16(nil)
	setTx := func(v bool) {
		inTx = v
		f.mu.Lock()
		f.inTx[id] = v
		f.mu.Unlock()
	}
	status := func() byte {
		switch {
		case inTx && failed:
			return 'E'
		case inTx:
			return 'T'
		}
		return 'I'
	}
	defer func() {
		f.note(id, "connclose", "", inTx, "")
		setTx(false)
	}()
	sendErr := func(code, msg string) {
		be.Send(&pgproto3.ErrorResponse{Severity: "ERROR", SeverityUnlocalized: "ERROR", Code: code, Message: msg})
	}
	// applyFault returns true when the connection must be dropped.
	applyFault := func(fault string) (drop bool) {
		switch fault {
		case "dupe":
			sendErr("23505", "duplicate key value violates unique constraint")
		case "badconn":
			return true
		case "deadline":
			// never answer: wait for the client to give up (it closes the connection), at most a moment
			c.SetReadDeadline(time.Now().Add(400 * time.Millisecond))
			buf := make([]byte, 1)
			for {
				if _, err := c.Read(buf); err != nil {
					break
				}
			}
			return true
		default:
			sendErr("XX000", "vf: injected statement failure")
		}
		if inTx {
			failed = true
		}
		return false
	}
	for {
		msg, err := be.Receive()
		if err != nil {
			return
		}
		switch m := msg.(type) {
		case *pgproto3.Terminate:
			return
		case *pgproto3.Query:
			q := strings.ToLower(strings.TrimSpace(strings.TrimSuffix(strings.TrimSpace(m.String), ";")))
			switch {
			case q == "begin" || strings.HasPrefix(q, "begin ") || strings.HasPrefix(q, "start transaction"):
				if fault := f.step(id, "begin", "BEGIN", inTx); fault != "" {
					if applyFault(fault) {
						return
					}
					failed = false
				} else {
					setTx(true)
					failed = false
					be.Send(&pgproto3.CommandComplete{CommandTag: []byte("BEGIN")})
				}
			case q == "commit":
				if failed {
					f.note(id, "commit-of-aborted", "COMMIT", inTx, "")
					setTx(false)
					failed = false
					be.Send(&pgproto3.CommandComplete{CommandTag: []byte("ROLLBACK")})
				} else if fault := f.step(id, "commit", "COMMIT", inTx); fault != "" {
					if applyFault(fault) {
						return
					}
					// a failed COMMIT rolls the transaction back
					setTx(false)
					failed = false
				} else {
					setTx(false)
					be.Send(&pgproto3.CommandComplete{CommandTag: []byte("COMMIT")})
				}
			case q == "rollback":
				f.note(id, "rollback", "ROLLBACK", inTx, "")
				setTx(false)
				failed = false
				be.Send(&pgproto3.CommandComplete{CommandTag: []byte("ROLLBACK")})
			default:
				if q != "" && !strings.HasPrefix(q, "deallocate") && !strings.HasPrefix(q, "set ") && q != "-- ping" {
					f.note(id, "simple", m.String, inTx, "")
				}
				be.Send(&pgproto3.CommandComplete{CommandTag: []byte("OK")})
			}
			be.Send(&pgproto3.ReadyForQuery{TxStatus: status()})
		case *pgproto3.Parse:
			if skipping {
				continue
			}
			prepared[m.Name] = m.Query
			be.Send(&pgproto3.ParseComplete{})
		case *pgproto3.Describe:
			if skipping {
				continue
			}
			q := portalQuery
			if m.ObjectType == 'S' {
				q = prepared[m.Name]
				oids := make([]uint32, pgNumParams(q))
				for i := range oids {
					oids[i] = 0
				}
				be.Send(&pgproto3.ParameterDescription{ParameterOIDs: oids})
			}
			if cols, _ := f.answer(q); cols != nil {
				rd := &pgproto3.RowDescription{}
				for _, c := range cols {
					rd.Fields = append(rd.Fields, pgproto3.FieldDescription{Name: []byte(c.name), DataTypeOID: c.oid, DataTypeSize: -1, TypeModifier: -1})
				}
				be.Send(rd)
			} else {
				be.Send(&pgproto3.NoData{})
			}
		case *pgproto3.Bind:
			if skipping {
				continue
			}
			portalQuery = prepared[m.PreparedStatement]
			portalFormats = m.ResultFormatCodes
			be.Send(&pgproto3.BindComplete{})
		case *pgproto3.Execute:
			if skipping {
				continue
			}
			q := portalQuery
			if failed {
				f.note(id, "exec", q, inTx, "refused: transaction is aborted")
				sendErr("25P02", "current transaction is aborted, commands ignored until end of transaction block")
				skipping = true
				continue
			}
			if fault := f.step(id, "exec", q, inTx); fault != "" {
				if applyFault(fault) {
					return
				}
				skipping = true
				continue
			}
			cols, rows := f.answer(q)
			for _, row := range rows {
				dr := &pgproto3.DataRow{}
				for i, v := range row {
					bin := false
					if len(portalFormats) == 1 {
						bin = portalFormats[0] == 1
					} else if i < len(portalFormats) {
						bin = portalFormats[i] == 1
					}
					dr.Values = append(dr.Values, pgEncode(v, cols[i].oid, bin))
				}
				be.Send(dr)
			}
			verb := strings.ToUpper(strings.Fields(strings.TrimSpace(q) + " X")[0])
			tag := fmt.Sprintf("%s %d", verb, f.affected)
			switch verb {
			case "INSERT":
				tag = fmt.Sprintf("INSERT 0 %d", f.affected)
			case "SELECT":
				tag = fmt.Sprintf("SELECT %d", len(rows))
			}
			be.Send(&pgproto3.CommandComplete{CommandTag: []byte(tag)})
		case *pgproto3.Sync:
			skipping = false
			be.Send(&pgproto3.ReadyForQuery{TxStatus: status()})
		case *pgproto3.Close:
			if !skipping {
				be.Send(&pgproto3.CloseComplete{})
			}
		case *pgproto3.Flush:
		}
	}
}

// ---------------------------------------------------------------------------------------

type pgOp struct {
	name  string
	setup func(f *pgFake)
	run   func(a *adapter) error
}

func pgOps() []pgOp {
	now := t.TimeNow()
	uid := t.Uid(0x1122334455667788)
	uid2 := t.Uid(0x2122334455667799)
	fid := t.Uid(0x3122334455667700)
	topic := "grpAbCdEfGhIjK"
	p2p := uid.P2PName(uid2)
	sub := func(u t.Uid, tn string, owner bool) *t.Subscription {
		s := &t.Subscription{User: u.String(), Topic: tn, ModeWant: t.ModeCP2P, ModeGiven: t.ModeCP2P, Private: map[string]any{"k": "v"}}
		if owner {
			s.ModeWant, s.ModeGiven = t.ModeCFull, t.ModeCFull
		}
		s.CreatedAt, s.UpdatedAt = now, now
		return s
	}
	aff := func(n int64) func(f *pgFake) {
		return func(f *pgFake) { f.affected, f.credDone, f.fileRows = n, -1, 2 }
	}
	cred := func(done bool) *t.Credential {
		c := &t.Credential{User: uid.String(), Method: "email", Value: "a@example.com", Resp: "123456", Done: done}
		c.CreatedAt, c.UpdatedAt = now, now
		return c
	}
	ranges := []t.Range{{Low: 3, Hi: 6}, {Low: 9}}
	del := func(forUser string, rs []t.Range) *t.DelMessage {
		d := &t.DelMessage{Topic: topic, DelId: 4, DeletedFor: forUser, SeqIdRanges: rs}
		d.CreatedAt, d.UpdatedAt = now, now
		return d
	}
	mkUser := func() *t.User {
		u := &t.User{Tags: t.StringSlice{"alpha", "beta", "gamma"}, Public: map[string]any{"fn": "x"}}
		u.SetUid(uid)
		u.CreatedAt, u.UpdatedAt = now, now
		return u
	}
	mkTopic := func() *t.Topic {
		tp := &t.Topic{Owner: uid.String(), Tags: t.StringSlice{"alpha", "beta"}, Public: map[string]any{"fn": "g"}}
		tp.Id = topic
		tp.CreatedAt, tp.UpdatedAt, tp.TouchedAt = now, now, now
		return tp
	}
	return []pgOp{
		{"UserCreate", aff(1), func(a *adapter) error { return a.UserCreate(mkUser()) }},
		{"UserDelete/hard", aff(1), func(a *adapter) error { return a.UserDelete(uid, true) }},
		{"UserDelete/hard-nothing-found", aff(0), func(a *adapter) error { return a.UserDelete(uid, true) }},
		{"UserDelete/soft", aff(1), func(a *adapter) error { return a.UserDelete(uid, false) }},
		{"UserUpdate/public", aff(1), func(a *adapter) error {
			return a.UserUpdate(uid, map[string]any{"Public": map[string]any{"fn": "y"}, "UpdatedAt": now})
		}},
		{"UserUpdate/state+tags", aff(1), func(a *adapter) error {
			return a.UserUpdate(uid, map[string]any{"State": t.StateSuspended, "StateAt": now, "Tags": t.StringSlice{"one", "two"}, "UpdatedAt": now})
		}},
		{"UserUpdateTags/add+remove", aff(1), func(a *adapter) error {
			_, err := a.UserUpdateTags(uid, []string{"one", "two", "three"}, []string{"old"}, nil)
			return err
		}},
		{"UserUpdateTags/reset", aff(1), func(a *adapter) error {
			_, err := a.UserUpdateTags(uid, nil, nil, []string{"one", "two"})
			return err
		}},
		{"TopicCreate", aff(1), func(a *adapter) error { return a.TopicCreate(mkTopic()) }},
		{"TopicCreateP2P", aff(1), func(a *adapter) error { return a.TopicCreateP2P(sub(uid, p2p, false), sub(uid2, p2p, false)) }},
		{"TopicShare", aff(1), func(a *adapter) error {
			return a.TopicShare([]*t.Subscription{sub(uid, topic, true), sub(uid2, topic, false)})
		}},
		{"TopicDelete/hard", aff(1), func(a *adapter) error { return a.TopicDelete(topic, false, true) }},
		{"TopicDelete/hard-channel", aff(1), func(a *adapter) error { return a.TopicDelete(topic, true, true) }},
		{"TopicDelete/soft", aff(1), func(a *adapter) error { return a.TopicDelete(topic, true, false) }},
		{"TopicUpdate/tags", aff(1), func(a *adapter) error {
			return a.TopicUpdate(topic, map[string]any{"Tags": t.StringSlice{"one", "two"}, "Public": map[string]any{"fn": "z"}, "UpdatedAt": now})
		}},
		{"SubsUpdate", aff(1), func(a *adapter) error {
			return a.SubsUpdate(topic, uid, map[string]any{"ModeGiven": t.ModeCP2P, "UpdatedAt": now})
		}},
		{"SubsDelete", aff(1), func(a *adapter) error { return a.SubsDelete(topic, uid) }},
		{"SubsDelete/not-found", aff(0), func(a *adapter) error { return a.SubsDelete(topic, uid) }},
		{"SubsDelForUser/hard", aff(1), func(a *adapter) error { return a.SubsDelForUser(uid, true) }},
		{"SubsDelForUser/soft", aff(1), func(a *adapter) error { return a.SubsDelForUser(uid, false) }},
		{"MessageDeleteList/hard-ranges", aff(1), func(a *adapter) error { return a.MessageDeleteList(topic, del("", ranges)) }},
		{"MessageDeleteList/hard-one-range", aff(1), func(a *adapter) error { return a.MessageDeleteList(topic, del("", []t.Range{{Low: 3, Hi: 8}})) }},
		{"MessageDeleteList/soft", aff(1), func(a *adapter) error { return a.MessageDeleteList(topic, del(uid.String(), ranges)) }},
		{"MessageDeleteList/all", aff(1), func(a *adapter) error { return a.MessageDeleteList(topic, nil) }},
		{"DeviceUpsert", aff(1), func(a *adapter) error {
			return a.DeviceUpsert(uid, &t.DeviceDef{DeviceId: "dev1", Platform: "web", LastSeen: now, Lang: "en"})
		}},
		{"DeviceDelete", aff(1), func(a *adapter) error { return a.DeviceDelete(uid, "dev1") }},
		{"DeviceDelete/all", aff(1), func(a *adapter) error { return a.DeviceDelete(uid, "") }},
		{"CredUpsert/unconfirmed-new", aff(0), func(a *adapter) error { _, err := a.CredUpsert(cred(false)); return err }},
		{"CredUpsert/unconfirmed-existing", aff(1), func(a *adapter) error { _, err := a.CredUpsert(cred(false)); return err }},
		{"CredUpsert/confirmed", aff(1), func(a *adapter) error { _, err := a.CredUpsert(cred(true)); return err }},
		{"CredDel/one", aff(1), func(a *adapter) error { return a.CredDel(uid, "email", "a@example.com") }},
		{"CredDel/all", aff(1), func(a *adapter) error { return a.CredDel(uid, "", "") }},
		{"FileFinishUpload/success", aff(1), func(a *adapter) error {
			fd := &t.FileDef{}
			fd.SetUid(fid)
			_, err := a.FileFinishUpload(fd, true, 100)
			return err
		}},
		{"FileFinishUpload/failure", aff(1), func(a *adapter) error {
			fd := &t.FileDef{}
			fd.SetUid(fid)
			_, err := a.FileFinishUpload(fd, false, 0)
			return err
		}},
		{"FileDeleteUnused", aff(2), func(a *adapter) error { _, err := a.FileDeleteUnused(now, 10); return err }},
		{"FileLinkAttachments/message", aff(1), func(a *adapter) error {
			return a.FileLinkAttachments("", t.ZeroUid, uid2, []string{fid.String(), uid.String()})
		}},
		{"FileLinkAttachments/topic", aff(1), func(a *adapter) error {
			return a.FileLinkAttachments(topic, t.ZeroUid, t.ZeroUid, []string{fid.String()})
		}},
		{"FileLinkAttachments/user", aff(1), func(a *adapter) error { return a.FileLinkAttachments("", uid, t.ZeroUid, []string{fid.String()}) }},
	}
}

var pgWrite = regexp.MustCompile(`(?i)^\s*(INSERT|UPDATE|DELETE)\b`)

func pgTrace(tr []pgEvent) []string {
	var out []string
	for _, e := range tr {
		s := fmt.Sprintf("conn%d %s", e.Conn, e.Kind)
		if e.K > 0 {
			s = fmt.Sprintf("#%d %s", e.K, s)
		}
		if e.SQL != "" && e.Kind == "exec" || e.Kind == "simple" {
			q := e.SQL
			if len(q) > 90 {
				q = q[:90] + "..."
			}
			s += " " + q
		}
		if e.Failed != "" {
			s += "   <== " + e.Failed
		}
		out = append(out, s)
	}
	return out
}

func pgJudge(r *vfkit.R, op, cfg string, failAt int, kind string, tr []pgEvent, fired bool, err error, openTx int, acquired int32) {
	wit := map[string]any{"adapter": "postgres", "operation": op, "config": cfg, "fail_at": failAt, "fault": kind, "trace": pgTrace(tr), "returned": fmt.Sprint(err)}
	where := fmt.Sprintf("postgres %s [%s] with operation #%d failing (%s)", op, cfg, failAt, kind)
	if failAt == 0 {
		where = fmt.Sprintf("postgres %s [%s] without faults", op, cfg)
	}
	sigOp := "pg:" + strings.SplitN(op, "/", 2)[0]
	begins, commits, rollbacks := 0, 0, 0
	failedIdx := -1
	commitAfterFail := false
	for i, e := range tr {
		switch e.Kind {
		case "begin":
			if e.Failed == "" {
				begins++
			}
		case "commit":
			if e.Failed == "" {
				commits++
				if failedIdx >= 0 {
					commitAfterFail = true
				}
			}
		case "rollback", "commit-of-aborted":
			rollbacks++
		case "exec", "simple":
			if !e.InTx && pgWrite.MatchString(e.SQL) {
				r.Violation("write-outside-transaction:"+sigOp, fmt.Sprintf("%s: statement %q was executed outside a transaction", where, e.SQL), wit)
			}
		}
		if e.K > 0 && e.Failed != "" && failedIdx < 0 {
			failedIdx = i
		}
	}
	r.Hit("pg_trace_judged")
	if failAt == 0 {
		r.Hit("pg_fault_free_commits_once")
		if err == nil && (begins != 1 || commits != 1 || rollbacks != 0) {
			r.Violation("fault-free-shape:"+sigOp, fmt.Sprintf("%s: %d BEGIN, %d COMMIT, %d ROLLBACK", where, begins, commits, rollbacks), wit)
		}
		if err != nil && commits != 0 {
			r.Violation("error-but-committed:"+sigOp, fmt.Sprintf("%s: returned %v after COMMIT", where, err), wit)
		}
	}
	if openTx > 0 {
		r.Violation("transaction-left-open:"+sigOp, fmt.Sprintf("%s: the operation returned (%v) with a transaction still open on the server: no COMMIT, no ROLLBACK, connection not closed", where, err), wit)
	}
	if acquired != 0 {
		r.Violation("connection-not-released:"+sigOp, fmt.Sprintf("%s: %d pool connections still acquired after the operation returned (%v)", where, acquired, err), wit)
	}
	if !fired {
		return
	}
	r.Hit("pg_fault_point")
	fe := tr[failedIdx]
	switch {
	case commitAfterFail:
		r.Violation("partial-commit:"+sigOp, fmt.Sprintf("%s: %q failed inside the transaction which was then committed", where, fe.SQL), wit)
	case err == nil:
		r.Violation("failure-swallowed:"+sigOp, fmt.Sprintf("%s: %q failed (nothing was committed) but the operation reported success", where, fe.SQL), wit)
	case err != nil && commits > 0 && fe.Kind != "commit":
		r.Violation("error-but-committed:"+sigOp, fmt.Sprintf("%s: returned %v although the transaction was committed", where, err), wit)
	}
}

func TestVfC18Pg(tt *testing.T) {
	r := vfkit.New("C18")
	defer r.Finish()
	store.Store.Open(1, json.RawMessage(`{"uid_key":"la6YsO+bNX/+XIkOqc5Svw==","use_adapter":"postgres","adapters":{"postgres":{"dsn":"postgresql://u:p@127.0.0.1:1/tinode?sslmode=disable&connect_timeout=1"}}}`))

	fake := newPgFake()
	defer fake.lis.Close()
	addr := fake.lis.Addr().String()
	ops := pgOps()
	total := 0
	var names []string
	for _, cfg := range []string{"no-timeout", "timeout"} {
		kinds := []string{"error", "dupe", "badconn"}
		if cfg == "timeout" {
			kinds = []string{"error", "deadline"}
		}
		runOnce := func(op pgOp, k int, kind string) (tr []pgEvent, fired bool, err error, openTx int, acquired int32, n int) {
			pc, perr := pgxpool.ParseConfig("postgresql://u:p@" + addr + "/tinode?sslmode=disable&pool_max_conns=3")
			if perr != nil {
				panic(perr)
			}
			pool, perr := pgxpool.ConnectConfig(context.Background(), pc)
			if perr != nil {
				panic(perr)
			}
			a := &adapter{db: pool, poolConfig: pc, dbName: "tinode", maxResults: defaultMaxResults, maxMessageResults: defaultMaxMessageResults, version: adpVersion}
			if cfg == "timeout" {
				a.sqlTimeout = 60 * time.Millisecond
				a.txTimeout = 90 * time.Millisecond
			}
			op.setup(fake)
			fake.reset(k, kind)
			err = op.run(a)
			// the server learns about dropped connections asynchronously
			for i := 0; i < 300; i++ {
				if fake.openTx() == 0 && pool.Stat().AcquiredConns() == 0 {
					break
				}
				time.Sleep(time.Millisecond)
			}
			openTx = fake.openTx()
			acquired = pool.Stat().AcquiredConns()
			fake.mu.Lock()
			tr = append([]pgEvent{}, fake.trace...)
			fired, n = fake.fired, fake.k
			fake.mu.Unlock()
			done := make(chan struct{})
			go func() { pool.Close(); close(done) }()
			select {
			case <-done:
			case <-time.After(2 * time.Second):
				// a leaked (still acquired) connection keeps Close waiting: that is the finding reported above
			}
			// make sure nothing of this run is still counted as an open transaction in the next one
			for i := 0; i < 300 && fake.openTx() != 0; i++ {
				time.Sleep(time.Millisecond)
			}
			fake.mu.Lock()
			fake.inTx = map[int]bool{}
			fake.mu.Unlock()
			return
		}
		for _, op := range ops {
			tr, _, err, openTx, acq, n := runOnce(op, 0, "")
			pgJudge(r, op.name, cfg, 0, "", tr, false, err, openTx, acq)
			r.Eval("pg-op:" + op.name)
			if cfg == "no-timeout" {
				names = append(names, fmt.Sprintf("%s(%d)", op.name, n))
				if len(names) <= 2 {
					r.Sample(map[string]any{"adapter": "postgres", "operation": op.name, "trace": pgTrace(tr), "returned": fmt.Sprint(err)})
				}
			}
			if n < 2 && err != nil {
				// the operation fails on the client side before its first statement reaches the database (pgx argument
				// count check): nothing is written, the error is reported; not a C18 matter, recorded as an observation
				r.InfoAdd("pg_operation_fails_before_first_statement:"+op.name, 1)
				continue
			}
			if n < 2 {
				r.Violation("harness:no-transaction:pg:"+op.name, fmt.Sprintf("postgres %s performed %d operations (%v): no transaction observed", op.name, n, err), map[string]any{"trace": pgTrace(tr)})
				continue
			}
			for _, kind := range kinds {
				for k := 1; k <= n; k++ {
					tr, fired, err, openTx, acq, _ := runOnce(op, k, kind)
					pgJudge(r, op.name, cfg, k, kind, tr, fired, err, openTx, acq)
					total++
					r.Eval(fmt.Sprintf("pg-fault:%s:%s:%d", op.name, kind, k))
				}
			}
		}
	}
	sort.Strings(names)
	r.Info("pg_operations_and_statement_counts", names)
	r.EvalN(int64(total))
	r.Hit("pg_operations_enumerated")
}
