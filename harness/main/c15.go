//go:build verif

package main

import (
	"encoding/json"
	"errors"
	"fmt"
	"testing"
	"time"

	"github.com/tinode/chat/server/auth"
	"github.com/tinode/chat/server/db/vfmem"
	"github.com/tinode/chat/server/vfkit"
)

// ---- C15: a peer-to-peer call follows one life cycle and ends exactly once.

type c15Sess struct {
	c    *vfClient
	u    *vfUser
	name string // topic name as addressed
	lbl  string
}

type c15Call struct {
	seq      int
	caller   *c15Sess
	callee   *c15Sess // nil while ringing
	content  string
	accepted int
	ended    []string
}

type c15Scn struct {
	w      *vfWorld
	r      *vfkit.R
	canon  string
	ss     []*c15Sess // a1 a2 b1 b2
	third  *c15Sess
	cur    *c15Call
	calls  []*c15Call
	log    []string
	nmsgs  int
	broken bool
	may    *c15Sess // a session which may or may not receive the next relay (it is leaving at that moment)
}

func (sc *c15Scn) logf(f string, a ...any) { sc.log = append(sc.log, fmt.Sprintf(f, a...)) }

func (sc *c15Scn) attached(s *c15Sess) bool {
	return !s.c.isClosed() && s.c.attachState()[s.name]
}

type c15Row struct {
	seq     int
	webrtc  string
	replace string
	content string
	from    string
}

func (sc *c15Scn) newRows() []c15Row {
	var out []c15Row
	vfmem.A.View(func(db *vfmem.DB) {
		rows := db.Msgs[sc.canon]
		for _, m := range rows[sc.nmsgs:] {
			var h map[string]any
			json.Unmarshal(m.Head, &h)
			w, _ := h["webrtc"].(string)
			rp, _ := h["replace"].(string)
			var c any
			json.Unmarshal(m.Content, &c)
			cs, _ := c.(string)
			out = append(out, c15Row{seq: m.SeqId, webrtc: w, replace: rp, content: cs, from: m.From.UserId()})
		}
		sc.nmsgs = len(rows)
	})
	return out
}

func (sc *c15Scn) wit(extra map[string]any) map[string]any {
	m := map[string]any{"script": sc.log}
	for k, v := range extra {
		m[k] = v
	}
	return m
}

// step performs an action and checks info relays, replacement messages and the model transition.
// wantInfo: sessions which must receive exactly one {info what=call event=ev}; everybody else none.
func (sc *c15Scn) expect(label string, counts map[*c15Sess]int, ev string, wantInfo []*c15Sess, wantRepl []string, payload any) {
	r := sc.r
	may := sc.may
	sc.may = nil
	want := map[*c15Sess]bool{}
	for _, s := range wantInfo {
		want[s] = true
	}
	all := append(append([]*c15Sess{}, sc.ss...), sc.third)
	for _, s := range all {
		var infos []*vfFrame
		for _, f := range s.c.since(counts[s]) {
			if f.Kind == "info" && f.str("what") == "call" {
				infos = append(infos, f)
			}
		}
		if want[s] && sc.attached(s) {
			r.Hit("call_info_relayed")
			n := 0
			for _, f := range infos {
				if f.str("event") == ev {
					n++
					if payload != nil && vfCompact(f.B["payload"]) != vfCompact(payload) {
						r.Violation("call-payload-altered:"+ev, "relayed call event payload differs", sc.wit(map[string]any{"frame": f.Raw}))
					}
					if sc.cur != nil && f.num("seq") != sc.cur.seq {
						r.Violation("call-info-seq:"+ev, "relayed call event names another call", sc.wit(map[string]any{"frame": f.Raw}))
					}
				}
			}
			if n != 1 {
				r.Violation(fmt.Sprintf("call-info-count-%d:%s:%s", n, label, ev), fmt.Sprintf("session %s must receive one {info call %s}, got %d", s.lbl, ev, n), sc.wit(map[string]any{"frames": frames2raw(s.c.since(counts[s]))}))
				sc.broken = true
			}
		} else if !want[s] && s != may {
			r.Hit("call_info_not_leaked")
			for _, f := range infos {
				if f.str("event") == ev || ev == "" {
					r.Violation("call-info-leaked:"+label+":"+f.str("event")+":to-"+s.lbl[:1], fmt.Sprintf("session %s must not receive {info call %s} but got %s", s.lbl, f.str("event"), f.Raw), sc.wit(nil))
					sc.broken = true
				}
			}
		}
	}
	rows := sc.newRows()
	var got []string
	for _, row := range rows {
		if row.webrtc != "" && row.replace != "" {
			got = append(got, row.webrtc)
			r.Hit("replacement_checked")
			if sc.cur != nil {
				if row.replace != fmt.Sprintf(":%d", sc.cur.seq) || row.content != sc.cur.content || row.from != sc.cur.caller.u.uid.UserId() {
					r.Violation("replacement-wrong:"+row.webrtc, fmt.Sprintf("replacement message %+v does not reference invitation seq %d / content %q / caller", row, sc.cur.seq, sc.cur.content), sc.wit(nil))
				}
			}
		}
	}
	if fmt.Sprint(got) != fmt.Sprint(wantRepl) {
		r.Violation(fmt.Sprintf("replacements:%s:got-%v-want-%v", label, got, wantRepl), fmt.Sprintf("step %s produced replacement messages %v, expected %v", label, got, wantRepl), sc.wit(nil))
		sc.broken = true
	}
}

func (sc *c15Scn) counts() map[*c15Sess]int {
	m := map[*c15Sess]int{}
	for _, s := range append(append([]*c15Sess{}, sc.ss...), sc.third) {
		m[s] = s.c.frameCount()
	}
	return m
}

func (sc *c15Scn) isCaller(s *c15Sess) bool { return sc.cur != nil && s.u == sc.cur.caller.u }

func (sc *c15Scn) endCall(kind string) {
	sc.cur.ended = append(sc.cur.ended, kind)
	sc.cur = nil
}

func c15Scenario(w *vfWorld, r *vfkit.R, idx int, callsOn bool) {
	rng, e := w.rng, w.e
	sc := &c15Scn{w: w, r: r}
	a, b, cu := w.user("a", auth.LevelAuth), w.user("b", auth.LevelAuth), w.user("c", auth.LevelAuth)
	sc.canon = a.uid.P2PName(b.uid)
	mk := func(u *vfUser, peer *vfUser, lbl string) *c15Sess {
		s := &c15Sess{c: w.conn(u, false), u: u, name: peer.uid.UserId(), lbl: lbl}
		return s
	}
	sc.ss = []*c15Sess{mk(a, b, "a1"), mk(a, b, "a2"), mk(b, a, "b1"), mk(b, a, "b2")}
	sc.third = &c15Sess{c: w.conn(cu, false), u: cu, name: sc.canon, lbl: "c1"}
	for _, s := range sc.ss {
		s.c.sub(s.name, nil)
	}
	e.vfQuiesce()
	sc.newRows()
	all := append(append([]*c15Sess{}, sc.ss...), sc.third)
	steps := 8 + rng.Intn(14)
	for i := 0; i < steps && !sc.broken; i++ {
		s := all[rng.Intn(len(all))]
		if rng.Intn(6) > 0 {
			s = sc.ss[rng.Intn(len(sc.ss))]
		}
		cnt := sc.counts()
		k := rng.Intn(20)
		// hostile invitations: the store fails to save the invitation, or the caller has lost W. Directed at the start
		// of two thirds of the scenarios (followed by an ordinary invitation), drawn at random later on.
		hostile := ""
		if callsOn && i < 2 && idx%3 != 2 {
			k = 0
			s = sc.ss[(idx/3)%len(sc.ss)]
			if i == 0 {
				hostile = []string{"store-failure", "caller-lost-W"}[idx%3]
			}
		} else if callsOn && k < 5 && rng.Intn(6) == 0 {
			hostile = []string{"store-failure", "caller-lost-W"}[rng.Intn(2)]
		}
		if hostile != "" && !(sc.attached(s) && s != sc.third && sc.cur == nil) {
			hostile = ""
		}
		switch {
		case k < 5: // invitation
			content := fmt.Sprintf("call-%d-%d", idx, i)
			// the establishment timeout is read when the invitation is handled: most calls get a long one,
			// some a short one which is then left to expire
			short := callsOn && rng.Intn(4) == 0
			// half of the short ones are reported as ringing by a device of the other user before they expire
			ring := short && rng.Intn(2) == 0
			globals.callEstablishmentTimeout = 3000
			if short {
				globals.callEstablishmentTimeout = 4
				if ring {
					globals.callEstablishmentTimeout = 25
				}
			}
			var peer *c15Sess
			for _, x := range sc.ss {
				if x.u != s.u && sc.attached(x) {
					peer = x
				}
			}
			if hostile == "caller-lost-W" && peer == nil {
				hostile = ""
			}
			switch hostile {
			case "store-failure":
				fired := false
				vfRec.setFault(func(c *vfmem.Call) error {
					if c.Op == "MessageSave" && c.Topic == sc.canon && !fired {
						fired = true
						return errors.New("vf injected failure at MessageSave")
					}
					return nil
				})
			case "caller-lost-W":
				peer.c.set(peer.name, map[string]any{"sub": map[string]any{"user": s.u.uid.UserId(), "mode": "JRPA"}})
				e.vfQuiesce()
				cnt = sc.counts()
			}
			f := s.c.pub(s.name, content, false, map[string]any{"webrtc": "started", "mime": "application/x-tinode-webrtc"})
			vfRec.setFault(nil)
			e.vfQuiesce()
			sc.logf("%s invites (%s) -> %s", s.lbl, hostile, codeStr(f))
			if hostile == "caller-lost-W" {
				peer.c.set(peer.name, map[string]any{"sub": map[string]any{"user": s.u.uid.UserId(), "mode": "JRWPA"}})
				e.vfQuiesce()
			}
			att := sc.attached(s) && s != sc.third
			wantCode := 202
			switch {
			case !att:
				wantCode = 409
			case !callsOn:
				wantCode = 501
			case sc.cur != nil:
				wantCode = 486
			case hostile == "store-failure":
				wantCode = 500
				r.Hit("refused_invitation_starts_no_call")
			case hostile == "caller-lost-W":
				wantCode = 403
				r.Hit("refused_invitation_starts_no_call")
			}
			r.Hit("invitation_gate")
			code := 0
			if f != nil {
				code = f.code()
			}
			if (code == 202) != (wantCode == 202) || (wantCode != 202 && wantCode != 409 && code != wantCode) {
				r.Violation(fmt.Sprintf("invite-code:%d-want-%d", code, wantCode), fmt.Sprintf("invitation by %s answered %d, expected %d", s.lbl, code, wantCode), sc.wit(nil))
				sc.broken = true
				break
			}
			if code == 202 {
				seq := int(f.params()["seq"].(float64))
				sc.cur = &c15Call{seq: seq, caller: s, content: content}
				sc.calls = append(sc.calls, sc.cur)
				if !short {
					rows := sc.newRows()
					if len(rows) != 1 || rows[0].webrtc != "started" {
						r.Violation("invite-not-stored", "accepted invitation is not stored as one 'started' message", sc.wit(nil))
					}
				}
				if short {
					cnt2 := cnt // the timer may fire before we look: count frames from before the invitation
					if ring {
						for _, x := range sc.ss {
							if x.u != s.u && !x.c.isClosed() {
								x.c.send("note", map[string]any{"topic": x.name, "what": "call", "event": "ringing", "seq": seq})
								sc.logf("%s sends call ringing seq=%d (right), nobody answers", x.lbl, seq)
								r.Hit("ringing_then_timeout")
								break
							}
						}
						time.Sleep(21 * 10 * time.Millisecond)
					}
					time.Sleep(4*10*time.Millisecond + 80*time.Millisecond)
					e.vfQuiesce()
					sc.logf("establishment timeout elapses")
					var wantInfo []*c15Sess
					for _, x := range sc.ss {
						if sc.attached(x) {
							wantInfo = append(wantInfo, x)
						}
					}
					sc.expect("timeout", cnt2, "hang-up", wantInfo, []string{"missed"}, nil)
					if !sc.broken {
						r.Hit("timeout_ends_call")
						sc.endCall("missed")
					}
				}
			} else {
				r.Hit("refused_invitation_no_trace")
				if rows := sc.newRows(); len(rows) != 0 {
					r.Violation(fmt.Sprintf("refused-invite-left-trace:%d", code), "refused invitation stored a message", sc.wit(nil))
				}
				sc.expect("refused-invite", cnt, "", nil, nil, nil)
			}
		case k < 14: // call event note
			events := []string{"ringing", "accept", "offer", "answer", "ice-candidate", "hang-up", "bogus"}
			ev := events[rng.Intn(len(events))]
			seq := 0
			if sc.cur != nil {
				seq = sc.cur.seq
			}
			kind := "right"
			switch rng.Intn(5) {
			case 0:
				seq, kind = seq+1+rng.Intn(3), "wrong"
			case 1:
				if len(sc.calls) > 1 || (len(sc.calls) == 1 && sc.cur == nil) {
					seq, kind = sc.calls[0].seq, "stale"
					if sc.cur != nil && seq == sc.cur.seq {
						kind = "right"
					}
				}
			}
			payload := map[string]any{"sdp": fmt.Sprintf("p%d", i)}
			body := map[string]any{"topic": s.name, "what": "call", "event": ev, "payload": payload}
			if seq > 0 {
				body["seq"] = seq
			}
			s.c.send("note", body)
			e.vfQuiesce()
			sc.logf("%s sends call %s seq=%d (%s)", s.lbl, ev, seq, kind)
			att := sc.attached(s) && s != sc.third
			if (ev == "ringing" || ev == "accept" || ev == "hang-up") && s != sc.third && !s.c.isClosed() {
				// these events are routed to the topic also from a session which is not attached
				// (a device woken up by a push notification)
				att = true
			}
			valid := sc.cur != nil && kind == "right" && att
			var wantInfo []*c15Sess
			var wantRepl []string
			label := ev + "-ignored"
			switch {
			case !valid || ev == "bogus":
			case ev == "ringing" || ev == "accept":
				if sc.cur.callee == nil && !sc.isCaller(s) {
					wantInfo = []*c15Sess{sc.cur.caller}
					label = ev
					if ev == "accept" {
						wantRepl = []string{"accepted"}
					}
				}
			case ev == "offer" || ev == "answer" || ev == "ice-candidate":
				if sc.cur.callee != nil && (s == sc.cur.caller || s == sc.cur.callee) {
					other := sc.cur.caller
					if s == sc.cur.caller {
						other = sc.cur.callee
					}
					wantInfo = []*c15Sess{other}
					label = ev
				}
			case ev == "hang-up":
				if sc.cur.callee != nil {
					if s == sc.cur.caller || s == sc.cur.callee {
						wantRepl, label = []string{"finished"}, "hang-up-active"
					}
				} else if s == sc.cur.caller {
					wantRepl, label = []string{"missed"}, "hang-up-caller"
				} else if !sc.isCaller(s) {
					wantRepl, label = []string{"declined"}, "hang-up-callee"
				}
				if wantRepl != nil {
					for _, x := range sc.ss {
						if sc.attached(x) {
							wantInfo = append(wantInfo, x)
						}
					}
				}
			}
			r.Eval(fmt.Sprintf("%s/%s/%s/state=%v/%v", s.lbl[:1], ev, kind, sc.cur != nil, sc.cur != nil && sc.cur.callee != nil))
			var pl any
			if label == "offer" || label == "answer" || label == "ice-candidate" {
				pl = payload
			}
			if wantInfo == nil {
				r.Hit("call_event_ignored")
			}
			sc.expect(label, cnt, ev, wantInfo, wantRepl, pl)
			if label == "accept" && !sc.broken {
				sc.cur.callee = s
				sc.cur.accepted++
			}
			if wantRepl != nil && label != "accept" && !sc.broken {
				sc.endCall(wantRepl[0])
			}
		case k < 16: // a party leaves or disconnects
			if !sc.attached(s) || s == sc.third {
				continue
			}
			party := sc.cur != nil && (s == sc.cur.caller || (sc.cur.callee != nil && s == sc.cur.callee))
			if rng.Intn(2) == 0 {
				s.c.leave(s.name, false)
				sc.logf("%s leaves", s.lbl)
			} else {
				s.c.close()
				sc.logf("%s disconnects", s.lbl)
			}
			e.vfQuiesce()
			var wantRepl []string
			var wantInfo []*c15Sess
			if party {
				wantRepl = []string{"disconnected"}
				for _, x := range sc.ss {
					if sc.attached(x) {
						wantInfo = append(wantInfo, x)
					}
				}
			}
			if party {
				sc.may = s // the call is ended just before the leaving session is detached
			}
			sc.expect("party-leaves", cnt, "hang-up", wantInfo, wantRepl, nil)
			if party && !sc.broken {
				r.Hit("party_leave_ends_call")
				sc.endCall("disconnected")
			}
		case k < 19: // ordinary traffic
			if sc.attached(s) && s != sc.third {
				f := s.c.pub(s.name, fmt.Sprintf("plain-%d", i), true, nil)
				e.vfQuiesce()
				sc.logf("%s publishes plain -> %s", s.lbl, codeStr(f))
				sc.newRows()
			}
		default: // re-attach
			if !s.c.isClosed() && s != sc.third && !sc.attached(s) {
				s.c.sub(s.name, nil)
				e.vfQuiesce()
				sc.logf("%s re-attaches", s.lbl)
			}
		}
	}
	// every started call ended at most once so far; finish the open one and check a new call can start
	if !sc.broken && sc.cur != nil && callsOn {
		cnt := sc.counts()
		cl := sc.cur.caller
		if sc.attached(cl) {
			cl.c.send("note", map[string]any{"topic": cl.name, "what": "call", "event": "hang-up", "seq": sc.cur.seq})
			e.vfQuiesce()
			kind := "missed"
			if sc.cur.callee != nil {
				kind = "finished"
			}
			var wantInfo []*c15Sess
			for _, x := range sc.ss {
				if sc.attached(x) {
					wantInfo = append(wantInfo, x)
				}
			}
			sc.logf("%s hangs up at the end", cl.lbl)
			sc.expect("final-hang-up", cnt, "hang-up", wantInfo, []string{kind}, nil)
			if !sc.broken {
				sc.endCall(kind)
			}
		}
	}
	// directed: an accepted call whose party's session leaves (or drops) ends as 'disconnected'
	if !sc.broken && callsOn && sc.cur == nil {
		var caller, callee *c15Sess
		for _, s := range sc.ss {
			if sc.attached(s) && caller == nil {
				caller = s
			} else if sc.attached(s) && caller != nil && s.u != caller.u && callee == nil {
				callee = s
			}
		}
		if caller != nil && callee != nil {
			globals.callEstablishmentTimeout = 3000
			content := fmt.Sprintf("call-%d-final", idx)
			f := caller.c.pub(caller.name, content, false, map[string]any{"webrtc": "started", "mime": "application/x-tinode-webrtc"})
			e.vfQuiesce()
			if f != nil && f.code() == 202 {
				seq := int(f.params()["seq"].(float64))
				sc.cur = &c15Call{seq: seq, caller: caller, content: content}
				sc.calls = append(sc.calls, sc.cur)
				sc.newRows()
				sc.logf("%s invites -> 202 (directed)", caller.lbl)
				cnt := sc.counts()
				callee.c.send("note", map[string]any{"topic": callee.name, "what": "call", "event": "accept", "seq": seq, "payload": map[string]any{"sdp": "x"}})
				e.vfQuiesce()
				sc.logf("%s sends call accept seq=%d (right)", callee.lbl, seq)
				sc.expect("accept", cnt, "accept", []*c15Sess{caller}, []string{"accepted"}, nil)
				if !sc.broken {
					sc.cur.callee = callee
					sc.cur.accepted++
					leaver := []*c15Sess{callee, caller}[idx%2]
					cnt = sc.counts()
					if idx%4 < 2 {
						leaver.c.leave(leaver.name, false)
						sc.logf("%s leaves", leaver.lbl)
					} else {
						leaver.c.close()
						sc.logf("%s disconnects", leaver.lbl)
					}
					e.vfQuiesce()
					var wantInfo []*c15Sess
					for _, x := range sc.ss {
						if sc.attached(x) {
							wantInfo = append(wantInfo, x)
						}
					}
					sc.may = leaver
					sc.expect("party-leaves", cnt, "hang-up", wantInfo, []string{"disconnected"}, nil)
					if !sc.broken {
						r.Hit("accepted_call_party_leaves")
						sc.endCall("disconnected")
					}
				}
			}
		}
	}
	if !sc.broken && callsOn && sc.cur == nil {
		for _, s := range sc.ss {
			if sc.attached(s) {
				f := s.c.pub(s.name, "another-call", false, map[string]any{"webrtc": "started", "mime": "application/x-tinode-webrtc"})
				e.vfQuiesce()
				r.Hit("new_call_after_end")
				if f == nil || f.code() != 202 {
					r.Violation("new-call-refused-after-end:"+codeStr(f), "a new call cannot be started after the previous one ended: "+frameStr(f), sc.wit(nil))
				}
				break
			}
		}
	}
	for _, c := range sc.calls {
		r.Hit("call_ends_at_most_once")
		if len(c.ended) > 1 || c.accepted > 1 {
			r.Violation("call-ended-twice", fmt.Sprintf("call seq %d ended %v accepted %d times", c.seq, c.ended, c.accepted), sc.wit(nil))
		}
	}
	if idx < 2 {
		r.Sample(map[string]any{"script": sc.log})
	}
}

func TestVfC15(t *testing.T) {
	r := vfkit.New("C15")
	defer r.Finish()
	callsOn := r.Batch()%4 != 3
	e := vfBoot(vfConfig{Push: true, Calls: callsOn, CallTimeout: 3000})
	vfInstallRecorder(e)
	rng := r.Rand(1)
	n := r.Pick(15, 80)
	for i := 0; i < n; i++ {
		w := vfNewWorld(e, r, rng)
		c15Scenario(w, r, i, callsOn)
		w.closeAll()
		e.vfQuiesce()
		if i%5 == 4 {
			r.Flush(false)
		}
	}
	// a call ends even when the ending message cannot be stored (store failure, or the caller lost W meanwhile)
	if callsOn {
		for variant := 0; variant < 2; variant++ {
			w := vfNewWorld(e, r, rng)
			a, b := w.user("a", auth.LevelAuth), w.user("b", auth.LevelAuth)
			ca, cb := w.conn(a, false), w.conn(b, false)
			ca.sub(b.uid.UserId(), nil)
			cb.sub(a.uid.UserId(), nil)
			globals.callEstablishmentTimeout = 3000
			f := ca.pub(b.uid.UserId(), "call-x", false, map[string]any{"webrtc": "started"})
			e.vfQuiesce()
			if f == nil || f.code() != 202 {
				r.Inconclusive("c15 fault: invitation refused")
				w.closeAll()
				continue
			}
			seq := int(f.params()["seq"].(float64))
			label := "store-failure"
			if variant == 0 {
				fired := false
				vfRec.setFault(func(c *vfmem.Call) error {
					if c.Op == "MessageSave" && !fired {
						fired = true
						return fmt.Errorf("vf injected failure")
					}
					return nil
				})
			} else {
				label = "caller-lost-W"
				cb.set(a.uid.UserId(), map[string]any{"sub": map[string]any{"user": a.uid.UserId(), "mode": "JRPA"}})
				e.vfQuiesce()
			}
			from := cb.frameCount()
			ca.send("note", map[string]any{"topic": b.uid.UserId(), "what": "call", "event": "hang-up", "seq": seq})
			e.vfQuiesce()
			vfRec.setFault(nil)
			if variant == 1 {
				cb.set(a.uid.UserId(), map[string]any{"sub": map[string]any{"user": a.uid.UserId(), "mode": "JRWPA"}})
				e.vfQuiesce()
			}
			gotHangup := false
			for _, fr := range cb.since(from) {
				if fr.Kind == "info" && fr.str("event") == "hang-up" {
					gotHangup = true
				}
			}
			f2 := cb.pub(a.uid.UserId(), "call-y", false, map[string]any{"webrtc": "started"})
			e.vfQuiesce()
			r.Hit("call_ends_when_final_write_fails")
			r.Eval("end-under-" + label)
			if !gotHangup || f2 == nil || f2.code() != 202 {
				r.Violation("call-stuck-after-failed-final-write:"+label, fmt.Sprintf("the ending message could not be stored (%s): hang-up relayed=%v, next invitation answered %s", label, gotHangup, codeStr(f2)), nil)
			}
			w.closeAll()
			e.vfQuiesce()
		}
	}
	// calls are p2p only
	if callsOn {
		w := vfNewWorld(e, r, rng)
		u := w.user("g", auth.LevelAuth)
		c := w.conn(u, false)
		name, _ := c.newGroup(false, nil)
		f := c.pub(name, "grp-call", false, map[string]any{"webrtc": "started"})
		r.Hit("call_p2p_only")
		if f == nil || f.code() == 202 {
			r.Violation("group-call-accepted", "a call invitation was accepted in a group topic: "+frameStr(f), nil)
		}
		w.closeAll()
	}
}
