//go:build verif

package main

import (
	"bytes"
	"encoding/json"
	"io"
	"mime/multipart"
	"net/http"
	"os"
	"path"
	"runtime"
	"strings"
	"time"
)

func vfGosched() { runtime.Gosched() }

// getX is get with an optional "extra" block.
func (c *vfClient) getX(topic, what string, opts map[string]any, extra map[string]any) *vfGetAns {
	if extra == nil {
		return c.get(topic, what, opts)
	}
	from := c.frameCount()
	b := map[string]any{"topic": topic, "what": what}
	for k, v := range opts {
		b[k] = v
	}
	id := c.send("get", b, extra)
	ans := &vfGetAns{}
	deadline := time.Now().Add(vfReplyWait)
	timer := time.AfterFunc(vfReplyWait, func() { c.mu.Lock(); c.cond.Broadcast(); c.mu.Unlock() })
	defer timer.Stop()
	c.mu.Lock()
	defer c.mu.Unlock()
	i := from
	for {
		for ; i < len(c.frames); i++ {
			f := c.frames[i]
			ans.All = append(ans.All, f)
			switch f.Kind {
			case "data":
				if f.str("topic") == topic {
					ans.Data = append(ans.Data, f)
				}
			case "meta":
				if f.str("id") == id {
					ans.Meta = append(ans.Meta, f)
					if what != "data" {
						return ans
					}
				}
			case "ctrl":
				if f.str("id") == id {
					ans.Ctrl = f
					return ans
				}
			}
		}
		if c.closed || time.Now().After(deadline) {
			return ans
		}
		c.cond.Wait()
	}
}

// vfUploadFile uploads bytes through the real upload endpoint and returns the file id (last path element of the url).
func vfUploadFile(e *vfEnv, u *vfUser, data []byte) string {
	var buf bytes.Buffer
	mw := multipart.NewWriter(&buf)
	fw, _ := mw.CreateFormFile("file", "blob.bin")
	fw.Write(data)
	mw.WriteField("id", "up1")
	mw.Close()
	req, _ := http.NewRequest("POST", e.httpURL+"/v0/file/u/", &buf)
	req.Header.Set("Content-Type", mw.FormDataContentType())
	req.Header.Set("X-Tinode-APIKey", e.apiKey)
	req.Header.Set("X-Tinode-Auth", "Token "+u.tok)
	resp, err := http.DefaultClient.Do(req)
	if err != nil {
		panic("vfUploadFile: " + err.Error())
	}
	defer resp.Body.Close()
	body, _ := io.ReadAll(resp.Body)
	var m map[string]any
	json.Unmarshal(body, &m)
	ctrl, _ := m["ctrl"].(map[string]any)
	params, _ := ctrl["params"].(map[string]any)
	url, _ := params["url"].(string)
	if url == "" {
		panic("vfUploadFile: no url in reply: " + string(body))
	}
	return path.Base(url)
}

// vfSrvLogGrep returns the last n server log lines containing any of the given substrings
// (diagnostics for witnesses only; empty if the server log is not kept).
func vfSrvLogGrep(n int, subs ...string) []string {
	p := os.Getenv("VF_SRVLOG")
	if p == "" {
		return nil
	}
	b, err := os.ReadFile(p)
	if err != nil {
		return nil
	}
	var out []string
	for _, ln := range strings.Split(string(b), "\n") {
		for _, sub := range subs {
			if sub != "" && strings.Contains(ln, sub) {
				out = append(out, ln)
				break
			}
		}
	}
	if len(out) > n {
		out = out[len(out)-n:]
	}
	return out
}
