//go:build verif

package main

import (
	"encoding/json"
	"fmt"
	"net/http"
	"strconv"
	"sync"
	"sync/atomic"
	"time"

	"github.com/gorilla/websocket"
	"github.com/tinode/chat/server/store/types"
)

// vfFrame is one server frame as received by a client.
type vfFrame struct {
	T    int64 // monotonic µs since env start
	N    int   // index in the client's frame list
	Raw  string
	M    map[string]any // parsed JSON
	Kind string         // ctrl|data|meta|pres|info|?
	B    map[string]any // body = M[Kind]
}

func (f *vfFrame) str(k string) string {
	if f == nil || f.B == nil {
		return ""
	}
	s, _ := f.B[k].(string)
	return s
}
func (f *vfFrame) num(k string) int {
	if f == nil || f.B == nil {
		return 0
	}
	switch v := f.B[k].(type) {
	case float64:
		return int(v)
	}
	return 0
}
func (f *vfFrame) code() int { return f.num("code") }
func (f *vfFrame) params() map[string]any {
	if f == nil || f.B == nil {
		return nil
	}
	p, _ := f.B["params"].(map[string]any)
	return p
}

// vfClient is a websocket client recording everything at the client boundary.
type vfClient struct {
	env    *vfEnv
	name   string
	ws     *websocket.Conn
	mu     sync.Mutex
	cond   *sync.Cond
	frames []*vfFrame
	closed bool // reader saw error/close
	seq    int
	uid    types.Uid
	wmu    sync.Mutex
	noRead int32 // when set the reader stops reading (slow consumer)
	sends  []vfSend
}

type vfSend struct {
	T   int64
	Id  string
	Msg map[string]any
	Raw string
}

func (e *vfEnv) now() int64 { return time.Since(e.t0).Microseconds() }

func (e *vfEnv) dial(name string) *vfClient {
	return e.dialKey(name, e.apiKey)
}

func (e *vfEnv) dialKey(name, key string) *vfClient {
	hdr := http.Header{}
	hdr.Set("X-Tinode-APIKey", key)
	d := websocket.Dialer{HandshakeTimeout: 10 * time.Second}
	ws, resp, err := d.Dial(e.wsURL, hdr)
	if err != nil {
		code := 0
		if resp != nil {
			code = resp.StatusCode
		}
		panic(fmt.Sprintf("vf dial %s: %v (http %d)", name, err, code))
	}
	c := &vfClient{env: e, name: name, ws: ws}
	c.cond = sync.NewCond(&c.mu)
	e.mu.Lock()
	e.clients = append(e.clients, c)
	e.mu.Unlock()
	e.vfLog("dial", map[string]any{"c": name})
	go c.reader()
	return c
}

func vfParseFrame(raw []byte) *vfFrame {
	f := &vfFrame{Raw: string(raw)}
	if json.Unmarshal(raw, &f.M) != nil {
		f.Kind = "?"
		return f
	}
	for _, k := range []string{"ctrl", "data", "meta", "pres", "info"} {
		if b, ok := f.M[k].(map[string]any); ok {
			f.Kind = k
			f.B = b
			return f
		}
	}
	f.Kind = "?"
	return f
}

func (c *vfClient) reader() {
	for {
		if atomic.LoadInt32(&c.noRead) != 0 {
			time.Sleep(2 * time.Millisecond)
			c.mu.Lock()
			cl := c.closed
			c.mu.Unlock()
			if cl {
				return
			}
			continue
		}
		_, raw, err := c.ws.ReadMessage()
		if err != nil {
			c.mu.Lock()
			c.closed = true
			c.cond.Broadcast()
			c.mu.Unlock()
			c.env.vfLog("closed", map[string]any{"c": c.name})
			return
		}
		f := vfParseFrame(raw)
		f.T = c.env.now()
		// the frame is on disk before anybody can act on it (a crash right after must not lose the observation)
		if c.env.logf != nil {
			if f.Kind == "?" {
				c.env.vfLog("recv", map[string]any{"c": c.name, "raw": string(raw)})
			} else {
				c.env.vfLog("recv", map[string]any{"c": c.name, "f": json.RawMessage(raw)})
			}
		}
		c.mu.Lock()
		f.N = len(c.frames)
		c.frames = append(c.frames, f)
		c.cond.Broadcast()
		c.mu.Unlock()
		atomic.AddInt64(&c.env.framesIn, 1)
	}
}

func (c *vfClient) nextID() string {
	c.seq++
	return c.name + "-" + strconv.Itoa(c.seq)
}

// sendRaw writes raw bytes; the send is logged before it is written.
func (c *vfClient) sendRaw(raw []byte) error {
	c.env.vfLog("send", map[string]any{"c": c.name, "raw": string(raw)})
	c.wmu.Lock()
	defer c.wmu.Unlock()
	return c.ws.WriteMessage(websocket.TextMessage, raw)
}

// send writes a message given as {"kind": {...}}; fills in id if absent and returns it.
func (c *vfClient) send(kind string, body map[string]any, extra ...map[string]any) string {
	id, _ := body["id"].(string)
	if _, has := body["id"]; !has && kind != "note" {
		id = c.nextID()
		body["id"] = id
	}
	msg := map[string]any{kind: body}
	if len(extra) > 0 && extra[0] != nil {
		msg["extra"] = extra[0]
	}
	raw := []byte(vfJSON(msg))
	c.mu.Lock()
	c.sends = append(c.sends, vfSend{T: c.env.now(), Id: id, Msg: msg, Raw: string(raw)})
	c.mu.Unlock()
	c.sendRaw(raw)
	return id
}

// frameCount returns the number of frames received so far.
func (c *vfClient) frameCount() int {
	c.mu.Lock()
	defer c.mu.Unlock()
	return len(c.frames)
}

// since returns frames with index >= n.
func (c *vfClient) since(n int) []*vfFrame {
	c.mu.Lock()
	defer c.mu.Unlock()
	if n > len(c.frames) {
		n = len(c.frames)
	}
	return append([]*vfFrame{}, c.frames[n:]...)
}

func (c *vfClient) all() []*vfFrame { return c.since(0) }

func (c *vfClient) isClosed() bool {
	c.mu.Lock()
	defer c.mu.Unlock()
	return c.closed
}

// waitCtrl waits for a {ctrl} with the given id, starting search at frame index from.
// Returns nil on watchdog expiry or connection close.
func (c *vfClient) waitCtrl(id string, from int, d time.Duration) *vfFrame {
	deadline := time.Now().Add(d)
	timer := time.AfterFunc(d, func() { c.mu.Lock(); c.cond.Broadcast(); c.mu.Unlock() })
	defer timer.Stop()
	c.mu.Lock()
	defer c.mu.Unlock()
	i := from
	for {
		for ; i < len(c.frames); i++ {
			f := c.frames[i]
			if f.Kind == "ctrl" && f.str("id") == id {
				return f
			}
		}
		if c.closed || time.Now().After(deadline) {
			return nil
		}
		c.cond.Wait()
	}
}

const vfReplyWait = 20 * time.Second

// req sends and waits for the ctrl reply.
func (c *vfClient) req(kind string, body map[string]any, extra ...map[string]any) *vfFrame {
	from := c.frameCount()
	id := c.send(kind, body, extra...)
	return c.waitCtrl(id, from, vfReplyWait)
}

func (c *vfClient) close() {
	c.env.vfLog("close", map[string]any{"c": c.name})
	c.ws.Close()
}

// hi performs the handshake.
func (c *vfClient) hi(bkg bool) *vfFrame {
	b := map[string]any{"ver": "0.22", "ua": "vf/" + c.name}
	if bkg {
		b["bkg"] = true
	}
	return c.req("hi", b)
}

func (c *vfClient) loginToken(tok string) *vfFrame {
	return c.req("login", map[string]any{"scheme": "token", "secret": tok})
}

// connect = dial + hi + token login.
func (e *vfEnv) connect(name string, uid types.Uid, tok string, bkg bool) *vfClient {
	c := e.dial(name)
	c.uid = uid
	if f := c.hi(bkg); f == nil || f.code() >= 300 {
		panic("vf connect: hi failed: " + frameStr(f))
	}
	if f := c.loginToken(tok); f == nil || f.code() != 200 {
		panic("vf connect: login failed: " + frameStr(f))
	}
	return c
}

func frameStr(f *vfFrame) string {
	if f == nil {
		return "<nil>"
	}
	return f.Raw
}

// tryConnect is connect without panicking: returns nil if the handshake or the login is refused
// (e.g. the account has been deleted by the workload).
func (e *vfEnv) tryConnect(name string, uid types.Uid, tok string) *vfClient {
	c := e.dial(name)
	c.uid = uid
	if f := c.hi(false); f == nil || f.code() >= 300 {
		c.close()
		return nil
	}
	if f := c.loginToken(tok); f == nil || f.code() != 200 {
		c.close()
		return nil
	}
	return c
}
