//go:build verif

package main

import (
	"errors"
	"fmt"
	"math/rand"
	"runtime"
	"sort"
	"strings"
	"sync"
	"sync/atomic"
	"testing"
	"time"

	"github.com/tinode/chat/server/auth"
	"github.com/tinode/chat/server/db/vfmem"
	"github.com/tinode/chat/server/store/types"
	"github.com/tinode/chat/server/vfkit"
)

// ---- C14: attach, detach, disconnect and delete race without leaks, hangs or lost replies.

type c14Worker struct {
	u   *vfUser
	c   *vfClient
	ops []string
	// requests which must be answered: id -> kind/topic
	pending map[string][2]string
	slow    bool
}

var c14LastStacks string

func c14Blocked() []string {
	c14LastStacks = ""
	buf := make([]byte, 8<<20)
	n := runtime.Stack(buf, true)
	var out []string
	for _, g := range strings.Split(string(buf[:n]), "\n\n") {
		nl := strings.IndexByte(g, '\n')
		if nl < 0 {
			continue
		}
		hdr := g[:nl]
		lb, rb := strings.IndexByte(hdr, '['), strings.LastIndexByte(hdr, ']')
		if lb < 0 || rb < lb {
			continue
		}
		state := hdr[lb+1 : rb]
		if i := strings.IndexByte(state, ','); i >= 0 {
			state = state[:i]
		}
		if state != "chan send" && state != "sync.WaitGroup.Wait" && state != "semacquire" && state != "sync.Mutex.Lock" && state != "sync.RWMutex.Lock" && state != "sync.RWMutex.RLock" && state != "chan receive" {
			continue
		}
		if state == "chan receive" && (strings.Contains(g, "server.userUpdater") || strings.Contains(g, "server.statsUpdater") || strings.Contains(g, "(*vfPush)") || strings.Contains(g, "server.vfBoot") || strings.Contains(g, "testing.(*T).Run") || strings.Contains(g, "testing.(*M)")) {
			continue // service loops ranging over their input channel
		}
		if !strings.Contains(g, "tinode/chat/server.") {
			continue
		}
		// first server frame
		fn := ""
		for _, line := range strings.Split(g, "\n")[1:] {
			if strings.HasPrefix(line, "github.com/tinode/chat/server") && !strings.Contains(line, ".vf") && !strings.Contains(line, ".c14") && !strings.Contains(line, "TestVf") {
				fn = line
				if i := strings.IndexByte(fn, '('); i > 0 {
					fn = strings.TrimPrefix(fn[:strings.LastIndexByte(fn, '(')], "github.com/tinode/chat/server")
				}
				break
			}
		}
		if fn == "" {
			continue
		}
		out = append(out, state+" in "+fn)
		if len(c14LastStacks) < 6000 {
			c14LastStacks += g + "\n\n"
		}
	}
	return out
}

// c14Canon maps the channel spelling of a group to the group's name.
func c14Canon(name string) string {
	if types.IsChannel(name) {
		return types.ChnToGrp(name)
	}
	return name
}

// c14DetachRace: a session is evicted from a p2p topic (another session of its user unsubscribes), which queues an
// asynchronous detach request for its write loop; the session subscribes again before that request is handled.
// Injected delays hold the write loop inside the handling of the request. The new subscription must survive,
// a repeated {sub} must find the session attached, and the user must be counted once per attached session.
func c14DetachRace(e *vfEnv, r *vfkit.R, rng *rand.Rand, idx int) {
	w := vfNewWorld(e, r, rng)
	defer func() { w.closeAll(); e.vfQuiesceD(20 * time.Second) }()
	ua, ub := w.user(fmt.Sprintf("d%da", idx), auth.LevelAuth), w.user(fmt.Sprintf("d%db", idx), auth.LevelAuth)
	a1, a2, b := w.conn(ua, false), w.conn(ua, false), w.conn(ub, false)
	bn := ub.uid.UserId()
	topic := ua.uid.P2PName(ub.uid)
	a1.sub(bn, nil)
	a2.sub(bn, nil)
	b.sub(ua.uid.UserId(), nil)
	e.vfQuiesce()
	var sid string
	globals.sessionStore.lock.Lock()
	for id, x := range globals.sessionStore.sessCache {
		if x.userAgent == "vf/"+a1.name {
			sid = id
		}
	}
	globals.sessionStore.lock.Unlock()
	held := make(chan struct{}, 4)
	var once sync.Once
	hold := func(arg string) {
		if arg == topic+"|"+sid {
			once.Do(func() { held <- struct{}{}; time.Sleep(120 * time.Millisecond) })
		}
	}
	which := []string{"delStaleSubEnter", "delStaleSubBeforeDel"}[idx%2]
	fps := map[string]func(string){which: hold}
	vfFPs.Store(&fps)
	defer vfFPs.Store(nil)
	f0 := a2.leave(bn, true)
	select {
	case <-held:
	case <-time.After(5 * time.Second):
		r.InfoAdd("detach_race_failpoint_not_reached:"+which, 1)
		return
	}
	// a1 has been evicted and its write loop is held in the middle of the detach request
	f1 := a1.sub(bn, nil)
	time.Sleep(200 * time.Millisecond)
	e.vfQuiesce()
	f2 := a1.sub(bn, nil)
	e.vfQuiesce()
	r.Hit("resubscribe_racing_detach_request")
	r.Eval(fmt.Sprintf("detach-race/%s/%s/%s", which, codeStr(f1), codeStr(f2)))
	script := []string{"a1, a2 attach p2p; a2 {leave unsub} -> " + codeStr(f0) + " (evicts a1, detach request held at " + which + ")",
		"a1 {sub} -> " + codeStr(f1), "detach request handled", "a1 {sub} again -> " + codeStr(f2)}
	t := globals.hub.topicGet(topic)
	if t == nil || f1 == nil || f1.code() >= 300 {
		return
	}
	attached := 0
	for s2, p2 := range t.sessions {
		if p2.uid == ua.uid && !s2.background {
			attached++
		}
	}
	if pud := t.perUser[ua.uid]; pud.online != attached {
		r.Violation("online-counter:p2p:detach-race", fmt.Sprintf("topic counts %d online sessions of the user, %d are attached", pud.online, attached), map[string]any{"script": script})
	}
	if f2 != nil && f2.code() == 200 {
		r.Violation("resubscribed-session-lost-its-subscription", "a session which re-subscribed while an older detach request was pending was not found attached by its next {sub} (answered 200 instead of 304)", map[string]any{"script": script})
	}
}

// c14DeleteDuringLoad: a group is being loaded for a {sub} (the store is slow) when its owner deletes it through
// a session which is not attached: the load then fails. Both requests must be answered, nothing may stay parked,
// and the subscriber's session must go on being served.
func c14DeleteDuringLoad(e *vfEnv, r *vfkit.R, rng *rand.Rand, idx int) {
	w := vfNewWorld(e, r, rng)
	defer func() { w.closeAll(); e.vfQuiesceD(20 * time.Second) }()
	uo, um := w.user(fmt.Sprintf("l%do", idx), auth.LevelAuth), w.user(fmt.Sprintf("l%dm", idx), auth.LevelAuth)
	o, m := w.conn(uo, false), w.conn(um, false)
	var grp, mName, oName string
	if idx%2 == 0 {
		var f *vfFrame
		grp, f = o.newGroup(false, map[string]any{"public": "load-delete"})
		if f == nil || f.code() != 200 {
			r.Inconclusive("c14 delete during load: create failed")
			return
		}
		mName, oName = grp, grp
		m.sub(grp, nil)
		m.leave(grp, false)
		o.leave(grp, false)
	} else {
		// the same with a p2p topic: one participant loads it, the other one deletes it
		grp = uo.uid.P2PName(um.uid)
		mName, oName = uo.uid.UserId(), um.uid.UserId()
		o.sub(oName, nil)
		m.sub(mName, nil)
		o.pub(oName, "hello", false, nil)
		m.leave(mName, false)
		o.leave(oName, false)
	}
	e.vfQuiesce()
	if !e.vfWaitUnloaded(grp) {
		r.Inconclusive("c14 delete during load: topic not unloaded")
		return
	}
	loading := make(chan struct{}, 1)
	// the load is held at its first store call (even runs) or at its second one (odd runs: the topic record has
	// been read, whatever is read next is gone)
	var ncall int32
	holdAt := int32(1 + (idx/2)%2)
	vfRec.setFault(func(c *vfmem.Call) error {
		if c.Topic == grp && atomic.AddInt32(&ncall, 1) == holdAt {
			loading <- struct{}{}
			time.Sleep(150 * time.Millisecond)
		}
		return nil
	})
	fromM := m.frameCount()
	idSub := m.send("sub", map[string]any{"topic": mName})
	select {
	case <-loading:
	case <-time.After(5 * time.Second):
		vfRec.setFault(nil)
		r.InfoAdd("delete_during_load_not_reached", 1)
		return
	}
	fd := o.del(oName, "topic", map[string]any{"hard": true})
	fs := m.waitCtrl(idSub, fromM, vfReplyWait)
	vfRec.setFault(nil)
	settled := e.vfQuiesceD(20 * time.Second)
	r.Hit("topic_deleted_while_loading")
	r.Eval(fmt.Sprintf("delete-during-load/%s/del=%s/sub=%s", grp[:3], codeStr(fd), codeStr(fs)))
	r.InfoAdd(fmt.Sprintf("delete_during_load:%s:held-at-call-%d:del=%s:sub=%s", grp[:3], holdAt, codeStr(fd), codeStr(fs)), 1)
	script := []string{"member {sub} starts loading the group (slow store)", "owner {del topic} through an unattached session -> " + codeStr(fd), "member's {sub} -> " + codeStr(fs)}
	if fd == nil {
		r.Violation("unanswered:del:during-load", "{del topic} sent while the topic was being loaded was never answered", map[string]any{"script": script})
	}
	if fs == nil {
		r.Violation("unanswered:sub:during-load", "{sub} whose topic was deleted while it was being loaded was never answered", map[string]any{"script": script})
	}
	if bl := c14Blocked(); len(bl) > 0 {
		r.Violation("blocked-forever:"+bl[0]+":delete-during-load", "server goroutines are parked where only another goroutine could release them: "+strings.Join(bl, "; "), map[string]any{"script": script, "stacks": c14LastStacks, "settled": settled})
		return
	}
	// the session is still served
	f2 := m.sub("me", nil)
	f3 := m.leave("me", false)
	if f2 == nil || f3 == nil {
		r.Violation("unanswered:after-delete-during-load", fmt.Sprintf("requests of the subscriber's session after the failed load: {sub me} -> %s, {leave me} -> %s", codeStr(f2), codeStr(f3)), map[string]any{"script": script})
	}
}

// c14TablesAgree reports sessions which list a topic that does not list them (or is gone) and vice versa, for
// the given clients' server-side sessions.
func c14TablesAgree(r *vfkit.R, label string, script []string) {
	globals.sessionStore.lock.Lock()
	var sessions []*Session
	for _, s := range globals.sessionStore.sessCache {
		sessions = append(sessions, s)
	}
	globals.sessionStore.lock.Unlock()
	for _, s := range sessions {
		s.subsLock.RLock()
		var names []string
		for tn := range s.subs {
			names = append(names, tn)
		}
		s.subsLock.RUnlock()
		for _, tn := range names {
			t := globals.hub.topicGet(tn)
			listed := false
			if t != nil {
				_, listed = t.sessions[s]
			}
			if !listed {
				r.Violation("session-lists-topic-not-vice-versa:"+topicKind(tn)+":"+label, fmt.Sprintf("session %s lists topic %s but the topic does not list the session (or is not loaded)", s.userAgent, tn), map[string]any{"script": script})
			}
		}
	}
}

// c14FailedDelete: the owner's {del topic} fails in the store. The topic goes on as before: sessions can leave,
// disconnect and attach, and nobody stays listed.
func c14FailedDelete(e *vfEnv, r *vfkit.R, rng *rand.Rand, idx int) {
	w := vfNewWorld(e, r, rng)
	defer func() { w.closeAll(); e.vfQuiesceD(20 * time.Second) }()
	uo, um := w.user(fmt.Sprintf("f%do", idx), auth.LevelAuth), w.user(fmt.Sprintf("f%dm", idx), auth.LevelAuth)
	o, m, m2 := w.conn(uo, false), w.conn(um, false), w.conn(um, false)
	grp, f := o.newGroup(idx%2 == 1, map[string]any{"public": "failed-delete"})
	if f == nil || f.code() != 200 {
		r.Inconclusive("c14 failed delete: create failed")
		return
	}
	m.sub(grp, nil)
	m2.sub(grp, nil)
	e.vfQuiesce()
	fired := false
	vfRec.setFault(func(c *vfmem.Call) error {
		if c.Op == "TopicDelete" && c.Topic == grp && !fired {
			fired = true
			return errors.New("vf injected failure at TopicDelete")
		}
		return nil
	})
	fd := o.del(grp, "topic", map[string]any{"hard": true})
	vfRec.setFault(nil)
	e.vfQuiesce()
	if !fired {
		r.InfoAdd("failed_delete_not_reached", 1)
		return
	}
	f1 := m.leave(grp, false)
	m2.close()
	e.vfQuiesce()
	f2 := m.sub(grp, nil)
	f3 := m.leave(grp, false)
	e.vfQuiesceD(10 * time.Second)
	r.Hit("topic_delete_failed_in_store")
	r.Eval(fmt.Sprintf("failed-delete/del=%s/leave=%s/sub=%s/leave=%s", codeStr(fd), codeStr(f1), codeStr(f2), codeStr(f3)))
	script := []string{"owner {del topic} with the store failing -> " + codeStr(fd), "member {leave} -> " + codeStr(f1), "member's other session disconnects", "member {sub} -> " + codeStr(f2), "member {leave} -> " + codeStr(f3)}
	if fd == nil || fd.code() < 400 {
		r.Violation("failed-delete-acknowledged", "the owner's {del topic} whose store call failed was answered "+codeStr(fd), map[string]any{"script": script})
	}
	for i, fr := range []*vfFrame{f1, f2, f3} {
		if fr == nil {
			r.Violation("unanswered:after-failed-delete", fmt.Sprintf("request %d after the failed deletion was never answered", i+1), map[string]any{"script": script})
		} else if fr.code() >= 500 {
			r.Violation(fmt.Sprintf("topic-unusable-after-failed-delete:%d", fr.code()), "after a {del topic} which failed in the store the topic refuses ordinary requests: "+fr.Raw, map[string]any{"script": script})
		}
	}
	if t := globals.hub.topicGet(grp); t != nil {
		for s2, p2 := range t.sessions {
			if p2.uid == um.uid {
				r.Violation("session-leak:grp:after-failed-delete", fmt.Sprintf("the member left / disconnected but the topic still lists its session %s", s2.userAgent), map[string]any{"script": script})
			}
		}
		if pud := t.perUser[um.uid]; pud.online != 0 {
			r.Violation("online-counter:grp:after-failed-delete", fmt.Sprintf("the member left / disconnected but the topic counts %d online sessions", pud.online), map[string]any{"script": script})
		}
	}
}

// c14SoftAccountDeletion: a user deletes the own account without 'hard' while a peer's session is attached to the
// user's group and to the p2p topic with the user. Some time later the peer's session leaves both: it must be
// answered, and must not list topics which are gone.
func c14SoftAccountDeletion(e *vfEnv, r *vfkit.R, rng *rand.Rand, idx int) {
	w := vfNewWorld(e, r, rng)
	defer func() { w.closeAll(); e.vfQuiesceD(20 * time.Second) }()
	ua, ub := w.user(fmt.Sprintf("s%da", idx), auth.LevelAuth), w.user(fmt.Sprintf("s%db", idx), auth.LevelAuth)
	a, b := w.conn(ua, false), w.conn(ub, false)
	grp, f := a.newGroup(false, map[string]any{"public": "soft-delete"})
	if f == nil || f.code() != 200 {
		r.Inconclusive("c14 soft deletion: create failed")
		return
	}
	an := ua.uid.UserId()
	b.sub(grp, nil)
	b.sub(an, nil)
	a.sub(ub.uid.UserId(), nil)
	e.vfQuiesce()
	from := a.frameCount()
	idDel := a.send("del", map[string]any{"what": "user", "hard": idx%2 == 1})
	fdel := a.waitCtrl(idDel, from, vfReplyWait)
	e.vfQuiesce()
	time.Sleep(700 * time.Millisecond)
	f1 := b.leave(grp, false)
	f2 := b.leave(an, false)
	f3 := b.sub("me", nil)
	e.vfQuiesceD(10 * time.Second)
	r.Hit("account_deleted_while_peer_attached")
	r.Eval(fmt.Sprintf("account-deletion/hard=%v/del=%s/leave-grp=%s/leave-p2p=%s", idx%2 == 1, codeStr(fdel), codeStr(f1), codeStr(f2)))
	script := []string{fmt.Sprintf("user A {del user hard=%v} -> %s while B is attached to A's group and to the p2p topic", idx%2 == 1, codeStr(fdel)), "0.7 s later", "B {leave group} -> " + codeStr(f1), "B {leave p2p} -> " + codeStr(f2), "B {sub me} -> " + codeStr(f3)}
	if !b.isClosed() {
		for i, fr := range []*vfFrame{f1, f2, f3} {
			if fr == nil {
				r.Violation("unanswered:after-account-deletion", fmt.Sprintf("request %d of the peer's session after the account deletion was never answered", i+1), map[string]any{"script": script})
				break
			}
		}
	}
	c14TablesAgree(r, "after-account-deletion", script)
	if bl := c14Blocked(); len(bl) > 0 {
		r.Violation("blocked-forever:"+bl[0]+":after-account-deletion", "server goroutines are parked where only another goroutine could release them: "+strings.Join(bl, "; "), map[string]any{"script": script, "stacks": c14LastStacks})
	}
}

func c14Round(e *vfEnv, r *vfkit.R, rng *rand.Rand, round int) {
	w := vfNewWorld(e, r, rng)
	nusers := 3 + rng.Intn(2)
	var users []*vfUser
	for i := 0; i < nusers; i++ {
		users = append(users, w.user(fmt.Sprintf("r%du%d", round, i), auth.LevelAuth))
	}
	// shared topics: two groups owned by user 0 and user 1, p2p between 0-1 and 1-2
	setup := w.conn(users[0], false)
	setup1 := w.conn(users[1], false)
	g0, _ := setup.newGroup(false, map[string]any{"public": "g0"})
	g1IsChan := rng.Intn(2) == 0
	g1, _ := setup1.newGroup(g1IsChan, map[string]any{"public": "g1"})
	for _, u := range users {
		c := w.conn(u, false)
		c.sub(g0, nil)
		c.sub(g1, nil)
		c.close()
	}
	setup.close()
	setup1.close()
	e.vfQuiesce()
	topicsFor := func(u *vfUser) []string {
		ts := []string{"me", g0, g1, "fnd"}
		if g1IsChan {
			// the channel spelling: attaches as a reader; a {leave} may name either spelling
			ts = append(ts, types.GrpToChn(g1))
		}
		for _, v := range users {
			if v != u {
				ts = append(ts, v.uid.UserId())
			}
		}
		return ts
	}
	var workers []*c14Worker
	for _, u := range users {
		for k := 0; k < 3; k++ {
			workers = append(workers, &c14Worker{u: u, c: w.conn(u, rng.Intn(4) == 0), pending: map[string][2]string{}})
		}
	}
	vfRec.setDelay(true, rng.Int63())
	nops := r.Pick(100, 250)
	var wg sync.WaitGroup
	var delMu sync.Mutex
	deletedTopics := map[string]bool{}
	for wi, wk := range workers {
		wg.Add(1)
		go func(wi int, wk *c14Worker, seed int64) {
			defer wg.Done()
			lr := rand.New(rand.NewSource(seed))
			ts := topicsFor(wk.u)
			for i := 0; i < nops; i++ {
				if wk.c.isClosed() {
					return
				}
				tn := ts[lr.Intn(len(ts))]
				k := lr.Intn(100)
				switch {
				case k < 30:
					id := wk.c.send("sub", map[string]any{"topic": tn})
					wk.pending[id] = [2]string{"sub", tn}
				case k < 50:
					id := wk.c.send("leave", map[string]any{"topic": tn})
					wk.pending[id] = [2]string{"leave", tn}
				case k < 54:
					if tn != "me" && tn != "fnd" {
						id := wk.c.send("leave", map[string]any{"topic": tn, "unsub": true})
						wk.pending[id] = [2]string{"leave", tn}
					}
				case k < 75:
					wk.c.send("pub", map[string]any{"topic": tn, "content": fmt.Sprintf("w%d-%d", wi, i)})
				case k < 85:
					wk.c.send("get", map[string]any{"topic": tn, "what": "desc sub"})
				case k < 88:
					wk.c.note(tn, "kp", 0, nil)
				case k < 90:
					// slow consumer: stop reading for a while
					if !wk.slow && lr.Intn(3) == 0 {
						wk.slow = true
						atomic.StoreInt32(&wk.c.noRead, 1)
					}
				case k < 92:
					// delete a topic (owners only succeed)
					if tn == g0 || tn == g1 {
						id := wk.c.send("del", map[string]any{"topic": tn, "what": "topic", "hard": true})
						wk.pending[id] = [2]string{"del", tn}
						delMu.Lock()
						deletedTopics[tn] = true
						delMu.Unlock()
					}
				case k < 93:
					// abrupt disconnect
					wk.c.close()
					return
				case k < 94 && wi%3 == 2 && round%2 == 1:
					id := wk.c.send("del", map[string]any{"what": "user", "hard": true})
					wk.pending[id] = [2]string{"deluser", ""}
				default:
					id := wk.c.send("sub", map[string]any{"topic": "new" + fmt.Sprint(wi, i)})
					wk.pending[id] = [2]string{"sub", "new"}
				}
				if lr.Intn(3) == 0 {
					time.Sleep(time.Duration(lr.Intn(400)) * time.Microsecond)
				}
			}
		}(wi, wk, rng.Int63())
	}
	wg.Wait()
	vfRec.setDelay(false, 0)
	for _, wk := range workers {
		atomic.StoreInt32(&wk.c.noRead, 0)
	}
	settled := e.vfQuiesceD(30 * time.Second)
	r.Eval(fmt.Sprintf("round/%d/%d", r.Batch(), round))
	if !settled {
		// nothing moves but something is not idle: report what is blocked
		bl := c14Blocked()
		if len(bl) > 0 {
			// sessions whose in-flight slot is taken: show what they were doing
			stuck := map[string]any{}
			globals.sessionStore.lock.Lock()
			for _, s := range globals.sessionStore.sessCache {
				if s.inflightReqs != nil && len(s.inflightReqs.sem) > 0 {
					for _, wk := range workers {
						if "vf/"+wk.c.name == s.userAgent {
							var answered []string
							for _, f := range tail(wk.c.all(), 400) {
								if f.Kind == "ctrl" {
									answered = append(answered, fmt.Sprintf("%s:%d", f.str("id"), f.code()))
								}
							}
							stuck[wk.c.name] = map[string]any{"sends": c14LastSends(wk.c, 40), "ctrl_replies": answered, "closed": wk.c.isClosed()}
						}
					}
				}
			}
			globals.sessionStore.lock.Unlock()
			r.Violation("blocked-forever:"+bl[0], "no quiescence: server goroutines are blocked: "+strings.Join(bl, "; "), map[string]any{"stacks": c14LastStacks, "stuck_sessions": stuck, "why_not_quiescent": vfQWhy, "all_server_goroutines": c14ServerGoroutines()})
		} else {
			r.Inconclusive("c14: no quiescence: " + vfQWhy)
		}
		return
	}
	// (4) nothing is parked in a send / wait group / semaphore at quiescence
	r.Hit("no_blocked_goroutines")
	if bl := c14Blocked(); len(bl) > 0 {
		r.Violation("blocked-forever:"+bl[0], "at quiescence server goroutines are parked where only another goroutine could release them: "+strings.Join(bl, "; "), map[string]any{"stacks": c14LastStacks})
	}
	// (1) every sub / leave / del request is answered
	deletedTopics = map[string]bool{}
	for _, wk := range workers {
		frames := wk.c.all()
		byID := map[string]*vfFrame{}
		evicted := map[string]bool{}
		for _, f := range frames {
			if id := f.str("id"); id != "" && f.B != nil {
				if _, ok := byID[id]; !ok {
					byID[id] = f
				}
			}
			if f.Kind == "ctrl" && f.code() == 205 {
				evicted[c14Canon(f.str("topic"))] = true
			}
		}
		// in send order: the first unanswered request of a session is the one that matters
		var ids []string
		wk.c.mu.Lock()
		for _, sd := range wk.c.sends {
			if _, ok := wk.pending[sd.Id]; ok {
				ids = append(ids, sd.Id)
			}
		}
		wk.c.mu.Unlock()
		reported := false
		for _, id := range ids {
			kt := wk.pending[id]
			if reported {
				break
			}
			r.Hit("request_answered")
			if f := byID[id]; f != nil {
				if kt[0] == "del" && f.code() == 200 && ((kt[1] == g0 && wk.u == users[0]) || (c14Canon(kt[1]) == g1 && wk.u == users[1])) {
					deletedTopics[c14Canon(kt[1])] = true
				}
				continue
			}
			if wk.c.isClosed() {
				continue // connection gone (closed by the client, by eviction on account deletion, or for slowness)
			}
			if kt[0] == "leave" && evicted[c14Canon(kt[1])] {
				r.Hit("leave_answered_by_eviction")
				continue
			}
			reported = true
			r.Violation("unanswered:"+kt[0], fmt.Sprintf("{%s} request %s on %s by %s was never answered (first unanswered request of the session)", kt[0], id, kt[1], wk.c.name), map[string]any{"last_frames": frames2raw(tail(frames, 12)), "last_sends": c14LastSends(wk.c, 45), "closed": wk.c.isClosed(), "srvlog": vfSrvLogGrep(40, kt[1])})
		}
	}
	// (2) session lists topic <=> topic lists session; closed sessions are nowhere
	type key struct {
		sid   string
		topic string
	}
	sessSide := map[key]bool{}
	liveSess := map[*Session]bool{}
	globals.sessionStore.lock.Lock()
	var sessions []*Session
	for _, s := range globals.sessionStore.sessCache {
		sessions = append(sessions, s)
	}
	globals.sessionStore.lock.Unlock()
	for _, s := range sessions {
		liveSess[s] = true
		s.subsLock.RLock()
		for tn := range s.subs {
			sessSide[key{s.sid, tn}] = true
		}
		s.subsLock.RUnlock()
	}
	topicSide := map[key]bool{}
	globals.hub.topics.Range(func(k, v any) bool {
		t := v.(*Topic)
		online := map[types.Uid]int{}
		for s, pssd := range t.sessions {
			topicSide[key{s.sid, t.name}] = true
			r.Hit("attachment_tables_agree")
			if !liveSess[s] {
				infl := -1
				if s.inflightReqs != nil {
					infl = len(s.inflightReqs.sem)
				}
				c14Blocked()
				buf := make([]byte, 4<<20)
				n := runtime.Stack(buf, true)
				var rel []string
				for _, g := range strings.Split(string(buf[:n]), "\n\n") {
					if strings.Contains(g, "cleanUp") || strings.Contains(g, "readLoop") && strings.Contains(g, fmt.Sprintf("%p", s)) {
						rel = append(rel, g)
					}
				}
				r.Violation("dead-session-attached", fmt.Sprintf("topic %s lists session %s which is not in the session registry", topicKind(t.name), s.sid),
					map[string]any{"ua": s.userAgent, "terminating": atomic.LoadInt32(&s.terminating), "inflight": infl, "uid": s.uid.UserId(), "pssd_uid": pssd.uid.UserId(), "goroutines": rel, "last_sends": c14SendsOf(workers, s.userAgent)})
			}
			if !s.background {
				online[pssd.uid]++
			}
		}
		for uid, pud := range t.perUser {
			if t.cat == types.TopicCatMe || t.cat == types.TopicCatFnd {
				continue
			}
			r.Hit("online_counter")
			if pud.online != online[uid] || pud.online < 0 {
				var att []string
				for s2, p2 := range t.sessions {
					att = append(att, fmt.Sprintf("sid=%s ua=%s background=%v uid=%s terminating=%d", s2.sid, s2.userAgent, s2.background, p2.uid.UserId(), atomic.LoadInt32(&s2.terminating)))
				}
				var ua string
				for _, wk := range workers {
					if wk.c.uid == uid {
						ua = "vf/" + wk.c.name
					}
				}
				r.Violation(fmt.Sprintf("online-counter:%s", topicKind(t.name)), fmt.Sprintf("topic %s counts %d online sessions of a user, %d are attached", topicKind(t.name), pud.online, online[uid]),
					map[string]any{"topic": t.name, "user": uid.UserId(), "attached_sessions": att, "deleted": pud.deleted, "srvlog": vfSrvLogGrep(60, t.name), "last_sends_of_a_session_of_the_user": c14SendsOf(workers, ua), "topic_history_per_session": c14TopicHistory(workers, uid, t.name)})
			}
		}
		return true
	})
	for k := range sessSide {
		if !topicSide[k] {
			r.Violation("session-lists-topic-not-vice-versa:"+topicKind(k.topic), fmt.Sprintf("session %s lists topic %s but the topic does not list the session (or is not loaded)", k.sid, k.topic), nil)
		}
	}
	for k := range topicSide {
		if !sessSide[k] {
			r.Violation("topic-lists-session-not-vice-versa:"+topicKind(k.topic), fmt.Sprintf("topic %s lists session %s but the session does not list the topic", k.topic, k.sid), nil)
		}
	}
	// (3) deleted topics are gone and refuse later requests
	probe := e.tryConnect(fmt.Sprintf("probe%d", round), users[0].uid, users[0].tok)
	if probe == nil {
		for _, u := range users[1:] {
			if probe = e.tryConnect(fmt.Sprintf("probe%d", round), u.uid, u.tok); probe != nil {
				break
			}
		}
	}
	if probe != nil && !probe.isClosed() {
		defer probe.close()
		for tn := range deletedTopics {
			var exists bool
			if t := globals.hub.topicGet(tn); t != nil {
				exists = true
			}
			f := probe.sub(tn, nil)
			if f != nil && f.code() >= 400 {
				r.Hit("deleted_topic_refuses")
				if exists {
					r.Violation("deleted-topic-still-loaded", "a deleted topic is still loaded in the hub", nil)
				}
			}
		}
	}
	w.closeAll()
	e.vfQuiesceD(30 * time.Second)
	// after all sessions are gone no topic may list any session
	globals.hub.topics.Range(func(k, v any) bool {
		t := v.(*Topic)
		r.Hit("no_sessions_after_disconnect")
		if len(t.sessions) != 0 {
			r.Violation("session-leak:"+topicKind(t.name), fmt.Sprintf("all clients disconnected but topic %s still lists %d sessions", topicKind(t.name), len(t.sessions)), nil)
		}
		// ... and every user's online count is back to zero
		if t.cat != types.TopicCatMe && t.cat != types.TopicCatFnd {
			for uid, pud := range t.perUser {
				r.Hit("online_counter")
				if pud.online != 0 {
					r.Violation("online-counter-after-disconnect:"+topicKind(t.name), fmt.Sprintf("all clients disconnected but topic %s counts %d online sessions of a user (channel reader: %v)", topicKind(t.name), pud.online, pud.isChan),
						map[string]any{"topic": t.name, "user": uid.UserId(), "srvlog": vfSrvLogGrep(40, t.name)})
				}
			}
		}
		return true
	})
}

func topicKind(name string) string {
	if len(name) >= 3 {
		return name[:3]
	}
	return name
}

func tail(fs []*vfFrame, n int) []*vfFrame {
	if len(fs) > n {
		return fs[len(fs)-n:]
	}
	return fs
}

func TestVfC14(t *testing.T) {
	r := vfkit.New("C14")
	defer r.Finish()
	e := vfBoot(vfConfig{Push: true})
	vfInstallRecorder(e)
	rng := r.Rand(1)
	for i := 0; i < 4; i++ {
		if i < 2 {
			c14DetachRace(e, r, rng, i)
		}
		c14DeleteDuringLoad(e, r, rng, i)
		if i < 2 {
			c14FailedDelete(e, r, rng, i)
			c14SoftAccountDeletion(e, r, rng, i)
		}
	}
	rounds := r.Pick(4, 12)
	for i := 0; i < rounds; i++ {
		c14Round(e, r, rng, i)
		r.Flush(false)
	}
	r.Sample(map[string]any{"rounds": rounds, "ops_per_session": r.Pick(60, 250), "sessions": "3 per user, 3-4 users"})
}

func c14LastSends(c *vfClient, n int) []string {
	c.mu.Lock()
	defer c.mu.Unlock()
	var out []string
	for i := len(c.sends) - n; i < len(c.sends); i++ {
		if i >= 0 {
			out = append(out, fmt.Sprintf("%d %s", c.sends[i].T, truncate(c.sends[i].Raw, 200)))
		}
	}
	return out
}

// c14TopicHistory lists, per session of the user, the requests which name the topic (under either of the
// user's names for it) with the code of their reply, and the server-initiated frames about it, in time order.
func c14TopicHistory(workers []*c14Worker, uid types.Uid, topic string) map[string][]string {
	names := map[string]bool{topic: true}
	if types.GetTopicCat(topic) == types.TopicCatP2P {
		if u1, u2, err := types.ParseP2P(topic); err == nil {
			other := u1
			if other == uid {
				other = u2
			}
			names[other.UserId()] = true
		}
	} else if strings.HasPrefix(topic, "grp") {
		names[types.GrpToChn(topic)] = true
	}
	out := map[string][]string{}
	for _, wk := range workers {
		if wk.c.uid != uid {
			continue
		}
		type item struct {
			t int64
			s string
		}
		var items []item
		wk.c.mu.Lock()
		ids := map[string]bool{}
		for _, sd := range wk.c.sends {
			for kind, b := range sd.Msg {
				if m, ok := b.(map[string]any); ok {
					if tn, _ := m["topic"].(string); names[tn] && (kind == "sub" || kind == "leave" || kind == "del") {
						ids[sd.Id] = true
						items = append(items, item{sd.T, fmt.Sprintf("send %s %s unsub=%v id=%s", kind, tn, m["unsub"], sd.Id)})
					}
				}
			}
		}
		for _, f := range wk.c.frames {
			if f.Kind == "ctrl" && (ids[f.str("id")] || (names[f.str("topic")] && f.str("id") == "")) {
				items = append(items, item{f.T, fmt.Sprintf("recv ctrl id=%s code=%d topic=%s %v", f.str("id"), f.code(), f.str("topic"), f.params())})
			}
		}
		closed := wk.c.closed
		wk.c.mu.Unlock()
		sort.SliceStable(items, func(i, j int) bool { return items[i].t < items[j].t })
		var lines []string
		for _, it := range items {
			lines = append(lines, fmt.Sprintf("%d %s", it.t, it.s))
		}
		if len(lines) > 60 {
			lines = lines[len(lines)-60:]
		}
		out[fmt.Sprintf("%s closed=%v slow=%v", wk.c.name, closed, wk.slow)] = lines
	}
	return out
}

func c14SendsOf(workers []*c14Worker, ua string) []string {
	for _, wk := range workers {
		if "vf/"+wk.c.name == ua {
			return c14LastSends(wk.c, 25)
		}
	}
	return nil
}

func c14ServerGoroutines() []string {
	buf := make([]byte, 8<<20)
	n := runtime.Stack(buf, true)
	var out []string
	for _, g := range strings.Split(string(buf[:n]), "\n\n") {
		if strings.Contains(g, "chat/server.") && !strings.Contains(g, "readLoop") && !strings.Contains(g, "writeLoop") && !strings.Contains(g, ".reader(") {
			if len(g) > 900 {
				g = g[:900]
			}
			out = append(out, g)
		}
	}
	if len(out) > 40 {
		out = out[:40]
	}
	return out
}
