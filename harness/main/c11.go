//go:build verif

package main

import (
	"encoding/base64"
	"errors"
	"fmt"
	"strings"
	"testing"

	"github.com/tinode/chat/server/auth"
	"github.com/tinode/chat/server/db/vfmem"
	"github.com/tinode/chat/server/store"
	"github.com/tinode/chat/server/store/types"
	"github.com/tinode/chat/server/vfkit"
)

// ---- C11: sessions act only within their handshake / authentication state.

type c11Acct struct {
	name   string
	uid    types.Uid
	login  string
	pass   string
	state  string // ok | susp | del | unvalidated
	tok    string
	lvl    auth.Level
	tokExp string // expired token
	tokNL  string // no-login token
}

type c11World struct {
	e       *vfEnv
	r       *vfkit.R
	ok      *c11Acct
	ok2     *c11Acct
	susp    *c11Acct
	del     *c11Acct
	unval   *c11Acct // only meaningful when the email validator is required
	root    *c11Acct
	grp     string
	obs     *vfClient // observer attached to grp as ok2
	emailOn bool
	n       int
	nacc    int
}

func b64(s string) string { return base64.StdEncoding.EncodeToString([]byte(s)) }

func c11MkAcct(name string, lvl auth.Level) *c11Acct {
	uid, _ := vfMkUser(lvl, map[string]any{"fn": name}, nil)
	a := &c11Acct{name: name, uid: uid, login: "login" + name, pass: "password-" + name, state: "ok", lvl: lvl}
	if _, err := store.Store.GetLogicalAuthHandler("basic").AddRecord(&auth.Rec{Uid: uid, AuthLevel: lvl}, []byte(a.login+":"+a.pass), ""); err != nil {
		panic("c11: add basic record: " + err.Error())
	}
	a.tok = vfToken(uid, lvl, 0)
	return a
}

func c11Setup(e *vfEnv, r *vfkit.R, emailOn bool) *c11World {
	w := &c11World{e: e, r: r, emailOn: emailOn}
	w.ok = c11MkAcct("okone", auth.LevelAuth)
	w.ok2 = c11MkAcct("oktwo", auth.LevelAuth)
	w.susp = c11MkAcct("susp", auth.LevelAuth)
	w.del = c11MkAcct("deleted", auth.LevelAuth)
	w.unval = c11MkAcct("unval", auth.LevelAuth)
	w.root = c11MkAcct("root", auth.LevelRoot)
	for _, a := range []*c11Acct{w.ok, w.ok2, w.susp, w.del, w.root} {
		store.Users.UpsertCred(&types.Credential{User: a.uid.String(), Method: "email", Value: a.name + "@example.com", Done: true})
	}
	store.Users.UpdateState(w.susp.uid, types.StateSuspended)
	w.susp.state = "susp"
	store.Users.Delete(w.del.uid, false)
	w.del.state = "del"
	w.unval.state = "unvalidated"
	// expired and no-login tokens for the ok account, minted by the real token authenticator
	th := store.Store.GetLogicalAuthHandler("token")
	if tok, _, err := th.GenSecret(&auth.Rec{Uid: w.ok.uid, AuthLevel: auth.LevelAuth, Lifetime: auth.Duration(-3600e9), Features: auth.FeatureValidated}); err == nil {
		w.ok.tokExp = base64.StdEncoding.EncodeToString(tok)
	} else {
		// the authenticator refuses to mint an expired token: build one with the right key and serial which expired in 2020
		// (documented layout, independent implementation shared with C12)
		key, _ := base64.StdEncoding.DecodeString(vfTokenKey)
		w.ok.tokExp = base64.StdEncoding.EncodeToString(c12Forge(key, uint64(w.ok.uid), 1577836800, uint16(auth.LevelAuth), 1, uint16(auth.FeatureValidated)))
	}
	if tok, _, err := th.GenSecret(&auth.Rec{Uid: w.ok.uid, AuthLevel: auth.LevelAuth, Features: auth.FeatureNoLogin | auth.FeatureValidated}); err == nil {
		w.ok.tokNL = base64.StdEncoding.EncodeToString(tok)
	}
	// a group owned by ok2 with an observer session
	w.obs = e.connect("obs", w.ok2.uid, w.ok2.tok, false)
	name, f := w.obs.newGroup(false, map[string]any{"public": "c11", "defacs": map[string]any{"auth": "JRWPS"}})
	if f == nil || f.code() != 200 {
		panic("c11: group create failed")
	}
	w.grp = name
	e.vfQuiesce()
	return w
}

var errC11Injected = errors.New("vf injected credential read failure")

// c11Ver: independent reading of a version string "[v]major.minor[.patch][-suffix]" as a comparable key
// (zero-padded), "" when it has no major.minor.
func c11Ver(v string) string {
	v = strings.TrimPrefix(v, "v")
	num := func(s string) (int, bool) {
		n, any := 0, false
		for _, ch := range s {
			if ch < '0' || ch > '9' {
				break
			}
			n, any = n*10+int(ch-'0'), true
		}
		return n, any
	}
	parts := strings.SplitN(v, ".", 3)
	if len(parts) < 2 {
		return ""
	}
	ma, ok1 := num(parts[0])
	mi, ok2 := num(parts[1])
	if !ok1 || !ok2 {
		return ""
	}
	pa := 0
	if len(parts) == 3 {
		pa, _ = num(parts[2])
	}
	return fmt.Sprintf("%04d.%04d.%05d", ma, mi, pa)
}

type c11State struct {
	ver bool
	uid types.Uid
	lvl auth.Level
	who string
	att bool // attached to grp
}

// one scripted connection
func (w *c11World) connection(idx int, rng interface{ Intn(int) int }) {
	r, e := w.r, w.e
	w.n++
	c := e.dial(fmt.Sprintf("x%d", w.n))
	defer c.close()
	st := &c11State{}
	var script []string
	steps := 3 + rng.Intn(10)
	note := func(f string, a ...any) { script = append(script, fmt.Sprintf(f, a...)) }
	wit := func(extra map[string]any) map[string]any {
		m := map[string]any{"script": script, "email_validator_required": w.emailOn}
		for k, v := range extra {
			m[k] = v
		}
		return m
	}
	// send and collect all ctrl frames produced until quiescence
	do := func(kind string, body map[string]any, extra map[string]any) (string, []*vfFrame) {
		from := c.frameCount()
		id := c.send(kind, body, extra)
		e.vfQuiesce()
		var ctrls []*vfFrame
		for _, f := range c.since(from) {
			if f.Kind == "ctrl" || (f.Kind == "meta" && f.str("id") != "") {
				ctrls = append(ctrls, f)
			}
		}
		return id, ctrls
	}
	replyFor := func(id string, ctrls []*vfFrame) *vfFrame {
		for _, f := range ctrls {
			if f.str("id") == id {
				return f
			}
		}
		if len(ctrls) > 0 {
			return ctrls[0]
		}
		return nil
	}
	expectErr := func(label string, f *vfFrame, want int) {
		r.Hit("refused_" + label)
		if f == nil {
			r.Violation("unanswered:"+label, "request in a state where it must be refused got no reply", wit(nil))
			return
		}
		if f.code() < 400 || (want != 0 && f.code() != want) {
			r.Violation(fmt.Sprintf("not-refused:%s:%d", label, f.code()), fmt.Sprintf("request must be refused%s but got %d: %s", map[bool]string{true: fmt.Sprintf(" with %d", want), false: ""}[want != 0], f.code(), f.Raw), wit(nil))
		}
	}
	// every fifth connection is directed: handshake, good login, then requests naming the session's own id in
	// extra.obo with authlevel root (a non-root session may not choose a user or a level, its own included)
	selfObo := idx%5 == 4
	if selfObo && steps < 6 {
		steps = 6
	}
	for i := 0; i < steps; i++ {
		k := rng.Intn(20)
		var extra map[string]any
		obo := ""
		forceVariant := ""
		faultCred := false
		if idx%5 == 2 {
			// directed: a restricted (no-login) token is presented, then whatever token the reply carries
			switch i {
			case 0:
				k = 0
			case 1:
				k, forceVariant = 5, "nologin"
			}
		}
		if w.emailOn && idx%5 == 1 {
			// directed: the store cannot read the credentials of an account which lacks a required validated one
			switch i {
			case 0:
				k = 0
			case 1:
				k, forceVariant, faultCred = 5, "unval", true
			}
		}
		if w.emailOn && idx%5 == 3 {
			// directed: an account lacking a required validated credential logs in
			switch i {
			case 0:
				k = 0
			case 1:
				k, forceVariant = 5, "unval"
			}
		}
		if selfObo {
			switch {
			case i == 0:
				k = 0
			case i == 1:
				k, forceVariant = 5, "good"
			case i == 2:
				k = 10 // an authenticated session asks for a new account "with login"
			case !st.uid.IsZero() && st.lvl != auth.LevelRoot && rng.Intn(3) != 0:
				obo = st.uid.UserId()
				extra = map[string]any{"obo": obo}
				if rng.Intn(4) != 0 {
					extra["authlevel"] = []string{"root", "auth"}[rng.Intn(2)]
				}
				r.Hit("own_id_obo")
				if k < 10 {
					k = 10 + rng.Intn(10)
				}
			}
		}
		if !selfObo && rng.Intn(8) == 0 {
			obo = w.ok2.uid.UserId()
			extra = map[string]any{"obo": obo}
			if rng.Intn(2) == 0 {
				extra["authlevel"] = "root"
			}
			if rng.Intn(3) == 0 && !st.uid.IsZero() {
				obo = st.uid.UserId()
				extra["obo"] = obo
				extra["authlevel"] = "root"
			}
		}
		oboDenied := obo != "" && st.lvl != auth.LevelRoot
		switch {
		case k < 4: // hi
			vers := []string{"0.22", "0.22", "0.15", "abc", "0.21", "", "0.22.1", "0.22.7", "v0.22.200-rc1", "0.22.0", "0.21.3"}
			v := vers[rng.Intn(len(vers))]
			if (selfObo || idx%5 == 2 || (w.emailOn && (idx%5 == 3 || idx%5 == 1))) && i == 0 {
				v = "0.22"
			}
			id, ctrls := do("hi", map[string]any{"ver": v, "ua": "c11"}, extra)
			f := replyFor(id, ctrls)
			note("hi ver=%q obo=%s -> %s", v, obo, codeStr(f))
			switch {
			case oboDenied:
				expectErr("obo-non-root", f, 403)
			case !st.ver && c11Ver(v) != "" && c11Ver(v)[:9] >= "0000.0019": // the oldest supported protocol is 0.19
				r.Hit("handshake_ok")
				if f == nil || f.code() >= 300 {
					r.Violation("handshake-refused", "valid first {hi} refused: "+frameStr(f), wit(nil))
				} else {
					st.ver = true
					st.who = c11Ver(v)
				}
			case !st.ver:
				expectErr("bad-handshake", f, 0)
			case st.ver && (v == "" || c11Ver(v) == st.who):
				if f == nil || f.code() >= 300 {
					r.Violation("repeated-hi-refused", "repeated {hi} with the same version refused: "+frameStr(f), wit(nil))
				}
			default:
				expectErr("version-change", f, 0)
			}
		case k < 10: // login
			variants := []string{"good", "badpw", "unknown", "token", "expired", "nologin", "tampered", "susp", "deleted", "scheme", "root", "unval", "good"}
			v := variants[rng.Intn(len(variants))]
			if forceVariant != "" {
				v = forceVariant
			}
			body := map[string]any{"scheme": "basic"}
			var acct *c11Acct
			switch v {
			case "good":
				acct = w.ok
				body["secret"] = b64(acct.login + ":" + acct.pass)
			case "badpw":
				body["secret"] = b64(w.ok.login + ":wrong-password")
			case "unknown":
				body["secret"] = b64("nosuchlogin:whatever1")
			case "token":
				acct = w.ok
				body["scheme"], body["secret"] = "token", acct.tok
			case "expired":
				body["scheme"], body["secret"] = "token", w.ok.tokExp
			case "nologin":
				body["scheme"], body["secret"] = "token", w.ok.tokNL
			case "tampered":
				raw, _ := base64.StdEncoding.DecodeString(w.ok.tok)
				raw[len(raw)/2] ^= 0x10
				body["scheme"], body["secret"] = "token", base64.StdEncoding.EncodeToString(raw)
			case "susp":
				body["secret"] = b64(w.susp.login + ":" + w.susp.pass)
			case "deleted":
				body["secret"] = b64(w.del.login + ":" + w.del.pass)
			case "scheme":
				body["scheme"], body["secret"] = "nosuchscheme", b64("x:y")
			case "root":
				acct = w.root
				body["scheme"], body["secret"] = "token", acct.tok
			case "unval":
				acct = w.unval
				body["secret"] = b64(acct.login + ":" + acct.pass)
			}
			fired := false
			if faultCred {
				vfRec.setFault(func(c *vfmem.Call) error {
					if c.Op == "CredGetAll" && c.User == w.unval.uid {
						fired = true
						return errC11Injected
					}
					return nil
				})
			}
			id, ctrls := do("login", body, extra)
			vfRec.setFault(nil)
			f := replyFor(id, ctrls)
			note("login %s obo=%s fault=%v -> %s", v, obo, fired, codeStr(f))
			if fired {
				// the login did not succeed in establishing that the required credential is validated: whatever the
				// error code, it must not be a success, and the session stays unauthenticated (probed at the end)
				r.Hit("login_cred_read_fault")
				if f == nil {
					r.Violation("unanswered:login-under-fault", "login got no reply when the credential read failed", wit(nil))
				} else if f.code() < 300 {
					r.Violation("login-fails-open:cred-read-fault", "login of an account lacking a required validated credential succeeded when the credentials could not be read: "+f.Raw, wit(nil))
				}
				continue
			}
			if v == "nologin" && !oboDenied && st.ver && st.uid.IsZero() && f != nil {
				// the reply to a restricted token must not hand out anything that logs in
				if tok, _ := f.params()["token"].(string); tok != "" {
					id2, ctrls2 := do("login", map[string]any{"scheme": "token", "secret": tok}, nil)
					f2 := replyFor(id2, ctrls2)
					note("login with the token returned for the restricted token -> %s", codeStr(f2))
					r.Hit("nologin_token_reissue")
				} else {
					r.Hit("nologin_token_reissue")
				}
			}
			switch {
			case oboDenied:
				expectErr("obo-non-root", f, 403)
			case !st.ver:
				expectErr("login-before-hi", f, 0)
			case !st.uid.IsZero():
				expectErr("second-login", f, 409)
			case acct != nil && !(v == "unval" && w.emailOn):
				r.Hit("login_success")
				if f == nil || f.code() != 200 {
					r.Violation("valid-login-refused:"+v, "valid login refused: "+frameStr(f), wit(nil))
				} else {
					st.uid, st.lvl = acct.uid, acct.lvl
				}
			case v == "unval":
				r.Hit("login_needs_validation")
				if f == nil || f.code() != 300 {
					r.Violation("unvalidated-login:"+codeStr(f), "login of an account lacking a required validated credential was not answered 300: "+frameStr(f), wit(nil))
				}
			case v == "nologin":
				// reply code is not fixed by the property; the session must stay unauthenticated (probed below)
				r.Hit("login_nologin_token")
			default:
				expectErr("bad-login-"+v, f, 0)
			}
		case k < 12 && (rng.Intn(2) == 0 || (selfObo && i == 2)): // account creation with immediate login
			w.nacc++
			login := fmt.Sprintf("c11new%d%d", r.Batch(), w.nacc)
			body := map[string]any{"user": "new", "scheme": "basic", "secret": b64(login + ":new-password-1"), "login": true,
				"desc": map[string]any{"public": map[string]any{"fn": login}}}
			id, ctrls := do("acc", body, extra)
			f := replyFor(id, ctrls)
			note("acc new login=true obo=%s -> %s", obo, codeStr(f))
			switch {
			case oboDenied:
				expectErr("obo-non-root", f, 403)
			case !st.ver:
				expectErr("request-before-hi", f, 0)
			case !st.uid.IsZero():
				// a session logs in at most once: creating an account "with login" must not re-authenticate it
				expectErr("second-login-via-acc", f, 0)
			default:
				r.Hit("acc_new_with_login")
				if f != nil && f.code() >= 200 && f.code() < 300 {
					if us, _ := f.params()["user"].(string); us != "" {
						st.uid, st.lvl = types.ParseUserId(us), auth.LevelAuth
					}
				}
			}
		case k < 12: // acc with unknown scheme / temp scheme
			body := map[string]any{"user": "new", "scheme": "nosuchscheme", "secret": b64("a:b")}
			id, ctrls := do("acc", body, extra)
			f := replyFor(id, ctrls)
			note("acc new unknown scheme obo=%s -> %s", obo, codeStr(f))
			if oboDenied {
				expectErr("obo-non-root", f, 403)
			} else {
				expectErr("acc-invalid", f, 0)
			}
		case k < 19: // requests needing login
			kinds := []string{"sub", "pub", "get", "set", "del", "leave", "subgrp", "pubgrp"}
			kd := kinds[rng.Intn(len(kinds))]
			var kind string
			var body map[string]any
			switch kd {
			case "sub":
				kind, body = "sub", map[string]any{"topic": "me"}
			case "pub":
				kind, body = "pub", map[string]any{"topic": "me", "content": "x"}
			case "get":
				kind, body = "get", map[string]any{"topic": "me", "what": "desc"}
			case "set":
				kind, body = "set", map[string]any{"topic": "me", "desc": map[string]any{"private": "p"}}
			case "del":
				kind, body = "del", map[string]any{"topic": "me", "what": "msg", "delseq": []map[string]any{{"low": 1}}}
			case "leave":
				kind, body = "leave", map[string]any{"topic": "me"}
			case "subgrp":
				kind, body = "sub", map[string]any{"topic": w.grp}
			case "pubgrp":
				kind, body = "pub", map[string]any{"topic": w.grp, "content": fmt.Sprintf("c11-%d-%d", w.n, i), "head": map[string]any{"sender": "usrFORGED", "x": 1}}
			}
			obsFrom := w.obs.frameCount()
			id, ctrls := do(kind, body, extra)
			f := replyFor(id, ctrls)
			note("%s obo=%s -> %s", kd, obo, codeStr(f))
			switch {
			case oboDenied:
				expectErr("obo-non-root", f, 403)
			case !st.ver:
				expectErr("request-before-hi", f, 0)
			case st.uid.IsZero():
				expectErr("request-before-login", f, 401)
			default:
				r.Hit("authenticated_request_answered")
				if f == nil {
					r.Violation("unanswered:"+kd, "authenticated request got no reply", wit(nil))
				}
				if kd == "subgrp" && f != nil && f.code() < 300 {
					st.att = true
				}
			}
			if kd == "pubgrp" && f != nil && f.code() == 202 {
				// the recorded author is the session user (or the obo user for root) and the sender header is the server's
				author := st.uid.UserId()
				wantSender := ""
				if obo != "" && st.lvl == auth.LevelRoot && obo != st.uid.UserId() {
					// (a root session naming itself acts as itself: no 'sender' header)
					author, wantSender = obo, st.uid.UserId()
				}
				for _, d := range w.obs.since(obsFrom) {
					if d.Kind != "data" {
						continue
					}
					r.Hit("author_is_session_user")
					if d.str("from") != author {
						r.Violation("author-forged", fmt.Sprintf("message delivered with from=%s, session user %s", d.str("from"), author), wit(map[string]any{"frame": d.Raw}))
					}
					sender := ""
					if h, ok := d.B["head"].(map[string]any); ok {
						sender, _ = h["sender"].(string)
					}
					if sender != wantSender {
						r.Violation("sender-header-forged", fmt.Sprintf("delivered head.sender=%q want %q", sender, wantSender), wit(map[string]any{"frame": d.Raw}))
					}
				}
			}
		default: // note
			from := c.frameCount()
			c.send("note", map[string]any{"topic": "me", "what": "kp"}, extra)
			e.vfQuiesce()
			got := c.since(from)
			note("note kp obo=%s -> %d frames", obo, len(got))
			if (!st.ver || st.uid.IsZero()) && !oboDenied {
				r.Hit("note_dropped_silently")
				if len(got) != 0 {
					r.Violation("note-answered-before-login", "a {note} before handshake/login was answered: "+got[0].Raw, wit(nil))
				}
			}
		}
	}
	// directed suffix: an authenticated session joins the group and publishes with a forged sender header
	if st.ver && !st.uid.IsZero() && rng.Intn(2) == 0 {
		var extra map[string]any
		author, wantSender := st.uid.UserId(), ""
		if st.lvl == auth.LevelRoot {
			extra = map[string]any{"obo": w.ok.uid.UserId()}
			author, wantSender = w.ok.uid.UserId(), st.uid.UserId()
		}
		do("sub", map[string]any{"topic": w.grp}, extra)
		obsFrom := w.obs.frameCount()
		content := fmt.Sprintf("c11-final-%d", w.n)
		id, ctrls := do("pub", map[string]any{"topic": w.grp, "content": content, "head": map[string]any{"sender": "usrFORGED", "x": 1}}, extra)
		f := replyFor(id, ctrls)
		note("final sub+pub on the group (obo=%v) -> %s", extra != nil, codeStr(f))
		if f != nil && f.code() == 202 {
			for _, d := range w.obs.since(obsFrom) {
				if c2, _ := d.B["content"].(string); d.Kind != "data" || c2 != content {
					continue
				}
				r.Hit("author_is_session_user")
				if d.str("from") != author {
					r.Violation("author-forged", fmt.Sprintf("message delivered with from=%s, acting user %s", d.str("from"), author), wit(map[string]any{"frame": d.Raw}))
				}
				sender := ""
				if h, ok := d.B["head"].(map[string]any); ok {
					sender, _ = h["sender"].(string)
				}
				if sender != wantSender {
					r.Violation("sender-header-forged", fmt.Sprintf("delivered head.sender=%q want %q", sender, wantSender), wit(map[string]any{"frame": d.Raw}))
				}
			}
		}
		do("leave", map[string]any{"topic": w.grp}, extra)
	}
	// probe: {sub me} succeeds iff the model says the session is authenticated
	id, ctrls := do("sub", map[string]any{"topic": "me"}, nil)
	f := replyFor(id, ctrls)
	note("probe sub me -> %s", codeStr(f))
	r.Hit("state_probe")
	authed := st.ver && !st.uid.IsZero()
	if f == nil {
		r.Violation("unanswered:probe", "probe request got no reply", wit(nil))
	} else if authed != (f.code() < 400) {
		r.Violation(fmt.Sprintf("state-probe:model-authed-%v:code-%d", authed, f.code()), fmt.Sprintf("after the script the model says authenticated=%v but {sub me} answered %d", authed, f.code()), wit(nil))
	} else if !authed && st.ver && f.code() != 401 {
		r.Violation(fmt.Sprintf("state-probe:unauth-code-%d", f.code()), "unauthenticated {sub me} not answered 401", wit(nil))
	}
	if authed && f != nil && f.code() < 400 {
		// the session acts as the logged-in user: {get desc} on me names that user's record
		ans := c.get("me", "sub", nil)
		_ = ans
	}
	var shape []string
	for _, s := range script {
		shape = append(shape, s)
	}
	r.Eval(vfkit.Hash(shape))
	if idx < 2 {
		r.Sample(map[string]any{"script": script})
	}
}

func TestVfC11(t *testing.T) {
	r := vfkit.New("C11")
	defer r.Finish()
	emailOn := r.Batch()%2 == 1
	e := vfBoot(vfConfig{EmailVal: emailOn})
	vfInstallRecorder(e)
	w := c11Setup(e, r, emailOn)
	rng := r.Rand(1)
	n := r.Pick(60, 400)
	for i := 0; i < n; i++ {
		w.connection(i, rng)
		if i%20 == 19 {
			r.Flush(false)
		}
	}
}
