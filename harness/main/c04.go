//go:build verif

package main

import (
	"errors"
	"fmt"
	"reflect"
	"sort"
	"testing"

	"github.com/tinode/chat/server/auth"
	"github.com/tinode/chat/server/db/vfmem"
	"github.com/tinode/chat/server/vfkit"
)

// ---- C04: history shows exactly what was published and not deleted; deletion is exact.

type c04Msg struct {
	seq     int
	content string
	from    string
	ts      string
}

type c04Model struct {
	msgs   map[int]c04Msg
	last   int
	hard   map[int]bool
	soft   map[string]map[int]bool // user -> ids
	delID  int
	hardTx map[int]int // id -> transaction which hard-deleted it
	softTx map[string]map[int]int
	maxTx  map[string]int // per user: highest transaction touching the user (soft by user or hard)
	// lastHardTx is the number of the latest hard-deletion transaction, whether or not it removed anything new
	lastHardTx int
}

type c04User struct {
	u    *vfUser
	c    *vfClient
	role string
	name string // topic name as addressed
}

type c04Scn struct {
	w     *vfWorld
	r     *vfkit.R
	kind  string
	canon string
	us    []*c04User
	m     *c04Model
	tag   string
	log   []string
}

func (sc *c04Scn) logf(f string, a ...any) { sc.log = append(sc.log, fmt.Sprintf(f, a...)) }

func (sc *c04Scn) mode(u *c04User) (r, d, ok bool) {
	vfmem.A.View(func(db *vfmem.DB) {
		if row := db.FindSub(sc.canon, u.u.uid); row != nil && row.DeletedAt == nil {
			m := row.ModeWant & row.ModeGiven
			r, d, ok = m.IsReader(), m.IsDeleter(), true
		}
	})
	return
}

func (sc *c04Scn) publish(u *c04User, n int) {
	for i := 0; i < n; i++ {
		content := fmt.Sprintf("%s/%s/%d", sc.tag, u.c.name, len(sc.m.msgs)+1)
		f := u.c.pub(u.name, content, true, nil)
		if f == nil || f.code() != 202 {
			continue
		}
		seq := int(f.params()["seq"].(float64))
		sc.m.msgs[seq] = c04Msg{seq: seq, content: content, from: u.u.uid.UserId(), ts: f.str("ts")}
		if seq > sc.m.last {
			sc.m.last = seq
		}
	}
}

func c04Ranges(rng interface{ Intn(int) int }, last int) []map[string]any {
	n := 1 + rng.Intn(4)
	var out []map[string]any
	pick := func() int {
		if last <= 0 {
			return 1
		}
		return 1 + rng.Intn(last)
	}
	for i := 0; i < n; i++ {
		lo := pick()
		switch rng.Intn(12) {
		case 0: // single, no upper bound
			out = append(out, map[string]any{"low": lo})
		case 1: // hi == low
			out = append(out, map[string]any{"low": lo, "hi": lo})
		case 2: // hi == low+1
			out = append(out, map[string]any{"low": lo, "hi": lo + 1})
		case 3: // beyond last
			out = append(out, map[string]any{"low": lo, "hi": last + 1 + rng.Intn(50)})
		case 4: // adjacent to previous [a,b),[b,c)
			if len(out) > 0 {
				if h, ok := out[len(out)-1]["hi"].(int); ok && h > 0 {
					out = append(out, map[string]any{"low": h, "hi": h + 1 + rng.Intn(4)})
					continue
				}
			}
			out = append(out, map[string]any{"low": lo, "hi": lo + 2 + rng.Intn(4)})
		case 5: // touching [a,b),[b+1,..)
			if len(out) > 0 {
				if h, ok := out[len(out)-1]["hi"].(int); ok && h > 0 {
					out = append(out, map[string]any{"low": h + 1, "hi": h + 3 + rng.Intn(3)})
					continue
				}
			}
			out = append(out, map[string]any{"low": lo, "hi": lo + 3})
		case 6: // duplicate of previous
			if len(out) > 0 {
				out = append(out, out[len(out)-1])
				continue
			}
			out = append(out, map[string]any{"low": lo})
		case 7: // nested inside a wide one
			out = append(out, map[string]any{"low": 1, "hi": last + 1})
			out = append(out, map[string]any{"low": lo})
		default:
			hi := lo + 2 + rng.Intn(6)
			out = append(out, map[string]any{"low": lo, "hi": hi})
		}
	}
	rngShuffle(rng, out)
	return out
}

func rngShuffle(rng interface{ Intn(int) int }, s []map[string]any) {
	for i := len(s) - 1; i > 0; i-- {
		j := rng.Intn(i + 1)
		s[i], s[j] = s[j], s[i]
	}
}

func c04Invalid(rng interface{ Intn(int) int }, last int) []map[string]any {
	switch rng.Intn(6) {
	case 0:
		return []map[string]any{}
	case 1:
		return []map[string]any{{"low": last + 5}}
	case 2:
		return []map[string]any{{"low": 3, "hi": 1}}
	case 3:
		return []map[string]any{{"low": 0, "hi": 0}}
	case 4:
		return []map[string]any{{"low": -2, "hi": 3}}
	default:
		return []map[string]any{{"low": 1, "hi": -1}}
	}
}

func geti(m map[string]any, k string) int {
	if v, ok := m[k].(int); ok {
		return v
	}
	return 0
}

// expectedDelSet computes the statement's union; ok=false if the list is invalid per replyDelMsg's validation.
func (sc *c04Scn) expectedDelSet(ranges []map[string]any) (map[int]bool, bool) {
	last := sc.m.last
	if len(ranges) == 0 {
		return nil, false
	}
	set := map[int]bool{}
	for _, rg := range ranges {
		lo, hi := geti(rg, "low"), geti(rg, "hi")
		if lo > last || lo < 0 || hi < 0 || (hi > 0 && lo > hi) || (lo == 0 && hi == 0) {
			return nil, false
		}
		if hi > last {
			hi = last + 1
		}
		if hi == 0 || hi == lo {
			hi = lo + 1
		}
		for i := lo; i < hi; i++ {
			if i >= 1 && i <= last {
				set[i] = true
			}
		}
	}
	return set, true
}

func setList(m map[int]bool) []int {
	var out []int
	for k := range m {
		out = append(out, k)
	}
	sort.Ints(out)
	return out
}

func (sc *c04Scn) wit(extra map[string]any) map[string]any {
	m := map[string]any{"kind": sc.kind, "history": sc.log}
	for k, v := range extra {
		m[k] = v
	}
	return m
}

func (sc *c04Scn) delStep(u *c04User) {
	r, rng, e := sc.r, sc.w.rng, sc.w.e
	hard := rng.Intn(2) == 0
	var ranges []map[string]any
	invalid := rng.Intn(6) == 0
	if invalid {
		ranges = c04Invalid(rng, sc.m.last)
	} else {
		ranges = c04Ranges(rng, sc.m.last)
	}
	canR, canD, subscribed := sc.mode(u)
	before := vfmem.A.Snapshot()
	_ = before
	mark := vfRec.mark()
	body := map[string]any{"delseq": ranges}
	if hard {
		body["hard"] = true
	}
	want, valid := sc.expectedDelSet(ranges)
	// every fifth well-formed, permitted request meets a store which fails the deletion itself (its first write):
	// the request fails, nothing is deleted and no transaction number is used up
	faulty := valid && subscribed && (canR || canD) && len(want) > 0 && len(want) <= 1024 && rng.Intn(5) == 0
	fired := false
	if faulty {
		vfRec.setFault(func(c *vfmem.Call) error {
			if c.Op == "MessageDeleteList" && !fired {
				fired = true
				return errors.New("vf injected failure at MessageDeleteList")
			}
			return nil
		})
	}
	f := u.c.del(u.name, "msg", body)
	vfRec.setFault(nil)
	e.vfQuiesce()
	sc.logf("%s del hard=%v %v (store failure injected: %v) -> %s", u.role, hard, vfCompact(ranges), fired, codeStr(f))
	if f == nil {
		r.Violation("del-unanswered", "del msg request unanswered", sc.wit(nil))
		return
	}
	if fired {
		r.Hit("del_store_failure_uses_no_number")
		if f.code() < 400 {
			r.Violation("failed-del-acknowledged", fmt.Sprintf("delete whose store call failed was answered %d", f.code()), sc.wit(map[string]any{"ranges": ranges}))
		}
		// the model is left unchanged: the following history / deletion-log / transaction-number clauses judge the rest
		return
	}
	r.Eval(fmt.Sprintf("del/%s/hard=%v/valid=%v/R=%v/D=%v/n=%d", sc.kind, hard, valid, canR, canD, len(ranges)))
	writes := vfRec.writesSince(mark)
	if !subscribed {
		return
	}
	effHard := hard && canD
	switch {
	case !canD && !canR:
		r.Hit("del_requires_read")
		if f.code() != 403 {
			r.Violation("del-without-R-not-403", fmt.Sprintf("delete by a user without R answered %d", f.code()), sc.wit(nil))
		}
		if len(writes) > 0 {
			r.Violation("rejected-del-store-write:"+writes[0].Op, "rejected delete wrote to the store", sc.wit(nil))
		}
		return
	case !valid:
		r.Hit("del_invalid_rejected")
		if f.code() < 400 {
			r.Violation("invalid-del-accepted", fmt.Sprintf("invalid range list %v answered %d", vfCompact(ranges), f.code()), sc.wit(map[string]any{"ranges": ranges}))
		}
		if len(writes) > 0 {
			r.Violation("rejected-del-store-write:"+writes[0].Op, "rejected delete wrote to the store", sc.wit(nil))
		}
		return
	}
	if f.code() != 200 {
		if len(want) > 1024 {
			return
		}
		r.Violation("valid-del-rejected", fmt.Sprintf("valid delete answered %d", f.code()), sc.wit(map[string]any{"ranges": ranges}))
		return
	}
	r.Hit("del_transaction_number")
	gotDel := 0
	if v, ok := f.params()["del"].(float64); ok {
		gotDel = int(v)
	}
	if gotDel != sc.m.delID+1 {
		r.Violation("del-transaction-number", fmt.Sprintf("delete acknowledged with transaction %d, previous was %d", gotDel, sc.m.delID), sc.wit(nil))
	}
	sc.m.delID = gotDel
	uid := u.u.uid.UserId()
	if effHard {
		r.Hit("del_hard")
		for id := range want {
			if !sc.m.hard[id] {
				sc.m.hard[id] = true
				sc.m.hardTx[id] = gotDel
			}
		}
		for _, x := range sc.us {
			sc.m.maxTx[x.u.uid.UserId()] = gotDel
		}
		sc.m.lastHardTx = gotDel
	} else {
		if hard {
			r.Hit("del_hard_degrades_to_soft")
		} else {
			r.Hit("del_soft")
		}
		if sc.m.soft[uid] == nil {
			sc.m.soft[uid] = map[int]bool{}
		}
		for id := range want {
			sc.m.soft[uid][id] = true
		}
		sc.m.maxTx[uid] = gotDel
	}
	// exactness of the store arguments: ids passed to the store == statement's union
	for _, ev := range writes {
		if ev.Op != "MessageDeleteList" {
			continue
		}
		got := map[int]bool{}
		if rs, ok := ev.Args["ranges"]; ok {
			rv := reflect.ValueOf(rs)
			for i := 0; i < rv.Len(); i++ {
				lo := int(rv.Index(i).FieldByName("Low").Int())
				hi := int(rv.Index(i).FieldByName("Hi").Int())
				if hi == 0 {
					hi = lo + 1
				}
				for k := lo; k < hi; k++ {
					if k >= 1 && k <= sc.m.last {
						got[k] = true
					}
				}
			}
		}
		r.Hit("del_exact_union")
		if !reflect.DeepEqual(setList(got), setList(want)) {
			kind := "over"
			for k := range want {
				if !got[k] {
					kind = "under"
				}
			}
			r.Violation("del-not-exact:"+kind, fmt.Sprintf("requested ranges %s cover ids %v but ids %v were deleted", vfCompact(ranges), setList(want), setList(got)),
				sc.wit(map[string]any{"ranges": ranges}))
			// follow the implementation so that later steps are judged on their own
			if effHard {
				for id := range got {
					sc.m.hard[id] = true
				}
				for id := range want {
					if !got[id] {
						delete(sc.m.hard, id)
					}
				}
			} else {
				sc.m.soft[uid] = map[int]bool{}
				for id := range got {
					sc.m.soft[uid][id] = true
				}
			}
		}
		forUser, _ := ev.Args["for"].(string)
		if effHard != (forUser == "") {
			r.Violation("del-hard-soft-mismatch", fmt.Sprintf("hard=%v D=%v but store delete was for user %q", hard, canD, forUser), sc.wit(nil))
		}
	}
	if effHard {
		// content erased in the store
		vfmem.A.View(func(db *vfmem.DB) {
			for _, m := range db.Msgs[sc.canon] {
				if sc.m.hard[m.SeqId] && (m.Content != nil || m.Head != nil) {
					r.Violation("hard-delete-content-kept", fmt.Sprintf("message %d hard-deleted but its content is still stored", m.SeqId), sc.wit(nil))
				}
			}
		})
	}
}

func (sc *c04Scn) getDataStep(u *c04User) {
	r, rng := sc.r, sc.w.rng
	opts := map[string]any{}
	last := sc.m.last
	switch rng.Intn(6) {
	case 0:
	case 1:
		opts["since"] = 1 + rng.Intn(last+2)
	case 2:
		opts["before"] = 1 + rng.Intn(last+3)
	case 3:
		a, b := 1+rng.Intn(last+2), 1+rng.Intn(last+2)
		opts["since"], opts["before"] = a, b // possibly inverted
	case 4:
		opts["since"] = last + 3
	default:
		opts["since"] = rng.Intn(3)
		opts["before"] = last + 10
	}
	switch rng.Intn(4) {
	case 0:
		opts["limit"] = 1
	case 1:
		opts["limit"] = 1 + rng.Intn(8)
	case 2:
		opts["limit"] = 1000
	}
	canR, _, subscribed := sc.mode(u)
	var ans *vfGetAns
	if len(opts) == 0 {
		ans = u.c.get(u.name, "data", nil)
	} else {
		ans = u.c.get(u.name, "data", map[string]any{"data": opts})
	}
	sc.logf("%s get data %v -> %d frames", u.role, opts, len(ans.Data))
	if ans.Ctrl == nil {
		r.Violation("get-data-unanswered", "get data unanswered", sc.wit(nil))
		return
	}
	if !subscribed {
		return
	}
	since, before, limit := geti(opts, "since"), geti(opts, "before"), geti(opts, "limit")
	uid := u.u.uid.UserId()
	var exp []int
	if canR {
		for id := range sc.m.msgs {
			if id < since || (before > 0 && id >= before) || sc.m.hard[id] || sc.m.soft[uid][id] {
				continue
			}
			exp = append(exp, id)
		}
	}
	sort.Sort(sort.Reverse(sort.IntSlice(exp)))
	max := 100
	if limit > 0 && limit < max {
		max = limit
	}
	if len(exp) > max {
		exp = exp[:max]
	}
	sort.Ints(exp)
	var got []int
	for _, f := range ans.Data {
		got = append(got, f.num("seq"))
	}
	sort.Ints(got)
	r.Eval(fmt.Sprintf("get/%s/R=%v/opts=%v%v%v/exp=%d", sc.kind, canR, since > 0, before > 0, limit > 0, len(exp) > 0))
	if canR {
		r.Hit("history_exact")
	} else {
		r.Hit("history_requires_read")
	}
	if !reflect.DeepEqual(got, exp) && !(len(got) == 0 && len(exp) == 0) {
		sig := "history-not-exact"
		if !canR {
			sig = "history-without-R"
		}
		r.Violation(sig, fmt.Sprintf("get data %v by %s returned ids %v, expected %v", opts, u.role, got, exp), sc.wit(map[string]any{"opts": opts}))
		return
	}
	if limit > 0 && len(got) > limit {
		r.Violation("history-over-limit", "more messages than the requested limit", sc.wit(nil))
	}
	for _, f := range ans.Data {
		m := sc.m.msgs[f.num("seq")]
		r.Hit("history_message_unaltered")
		c, _ := f.B["content"].(string)
		if c != m.content || f.str("from") != m.from || f.str("ts") != m.ts || f.str("topic") != u.name {
			r.Violation("history-message-altered", fmt.Sprintf("seq %d returned as %s; published content=%q from=%s ts=%s", m.seq, f.Raw, m.content, m.from, m.ts), sc.wit(nil))
		}
	}
}

func (sc *c04Scn) getDelStep(u *c04User) {
	r := sc.r
	canR, _, subscribed := sc.mode(u)
	ans := u.c.get(u.name, "del", nil)
	if len(ans.Meta) == 0 && ans.Ctrl == nil {
		r.Violation("get-del-unanswered", "get del unanswered", sc.wit(nil))
		return
	}
	if !subscribed {
		return
	}
	uid := u.u.uid.UserId()
	exp := map[int]bool{}
	if canR {
		for id := range sc.m.hard {
			exp[id] = true
		}
		for id := range sc.m.soft[uid] {
			exp[id] = true
		}
	}
	got := map[int]bool{}
	clear := 0
	if len(ans.Meta) > 0 {
		if d, ok := ans.Meta[0].B["del"].(map[string]any); ok {
			if v, ok := d["clear"].(float64); ok {
				clear = int(v)
			}
			if ds, ok := d["delseq"].([]any); ok {
				for _, x := range ds {
					m := x.(map[string]any)
					lo, hi := 0, 0
					if v, ok := m["low"].(float64); ok {
						lo = int(v)
					}
					if v, ok := m["hi"].(float64); ok {
						hi = int(v)
					}
					if hi == 0 {
						hi = lo + 1
					}
					for k := lo; k < hi; k++ {
						got[k] = true
					}
				}
			}
		}
	}
	sc.logf("%s get del -> clear=%d ids=%v", u.role, clear, setList(got))
	r.Eval(fmt.Sprintf("getdel/%s/R=%v/n=%v", sc.kind, canR, len(exp) > 0))
	r.Hit("deletion_log_exact")
	if !reflect.DeepEqual(setList(got), setList(exp)) && !(len(got) == 0 && len(exp) == 0) {
		kind := "over"
		for k := range exp {
			if !got[k] {
				kind = "under"
			}
		}
		r.Violation("deletion-log-not-exact:"+kind, fmt.Sprintf("deletion log for %s covers %v, ids deleted for that user are %v", u.role, setList(got), setList(exp)), sc.wit(nil))
	}
	if len(exp) > 0 && canR {
		r.Hit("deletion_log_clear")
		if clear != sc.m.maxTx[uid] {
			r.Violation("deletion-log-clear", fmt.Sprintf("clear=%d, last transaction affecting the user is %d", clear, sc.m.maxTx[uid]), sc.wit(nil))
		}
	}
}

func c04Scenario(w *vfWorld, r *vfkit.R, idx int) {
	rng, e := w.rng, w.e
	sc := &c04Scn{w: w, r: r, tag: fmt.Sprintf("t%d", idx)}
	sc.m = &c04Model{msgs: map[int]c04Msg{}, hard: map[int]bool{}, soft: map[string]map[int]bool{}, hardTx: map[int]int{}, maxTx: map[string]int{}}
	sc.kind = []string{"grp", "grp", "p2p"}[idx%3]
	mk := func(role string) *c04User {
		u := w.user(role, auth.LevelAuth)
		cu := &c04User{u: u, c: w.conn(u, false), role: role}
		sc.us = append(sc.us, cu)
		return cu
	}
	if sc.kind == "grp" {
		o := mk("owner")
		name, f := o.c.newGroup(false, map[string]any{"public": "x"})
		if f == nil || f.code() != 200 {
			r.Inconclusive("c04: create failed")
			return
		}
		sc.canon = name
		o.name = name
		for _, role := range []string{"member", "deleter", "noread"} {
			u := mk(role)
			u.name = name
			u.c.sub(name, nil)
			switch role {
			case "deleter":
				o.c.set(name, map[string]any{"sub": map[string]any{"user": u.u.uid.UserId(), "mode": "JRWPSD"}})
				u.c.set(name, map[string]any{"sub": map[string]any{"mode": "JRWPSD"}})
			case "noread":
				u.c.set(name, map[string]any{"sub": map[string]any{"mode": "JWPS"}})
			}
		}
	} else {
		a, b := mk("peerA"), mk("peerB")
		sc.canon = a.u.uid.P2PName(b.u.uid)
		a.name, b.name = b.u.uid.UserId(), a.u.uid.UserId()
		a.c.sub(a.name, nil)
		b.c.sub(b.name, nil)
	}
	// a second topic with its own messages (leak check by content tag)
	other, _ := sc.us[0].c.newGroup(false, nil)
	for i := 0; i < 3; i++ {
		sc.us[0].c.pub(other, fmt.Sprintf("OTHER/%d", i), true, nil)
	}
	e.vfQuiesce()
	n := rng.Intn(25)
	if idx%7 == 0 {
		n = 0
	}
	for i := 0; i < n; i++ {
		sc.publish(sc.us[rng.Intn(len(sc.us))], 1)
	}
	e.vfQuiesce()
	sc.logf("%d messages published", sc.m.last)
	steps := 6 + rng.Intn(8)
	for i := 0; i < steps; i++ {
		u := sc.us[rng.Intn(len(sc.us))]
		switch rng.Intn(8) {
		case 0, 1, 2:
			if sc.m.last > 0 {
				sc.delStep(u)
			}
		case 3, 4:
			sc.getDataStep(u)
		case 5:
			sc.getDelStep(u)
		case 6:
			sc.publish(u, 1+rng.Intn(3))
			e.vfQuiesce()
		case 7:
			// unsubscribe + resubscribe: the store contract drops the user's own soft deletions
			if u.role == "member" || u.role == "peerB" {
				f1 := u.c.leave(u.name, true)
				e.vfQuiesce()
				f2 := u.c.sub(u.name, nil)
				e.vfQuiesce()
				sc.logf("%s unsub %s resub %s", u.role, codeStr(f1), codeStr(f2))
				if f1 != nil && f1.code() == 200 {
					delete(sc.m.soft, u.u.uid.UserId())
					// transaction counter seen by the user restarts with the topic's hard-deletion transactions only
					// (the latest one counts even if every id it named had been removed before)
					sc.m.maxTx[u.u.uid.UserId()] = sc.m.lastHardTx
				}
			}
		}
	}
	for _, u := range sc.us {
		sc.getDataStep(u)
		sc.getDelStep(u)
	}
	if idx < 2 {
		r.Sample(map[string]any{"kind": sc.kind, "history": sc.log})
	}
}

func TestVfC04(t *testing.T) {
	r := vfkit.New("C04")
	defer r.Finish()
	e := vfBoot(vfConfig{})
	vfInstallRecorder(e)
	rng := r.Rand(1)
	n := r.Pick(12, 60)
	for i := 0; i < n; i++ {
		w := vfNewWorld(e, r, rng)
		c04Scenario(w, r, i+r.Batch()*1000)
		w.closeAll()
		e.vfQuiesce()
	}
}
