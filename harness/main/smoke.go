//go:build verif

package main

import (
	"testing"

	"github.com/tinode/chat/server/auth"
)

func TestVfSmoke(t *testing.T) {
	e := vfBoot(vfConfig{Push: true})
	ua, ta := vfMkUser(auth.LevelAuth, map[string]any{"fn": "alice"}, nil)
	ub, tb := vfMkUser(auth.LevelAuth, map[string]any{"fn": "bob"}, nil)
	a := e.connect("a", ua, ta, false)
	b := e.connect("b", ub, tb, false)
	f := a.req("sub", map[string]any{"topic": "me"})
	t.Log("sub me:", frameStr(f))
	f = a.req("sub", map[string]any{"topic": "new1", "set": map[string]any{"desc": map[string]any{"public": "x"}}})
	t.Log("sub new:", frameStr(f))
	topic := f.str("topic")
	f = b.req("sub", map[string]any{"topic": topic})
	t.Log("b sub:", frameStr(f))
	f = a.req("pub", map[string]any{"topic": topic, "content": "hello", "noecho": true})
	t.Log("pub:", frameStr(f))
	if !e.vfQuiesce() {
		t.Fatal("no quiescence")
	}
	for _, fr := range b.all() {
		t.Log("b:", fr.Raw)
	}
	t.Log("qstats", vfQStats, "push", e.push.count())
}
