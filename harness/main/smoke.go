//go:build verif

package main

import (
	"testing"

	"github.com/tinode/chat/server/auth"
	"github.com/tinode/chat/server/db/vfmem"
)

func TestVfSmoke(t *testing.T) {
	e := vfBoot(vfConfig{Push: true})
	ua, ta := vfMkUser(auth.LevelAuth, map[string]any{"fn": "alice"}, nil)
	a := e.connect("a", ua, ta, false)
	a.req("sub", map[string]any{"topic": "me"})
	f := a.req("sub", map[string]any{"topic": "new1", "set": map[string]any{"desc": map[string]any{"public": "x"}}})
	topic := f.str("topic")
	a.req("pub", map[string]any{"topic": topic, "content": "hello", "noecho": true})
	e.vfQuiesce()
	b := vfmem.A.Snapshot()
	if err := vfmem.A.Restore(b); err != nil {
		t.Fatal("restore:", err, string(b))
	}
	var nu, nt, ns, nm int
	vfmem.A.View(func(db *vfmem.DB) { nu, nt, ns, nm = len(db.Users), len(db.Topics), len(db.Subs), len(db.Msgs[topic]) })
	if nu != 1 || nt != 2 || ns != 3 || nm != 1 {
		t.Fatal("restore lost rows", nu, nt, ns, nm)
	}
	f = a.req("pub", map[string]any{"topic": topic, "content": "again"})
	if f.code() != 202 || f.params()["seq"].(float64) != 2 {
		t.Fatal("publish after restore", f.Raw)
	}
}
