//go:build verif

package main

// Failpoints injected by the overlay (cmd/vf, time-patched builds only) plus the C01 scenario which uses them:
// a publish which races the idle unload of its topic.

import (
	"fmt"
	"sync"
	"sync/atomic"
	"time"

	"github.com/tinode/chat/server/auth"
	"github.com/tinode/chat/server/db/vfmem"
	"github.com/tinode/chat/server/vfkit"
)

var vfFPs atomic.Pointer[map[string]func(arg string)]

// vfFP is called at the injected points; a no-op unless a scenario has armed the named point.
func vfFP(name, arg string) {
	if m := vfFPs.Load(); m != nil {
		if f := (*m)[name]; f != nil {
			f(arg)
		}
	}
}

// c01UnloadRace: the last sessions leave a group, the idle timer fires; while the topic is on its way out a member
// re-attaches and publishes, another member attaches (which loads a fresh instance) and publishes too. Injected
// delays hold the old instance between "timer fired" and "asked the hub to unload" and the hub between "topic
// taken off the map" and "topic told to exit"; the first store write of the racing publish is slowed down.
// Whatever each publisher is told, no number may be handed to two messages.
func c01UnloadRace(r *vfkit.R, e *vfEnv, rec *vfRecorder, idx int) {
	rng := r.Rand(int64(9000 + idx))
	w := vfNewWorld(e, r, rng)
	defer func() {
		w.closeAll()
		e.vfQuiesce()
	}()
	u0, u1 := w.user("u0", auth.LevelAuth), w.user("u1", auth.LevelAuth)
	s0, s1 := w.conn(u0, false), w.conn(u1, false)
	name, f := s0.newGroup(false, map[string]any{"public": "race", "defacs": map[string]any{"auth": "JRWPS"}})
	if f == nil || f.code() != 200 {
		r.Inconclusive("c01 unload race: topic creation failed")
		return
	}
	if f := s1.sub(name, nil); f == nil || f.code() >= 300 {
		r.Inconclusive("c01 unload race: member could not subscribe")
		return
	}
	acked := map[int]string{}
	var script []string
	pub := func(c *vfClient, content string) (int, int) {
		fr := c.pub(name, content, false, nil)
		code, seq := 0, 0
		if fr != nil {
			code = fr.code()
			if v, ok := fr.params()["seq"].(float64); ok {
				seq = int(v)
			}
		}
		script = append(script, fmt.Sprintf("%s pub %q -> %d seq=%d", c.name, content, code, seq))
		if code == 202 {
			if prev, dup := acked[seq]; dup {
				r.Violation("dup-seq-ack:unload-race", fmt.Sprintf("seq %d acknowledged for two publishes (%q, %q)", seq, prev, content), map[string]any{"script": script})
			}
			acked[seq] = content
		}
		return code, seq
	}
	for k := 0; k < 1+rng.Intn(3); k++ {
		pub(s0, fmt.Sprintf("before-%d", k))
	}
	e.vfQuiesce()
	mark := rec.mark()

	fired, hubAt := make(chan struct{}, 1), make(chan struct{}, 1)
	var once1, once2 sync.Once
	d1 := time.Duration(40+rng.Intn(40)) * time.Millisecond
	d2 := time.Duration(60+rng.Intn(60)) * time.Millisecond
	fps := map[string]func(string){
		"topicTimeoutBeforeUnreg": func(t string) {
			if t == name {
				once1.Do(func() { fired <- struct{}{}; time.Sleep(d1) })
			}
		},
		"hubUnregBeforeExit": func(t string) {
			if t == name {
				once2.Do(func() { hubAt <- struct{}{}; time.Sleep(d2) })
			}
		},
	}
	vfFPs.Store(&fps)
	defer vfFPs.Store(nil)

	s0.leave(name, false)
	s1.leave(name, false)
	script = append(script, "both leave; idle timer running")
	select {
	case <-fired:
	case <-time.After(10 * time.Second):
		r.InfoAdd("unload_race_failpoint_not_reached", 1)
		return
	}
	// the topic is held between the timer and its request to the hub: the member's {sub} is queued for it
	from1 := s1.frameCount()
	id1 := s1.send("sub", map[string]any{"topic": name})
	select {
	case <-hubAt:
	case <-time.After(10 * time.Second):
		r.InfoAdd("unload_race_failpoint_not_reached", 1)
		return
	}
	// the hub has taken the topic off its map and is held before telling it to exit
	f1 := s1.waitCtrl(id1, from1, vfReplyWait)
	script = append(script, "timer fired; member {sub} while the topic is being unloaded -> "+codeStr(f1))
	var slow sync.Once
	rec.setFault(func(c *vfmem.Call) error {
		if c.Topic == name && vfWriteOps[c.Op] {
			slow.Do(func() { time.Sleep(d2 + 250*time.Millisecond) })
		}
		return nil
	})
	var wg sync.WaitGroup
	wg.Add(1)
	var code1, seq1 int
	go func() {
		defer wg.Done()
		fr := s1.pub(name, "racing-old", false, nil)
		if fr != nil {
			code1 = fr.code()
			if v, ok := fr.params()["seq"].(float64); ok {
				seq1 = int(v)
			}
		}
	}()
	time.Sleep(5 * time.Millisecond)
	f0 := s0.sub(name, nil)
	script = append(script, "owner {sub} (loads the topic again) -> "+codeStr(f0))
	code0, seq0 := pub(s0, "racing-new")
	wg.Wait()
	rec.setFault(nil)
	script = append(script, fmt.Sprintf("%s pub %q -> %d seq=%d", s1.name, "racing-old", code1, seq1))
	if code1 == 202 {
		if prev, dup := acked[seq1]; dup {
			r.Violation("dup-seq-ack:unload-race", fmt.Sprintf("seq %d acknowledged for two publishes (%q, %q)", seq1, prev, "racing-old"), map[string]any{"script": script})
		}
		acked[seq1] = "racing-old"
	}
	e.vfQuiesce()
	r.Hit("publish_racing_unload")
	r.Eval(fmt.Sprintf("unload-race/sub=%s/old=%d/new=%d", codeStr(f1), code1, code0))
	// no number handed to two messages: every attempt to store a message row of this topic carries its own number
	seen := map[int]int64{}
	for _, ev := range rec.since(mark) {
		if ev.Op != "MessageSave" || ev.Topic != name || ev.Injected {
			continue
		}
		if n0, dup := seen[ev.Seq]; dup {
			r.Violation("seq-issued-twice:unload-race", fmt.Sprintf("two messages of %s were numbered %d (store calls #%d and #%d) while the topic was being unloaded and loaded again", name, ev.Seq, n0, ev.N),
				map[string]any{"script": script, "second_save_error": ev.Err})
		}
		seen[ev.Seq] = ev.N
	}
	_ = seq0
	if idx == 0 {
		r.Sample(map[string]any{"unload_race": script})
	}
}
