//go:build verif

package main

import (
	"fmt"
	"sync"
	"time"

	"github.com/tinode/chat/server/auth"
	"github.com/tinode/chat/server/db/vfmem"
	"github.com/tinode/chat/server/vfkit"
)

// c03ReadOnlyAndDeleteRace: topic states. (a) owner suspended => topic read-only => publishes
// rejected without effect, accepted again after the owner is restored. (b) a publish racing
// the owner's {del topic} while the store is slow must not be accepted.
func c03ReadOnlyAndDeleteRace(r *vfkit.R, e *vfEnv) {
	for round := 0; round < r.Pick(3, 12); round++ {
		w := vfNewWorld(e, r, r.Rand(int64(100+round)))
		owner := w.user("owner", auth.LevelAuth)
		member := w.user("member", auth.LevelAuth)
		root := w.user("root", auth.LevelRoot)
		co, cm, cr := w.conn(owner, false), w.conn(member, false), w.conn(root, false)
		name, f := co.newGroup(false, map[string]any{"public": "x"})
		if f == nil || f.code() != 200 {
			r.Inconclusive("c03 states: create failed")
			continue
		}
		cm.sub(name, nil)
		e.vfQuiesce()
		sc := &pubScn{w: w, r: r, focus: "C03", kind: "grp", canon: name}
		sc.actors = []*pubActor{{u: owner, role: "owner", cs: []*vfClient{co}}, {u: member, role: "member", cs: []*vfClient{cm}}}
		sc.owner = sc.actors[0]
		sc.pubStep(sc.actors[1], cm, 0)
		// (a) suspend the owner
		fs := cr.req("acc", map[string]any{"user": owner.uid.UserId(), "status": "susp"})
		e.vfQuiesce()
		sc.log("root suspends owner -> %s", codeStr(fs))
		if fs != nil && fs.code() < 300 {
			r.Hit("readonly_topic_state")
			sc.pubStep(sc.actors[1], cm, 1)
			fo := cr.req("acc", map[string]any{"user": owner.uid.UserId(), "status": "ok"})
			e.vfQuiesce()
			sc.log("root restores owner -> %s", codeStr(fo))
			sc.pubStep(sc.actors[1], cm, 2)
		} else {
			r.Inconclusive("c03 states: suspend failed " + frameStr(fs))
		}
		// (b) delete race. The owner session was evicted by the suspension; reconnect.
		co2 := w.conn(owner, false)
		co2.sub(name, nil)
		e.vfQuiesce()
		var delStarted, delDone int64
		var mu sync.Mutex
		vfRec.setFault(func(c *vfmem.Call) error {
			if c.Op == "TopicDelete" && c.Topic == name {
				mu.Lock()
				delStarted = e.now()
				mu.Unlock()
				time.Sleep(40 * time.Millisecond)
				mu.Lock()
				delDone = e.now()
				mu.Unlock()
			}
			return nil
		})
		mark := vfRec.mark()
		var wg sync.WaitGroup
		wg.Add(1)
		var fdel *vfFrame
		go func() { defer wg.Done(); fdel = co2.del(name, "topic", map[string]any{"hard": true}) }()
		// wait until the delete reached the store, then publish
		vfWaitCond(5*time.Second, func() bool { mu.Lock(); defer mu.Unlock(); return delStarted != 0 })
		from := cm.frameCount()
		id := cm.send("pub", map[string]any{"topic": name, "content": "racing-delete"})
		fp := cm.waitCtrl(id, from, 5*time.Second)
		wg.Wait()
		vfRec.setFault(nil)
		e.vfQuiesce()
		_ = delDone
		r.Eval(fmt.Sprintf("delete-race/%d", round))
		r.Hit("publish_racing_topic_delete")
		wit := map[string]any{"del_reply": frameStr(fdel), "pub_reply": frameStr(fp)}
		if fp != nil && fp.code() == 202 {
			r.Violation("accepted-not-entitled:grp:member:topic being deleted", "publish accepted while the topic was being deleted", wit)
		}
		for _, ev := range vfRec.writesSince(mark) {
			if (ev.Op == "MessageSave" || ev.Op == "TopicUpdateOnMessage") && ev.Topic == name {
				r.Violation("rejected-but-store-write:grp:member:"+ev.Op+":topic being deleted", "message written for a topic that is being deleted", wit)
			}
		}
		w.closeAll()
		e.vfQuiesce()
	}
}
