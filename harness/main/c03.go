//go:build verif

package main

import (
	"errors"
	"fmt"
	"sync"
	"time"

	"github.com/tinode/chat/server/auth"
	"github.com/tinode/chat/server/db/vfmem"
	"github.com/tinode/chat/server/vfkit"
)

// c03ReadOnlyAndDeleteRace: topic states. (a) owner suspended => topic read-only => publishes
// rejected without effect, accepted again after the owner is restored. (b) a publish racing
// the owner's {del topic} while the store is slow must not be accepted.
func c03ReadOnlyAndDeleteRace(r *vfkit.R, e *vfEnv) {
	for round := 0; round < r.Pick(3, 12); round++ {
		w := vfNewWorld(e, r, r.Rand(int64(100+round)))
		owner := w.user("owner", auth.LevelAuth)
		member := w.user("member", auth.LevelAuth)
		root := w.user("root", auth.LevelRoot)
		co, cm, cr := w.conn(owner, false), w.conn(member, false), w.conn(root, false)
		name, f := co.newGroup(false, map[string]any{"public": "x"})
		if f == nil || f.code() != 200 {
			r.Inconclusive("c03 states: create failed")
			continue
		}
		cm.sub(name, nil)
		e.vfQuiesce()
		sc := &pubScn{w: w, r: r, focus: "C03", kind: "grp", canon: name}
		sc.actors = []*pubActor{{u: owner, role: "owner", cs: []*vfClient{co}}, {u: member, role: "member", cs: []*vfClient{cm}}}
		sc.owner = sc.actors[0]
		sc.pubStep(sc.actors[1], cm, 0)
		// (a) suspend the owner
		fs := cr.req("acc", map[string]any{"user": owner.uid.UserId(), "status": "susp"})
		e.vfQuiesce()
		sc.log("root suspends owner -> %s", codeStr(fs))
		if fs != nil && fs.code() < 300 {
			r.Hit("readonly_topic_state")
			sc.pubStep(sc.actors[1], cm, 1)
			fo := cr.req("acc", map[string]any{"user": owner.uid.UserId(), "status": "ok"})
			e.vfQuiesce()
			sc.log("root restores owner -> %s", codeStr(fo))
			sc.pubStep(sc.actors[1], cm, 2)
		} else {
			r.Inconclusive("c03 states: suspend failed " + frameStr(fs))
		}
		// (b) delete race. The owner session was evicted by the suspension; reconnect.
		co2 := w.conn(owner, false)
		co2.sub(name, nil)
		e.vfQuiesce()
		var delStarted, delDone int64
		var mu sync.Mutex
		vfRec.setFault(func(c *vfmem.Call) error {
			if c.Op == "TopicDelete" && c.Topic == name {
				mu.Lock()
				delStarted = e.now()
				mu.Unlock()
				time.Sleep(40 * time.Millisecond)
				mu.Lock()
				delDone = e.now()
				mu.Unlock()
			}
			return nil
		})
		mark := vfRec.mark()
		var wg sync.WaitGroup
		wg.Add(1)
		var fdel *vfFrame
		go func() { defer wg.Done(); fdel = co2.del(name, "topic", map[string]any{"hard": true}) }()
		// wait until the delete reached the store, then publish
		vfWaitCond(5*time.Second, func() bool { mu.Lock(); defer mu.Unlock(); return delStarted != 0 })
		from := cm.frameCount()
		id := cm.send("pub", map[string]any{"topic": name, "content": "racing-delete"})
		fp := cm.waitCtrl(id, from, 5*time.Second)
		wg.Wait()
		vfRec.setFault(nil)
		e.vfQuiesce()
		_ = delDone
		r.Eval(fmt.Sprintf("delete-race/%d", round))
		r.Hit("publish_racing_topic_delete")
		wit := map[string]any{"del_reply": frameStr(fdel), "pub_reply": frameStr(fp)}
		if fp != nil && fp.code() == 202 {
			r.Violation("accepted-not-entitled:grp:member:topic being deleted", "publish accepted while the topic was being deleted", wit)
		}
		for _, ev := range vfRec.writesSince(mark) {
			if (ev.Op == "MessageSave" || ev.Op == "TopicUpdateOnMessage") && ev.Topic == name {
				r.Violation("rejected-but-store-write:grp:member:"+ev.Op+":topic being deleted", "message written for a topic that is being deleted", wit)
			}
		}
		w.closeAll()
		e.vfQuiesce()
	}
	// (c) p2p: suspending either participant makes the loaded topic read-only for both, restoring re-opens it;
	// (d) a grant of W whose store write fails must not let the user publish.
	for round := 0; round < r.Pick(2, 8); round++ {
		w := vfNewWorld(e, r, r.Rand(int64(300+round)))
		ua, ub := w.user("peerA", auth.LevelAuth), w.user("peerB", auth.LevelAuth)
		root := w.user("root", auth.LevelRoot)
		ca, cb, cr := w.conn(ua, false), w.conn(ub, false), w.conn(root, false)
		ca.sub(ub.uid.UserId(), nil)
		cb.sub(ua.uid.UserId(), nil)
		e.vfQuiesce()
		sc := &pubScn{w: w, r: r, focus: "C03", kind: "p2p", canon: ua.uid.P2PName(ub.uid)}
		pa := &pubActor{u: ua, role: "peerA", cs: []*vfClient{ca}}
		pb := &pubActor{u: ub, role: "peerB", cs: []*vfClient{cb}}
		sc.actors = []*pubActor{pa, pb}
		sc.pubStep(pa, ca, 0)
		for _, victim := range []*vfUser{ua, ub} {
			other, oc := pb, cb
			if victim == ub {
				other, oc = pa, ca
			}
			fs := cr.req("acc", map[string]any{"user": victim.uid.UserId(), "status": "susp"})
			e.vfQuiesce()
			sc.log("root suspends %s -> %s", victim.name, codeStr(fs))
			if fs == nil || fs.code() >= 300 {
				r.Inconclusive("c03 p2p states: suspend failed " + frameStr(fs))
				break
			}
			r.Hit("readonly_p2p_topic_state")
			r.Eval("p2p-suspend/" + victim.name)
			// the other participant is still attached: its publish must be refused without effect
			sc.pubStep(other, oc, 10)
			fo := cr.req("acc", map[string]any{"user": victim.uid.UserId(), "status": "ok"})
			e.vfQuiesce()
			sc.log("root restores %s -> %s", victim.name, codeStr(fo))
			// the suspended user's sessions were dropped: reconnect and re-attach
			if victim == ua {
				ca = w.conn(ua, false)
				pa.cs = []*vfClient{ca}
				ca.sub(ub.uid.UserId(), nil)
			} else {
				cb = w.conn(ub, false)
				pb.cs = []*vfClient{cb}
				cb.sub(ua.uid.UserId(), nil)
			}
			e.vfQuiesce()
			sc.pubStep(pa, pa.cs[0], 11)
			sc.pubStep(pb, pb.cs[0], 12)
		}
		w.closeAll()
		e.vfQuiesce()

		// (d)
		w2 := vfNewWorld(e, r, r.Rand(int64(400+round)))
		owner, member := w2.user("owner", auth.LevelAuth), w2.user("member", auth.LevelAuth)
		co, cm := w2.conn(owner, false), w2.conn(member, false)
		name, f := co.newGroup(false, map[string]any{"public": "x"})
		if f == nil || f.code() != 200 {
			r.Inconclusive("c03 failed grant: create failed")
			continue
		}
		cm.sub(name, nil)
		co.set(name, map[string]any{"sub": map[string]any{"user": member.uid.UserId(), "mode": "JRPS"}})
		e.vfQuiesce()
		sc2 := &pubScn{w: w2, r: r, focus: "C03", kind: "grp", canon: name}
		sc2.actors = []*pubActor{{u: owner, role: "owner", cs: []*vfClient{co}}, {u: member, role: "member", cs: []*vfClient{cm}}}
		sc2.owner = sc2.actors[0]
		sc2.pubStep(sc2.actors[1], cm, 0) // no W: refused
		vfRec.setFault(func(c *vfmem.Call) error {
			if c.Op == "SubsUpdate" && c.Topic == name {
				return errC03Injected
			}
			return nil
		})
		fg := co.set(name, map[string]any{"sub": map[string]any{"user": member.uid.UserId(), "mode": "JRWPS"}})
		vfRec.setFault(nil)
		e.vfQuiesce()
		sc2.log("owner grants W to member while the store fails -> %s", codeStr(fg))
		r.Hit("failed_grant_then_publish")
		r.Eval("failed-grant")
		sc2.pubStep(sc2.actors[1], cm, 1) // the grant is not stored: still refused
		// and the other direction: a failed revocation keeps W
		co.set(name, map[string]any{"sub": map[string]any{"user": member.uid.UserId(), "mode": "JRWPS"}})
		e.vfQuiesce()
		vfRec.setFault(func(c *vfmem.Call) error {
			if c.Op == "SubsUpdate" && c.Topic == name {
				return errC03Injected
			}
			return nil
		})
		fr := co.set(name, map[string]any{"sub": map[string]any{"user": member.uid.UserId(), "mode": "JRPS"}})
		vfRec.setFault(nil)
		e.vfQuiesce()
		sc2.log("owner revokes W from member while the store fails -> %s", codeStr(fr))
		sc2.pubStep(sc2.actors[1], cm, 2) // still entitled: must be accepted
		w2.closeAll()
		e.vfQuiesce()
	}
}

var errC03Injected = errors.New("vf: injected store failure")
