//go:build verif

package main

import (
	"encoding/json"
	"fmt"
	"os"
	"os/exec"
	"path/filepath"
	"reflect"
	"sort"
	"strings"
	"syscall"
	"testing"
	"time"

	"github.com/tinode/chat/server/auth"
	"github.com/tinode/chat/server/db/vfmem"
	"github.com/tinode/chat/server/store/types"
	"github.com/tinode/chat/server/vfkit"
)

// ---- C08: the live topic state and the stored state never diverge.

func normJSON(v any) string {
	b, _ := json.Marshal(jsonNorm(v))
	if string(b) == "null" {
		return ""
	}
	return string(b)
}

func normRaw(raw json.RawMessage) string {
	if len(raw) == 0 {
		return ""
	}
	var v any
	json.Unmarshal(raw, &v)
	return normJSON(v)
}

// c08CacheVsRows compares the loaded topic's cached fields with the store rows. Only called at
// logical quiescence (the actor is parked, the last reply has been received).
func (sc *metaScn) c08CacheVsRows(st *metaStep, label string) {
	r := sc.r
	t := globals.hub.topicGet(sc.canon)
	if t == nil {
		return
	}
	rows := sc.rowsNow()
	if rows.topic == nil {
		return
	}
	r.Hit("cache_equals_rows")
	bad := func(field, cached, stored string) {
		who := ""
		if st != nil {
			who = ":after:" + st.Kind
		}
		sig := "cache-diverged:" + field + who + label
		if strings.HasPrefix(label, ":fault:") {
			f := field
			if i := strings.Index(f, ":"); i >= 0 {
				f = f[:i]
			}
			sig = "fault-cache-diverged:" + strings.TrimPrefix(label, ":fault:") + ":" + f
		}
		r.Violation(sig, fmt.Sprintf("topic %s: cached %s = %s, stored %s", sc.kind, field, cached, stored), sc.wit(st, nil))
	}
	tr := rows.topic
	if t.lastID != tr.SeqId {
		bad("seq", fmt.Sprint(t.lastID), fmt.Sprint(tr.SeqId))
	}
	if t.delID != tr.DelId {
		bad("delId", fmt.Sprint(t.delID), fmt.Sprint(tr.DelId))
	}
	if sc.kind == "grp" {
		if t.owner != tr.Owner {
			bad("owner", sc.roleOf(t.owner), sc.roleOf(tr.Owner))
		}
		if t.accessAuth != tr.Access.Auth || t.accessAnon != tr.Access.Anon {
			bad("defacs", t.accessAuth.String()+"/"+t.accessAnon.String(), tr.Access.Auth.String()+"/"+tr.Access.Anon.String())
		}
		if strings.Join(t.tags, ",") != strings.Join(tr.Tags, ",") {
			bad("tags", fmt.Sprint(t.tags), fmt.Sprint(tr.Tags))
		}
		if normJSON(t.public) != normRaw(tr.Public) {
			bad("public", normJSON(t.public), normRaw(tr.Public))
		}
		if normJSON(t.trusted) != normRaw(tr.Trusted) {
			bad("trusted", normJSON(t.trusted), normRaw(tr.Trusted))
		}
	}
	for uid, row := range rows.subs {
		pud, ok := t.perUser[uid]
		who := sc.roleOf(uid)
		if row.DeletedAt != nil {
			if ok && !pud.deleted {
				bad("subscription-present:"+who, "live", "deleted")
			}
			continue
		}
		if !ok || pud.deleted {
			bad("subscription-missing:"+who, "absent", rowStr(row))
			continue
		}
		if pud.modeWant != row.ModeWant {
			bad("want:"+who, pud.modeWant.String(), row.ModeWant.String())
		}
		if pud.modeGiven != row.ModeGiven {
			bad("given:"+who, pud.modeGiven.String(), row.ModeGiven.String())
		}
		if pud.readID != row.ReadSeqId {
			bad("read:"+who, fmt.Sprint(pud.readID), fmt.Sprint(row.ReadSeqId))
		}
		if pud.recvID != row.RecvSeqId {
			bad("recv:"+who, fmt.Sprint(pud.recvID), fmt.Sprint(row.RecvSeqId))
		}
		if pud.delID != row.DelId {
			bad("clear:"+who, fmt.Sprint(pud.delID), fmt.Sprint(row.DelId))
		}
		if normJSON(pud.private) != normRaw(row.Private) {
			bad("private:"+who, normJSON(pud.private), normRaw(row.Private))
		}
	}
	for uid, pud := range t.perUser {
		if _, ok := rows.subs[uid]; !ok && !pud.deleted && !pud.isChan {
			bad("subscription-extra:"+sc.roleOf(uid), "cached", "no row")
		}
	}
}

func (sc *metaScn) c08Check(st *metaStep) {
	if sc.deleted || sc.broken {
		return
	}
	if st.after.topic == nil {
		sc.deleted = true
		return
	}
	if st.Kind == "reload" {
		return
	}
	n := sc.r.NViolations()
	sc.c08CacheVsRows(st, "")
	if sc.r.NViolations() > n {
		sc.broken = true
	}
}

// ---- probes

func stripKeys(m map[string]any, keys ...string) {
	for _, k := range keys {
		delete(m, k)
	}
}

// c08Probe returns normalised answers to the probe set for one subscriber.
func (sc *metaScn) c08Probe(a *metaActor) map[string]string {
	out := map[string]string{}
	name := sc.nameFor(a)
	norm := func(f *vfFrame, key string) string {
		if f == nil {
			return "<none>"
		}
		v, ok := f.B[key]
		if !ok {
			return fmt.Sprintf("code=%d", f.code())
		}
		switch x := v.(type) {
		case map[string]any:
			stripKeys(x, "updated", "touched", "created", "online", "seen", "ts")
		case []any:
			var list []string
			for _, e := range x {
				if m, ok := e.(map[string]any); ok {
					stripKeys(m, "updated", "touched", "online", "seen", "ts")
					list = append(list, normJSON(m))
				}
			}
			sort.Strings(list)
			return strings.Join(list, ";")
		}
		return normJSON(v)
	}
	for _, what := range []string{"desc", "sub", "tags", "del"} {
		ans := a.c.get(name, what, nil)
		switch {
		case len(ans.Meta) > 0:
			out[what] = norm(ans.Meta[0], what)
		case ans.Ctrl != nil:
			out[what] = fmt.Sprintf("code=%d", ans.Ctrl.code())
		default:
			out[what] = "<unanswered>"
		}
	}
	ans := a.c.get(name, "data", map[string]any{"data": map[string]any{"limit": 100}})
	var msgs []string
	for _, f := range ans.Data {
		msgs = append(msgs, fmt.Sprintf("%d:%s:%s:%s", f.num("seq"), f.str("from"), normJSON(f.B["content"]), normJSON(f.B["head"])))
	}
	sort.Strings(msgs)
	out["data"] = strings.Join(msgs, ";")
	return out
}

// c08Reload: probe, unload, reload, probe again; answers must be identical.
func (sc *metaScn) c08Reload() {
	r, e := sc.r, sc.w.e
	if sc.deleted || sc.broken {
		return
	}
	var was []*metaActor
	before := map[*metaActor]map[string]string{}
	for _, a := range sc.actors {
		if a.c.attachState()[sc.nameFor(a)] {
			was = append(was, a)
			before[a] = sc.c08Probe(a)
		}
	}
	if len(was) == 0 {
		return
	}
	e.vfQuiesce()
	rowsBefore := sc.rowsNow()
	for _, a := range was {
		a.c.leave(sc.nameFor(a), false)
	}
	e.vfQuiesce()
	if !e.vfWaitUnloaded(sc.canon) {
		r.Inconclusive("c08 reload: topic not unloaded")
		return
	}
	for _, a := range was {
		a.c.sub(sc.nameFor(a), nil)
	}
	e.vfQuiesce()
	st := &metaStep{N: len(sc.steps), Kind: "reload", Actor: "-"}
	st.before = sc.rowsNow()
	st.after = st.before
	sc.steps = append(sc.steps, st)
	if eq, _ := metaRowsEqual(rowsBefore, st.after); !eq {
		// re-attaching is itself a mutating request in some states (a self-banned user is un-banned by {sub}):
		// the answers legitimately differ, nothing to compare for this reload.
		r.Hit("reload_skipped_reattach_mutates")
		sc.c08CacheVsRows(st, "")
		return
	}
	for _, a := range was {
		if !a.c.attachState()[sc.nameFor(a)] {
			continue // could not re-attach (e.g. banned meanwhile): nothing to compare
		}
		after := sc.c08Probe(a)
		r.Hit("reload_differential")
		for what, bv := range before[a] {
			if av := after[what]; av != bv {
				r.Violation("reload-differential:"+sc.kind+":"+what, fmt.Sprintf("answer to {get %s} for %s differs after unload/reload", what, a.role),
					sc.wit(nil, map[string]any{"before": bv, "after": av, "who": a.role}))
				sc.broken = true
			}
		}
	}
	sc.c08CacheVsRows(st, "")
}

func c08Scenario(sc *metaScn, idx int) {
	r, rng := sc.r, sc.w.rng
	if sc.kind == "grp" {
		own := sc.actor("owner")
		sc.after(sc.do(sc.actor("admin"), "sub", nil, ""))
		sc.after(sc.do(sc.actor("member"), "sub", nil, ""))
		sc.after(sc.do(own, "setOther", sc.actor("admin"), "JRWPA"))
		sc.after(sc.do(sc.actor("admin"), "setSelf", nil, "JRWPAS"))
		sc.after(sc.do(sc.actor("candidate"), "sub", nil, ""))
		sc.after(sc.do(own, "pub", nil, "first"))
		switch idx % 4 {
		case 0:
			sc.after(sc.do(own, "setOther", sc.actor("candidate"), "JRWPASDO"))
		case 1:
			sc.after(sc.do(own, "setOther", sc.actor("candidate"), "JRWPASDO"))
			sc.after(sc.do(sc.actor("candidate"), "setSelf", nil, "JRWPASDO"))
		case 2:
			// a member without R publishes
			sc.after(sc.do(sc.actor("member"), "setSelf", nil, "JWPS"))
			sc.after(sc.do(sc.actor("member"), "pub", nil, "blind"))
			// a read note beyond the received mark
			sc.after(sc.do(sc.actor("admin"), "noteRead", nil, "1"))
		case 3:
			// unattached session updates own subscription
			sc.after(sc.do(sc.actor("member"), "leave", nil, ""))
			sc.after(sc.do(sc.actor("member"), "setSelf", nil, "JRWS"))
			sc.after(sc.do(sc.actor("member"), "setPrivate", nil, "offline"))
			// ... removes the subscription and subscribes again: the stored row keeps its private data
			sc.after(sc.do(sc.actor("member"), "unsub", nil, ""))
			sc.after(sc.do(sc.actor("member"), "sub", nil, ""))
			r.Hit("grp_resubscribed_with_stored_private")
		}
	} else {
		a, b := sc.actor("peerA"), sc.actor("peerB")
		sc.after(sc.do(a, "sub", nil, ""))
		sc.after(sc.do(b, "sub", nil, ""))
		sc.after(sc.do(a, "pub", nil, "first"))
		if idx%2 == 0 {
			sc.after(sc.do(b, "leave", nil, ""))
			sc.after(sc.do(b, "setSelf", nil, "JRWA"))
			// a participant with private data unsubscribes while the topic is not loaded; its next {sub} loads the topic
			// and re-creates the subscription: the stored row keeps its private data
			sc.after(sc.do(a, "setPrivate", nil, "kept across the unsubscription"))
			sc.after(sc.do(a, "unsub", nil, ""))
			sc.w.e.vfQuiesce()
			if sc.w.e.vfWaitUnloaded(sc.canon) {
				r.Hit("p2p_resubscription_loads_topic")
				sc.after(sc.do(a, "sub", nil, ""))
			} else {
				r.Inconclusive("c08: p2p topic not unloaded after the last attached participant unsubscribed")
			}
		} else {
			// a participant with non-zero marks unsubscribes and subscribes again while the other one keeps the
			// topic in memory: the store re-creates the row, the cached record is un-deleted
			sc.after(sc.do(b, "pub", nil, "second"))
			sc.after(sc.do(a, "noteRecv", nil, "2"))
			sc.after(sc.do(a, "noteRead", nil, "1"))
			sc.after(sc.do(a, "delMsg", nil, "1"))
			sc.after(sc.do(a, "setPrivate", nil, "kept across the unsubscription"))
			sc.after(sc.do(a, "unsub", nil, ""))
			sc.after(sc.do(a, "sub", nil, ""))
			r.Hit("p2p_resubscribed_while_loaded")
			sc.after(sc.do(a, "noteRead", nil, "1"))
		}
	}
	steps := 8 + rng.Intn(10)
	every := 3
	if !r.Quick() {
		every = 1
	}
	for i := 0; i < steps && !sc.deleted && !sc.broken; i++ {
		sc.after(sc.metaRandomStep())
		if i%every == every-1 {
			sc.c08Reload()
		}
	}
	sc.c08Reload()
	var shape []string
	for _, s := range sc.steps {
		shape = append(shape, fmt.Sprintf("%s/%s/%d", s.Actor, s.Kind, s.Code/100))
	}
	r.Eval(sc.kind + "/" + vfkit.Hash(shape))
	if idx < 2 {
		r.Sample(map[string]any{"kind": sc.kind, "script": sc.script()})
	}
}

// ---- fault enumeration: every store call of every request kind is made to fail once.

type c08Req struct {
	name  string
	kind  string // topic kind
	setup func(sc *metaScn)
	run   func(sc *metaScn) *metaStep
}

// c08SetDesc sends one {set desc} with an arbitrary description as a recorded step.
func (sc *metaScn) c08SetDesc(a *metaActor, desc map[string]any) *metaStep {
	st := &metaStep{N: len(sc.steps), Kind: "setDesc", Actor: a.role, actorU: a.u.uid, Arg: normJSON(desc)}
	st.before = sc.rowsNow()
	f := a.c.set(sc.nameFor(a), map[string]any{"desc": desc})
	sc.w.e.vfQuiesce()
	if f != nil {
		st.Code, st.Reply = f.code(), f.Raw
	}
	st.after = sc.rowsNow()
	sc.steps = append(sc.steps, st)
	return st
}

func c08Requests() []c08Req {
	grp := func(sc *metaScn) {
		sc.do(sc.actor("admin"), "sub", nil, "")
		sc.do(sc.actor("member"), "sub", nil, "")
		sc.do(sc.actor("owner"), "setOther", sc.actor("admin"), "JRWPAS")
		sc.do(sc.actor("admin"), "setSelf", nil, "JRWPAS")
		sc.do(sc.actor("owner"), "pub", nil, "m1")
		sc.do(sc.actor("member"), "pub", nil, "m2")
		sc.do(sc.actor("owner"), "pub", nil, "m3")
	}
	return []c08Req{
		{"sub-new", "grp", grp, func(sc *metaScn) *metaStep { return sc.do(sc.actor("candidate"), "sub", nil, "") }},
		{"set-own-want", "grp", grp, func(sc *metaScn) *metaStep { return sc.do(sc.actor("member"), "setSelf", nil, "JRWS") }},
		{"set-other-given", "grp", grp, func(sc *metaScn) *metaStep { return sc.do(sc.actor("owner"), "setOther", sc.actor("member"), "JRWPSD") }},
		{"invite", "grp", grp, func(sc *metaScn) *metaStep { return sc.do(sc.actor("owner"), "setOther", sc.actor("stranger"), "") }},
		{"ownership-transfer", "grp", func(sc *metaScn) {
			grp(sc)
			sc.do(sc.actor("owner"), "setOther", sc.actor("admin"), "JRWPASDO")
		}, func(sc *metaScn) *metaStep { return sc.do(sc.actor("admin"), "setSelf", nil, "JRWPASDO") }},
		{"set-public", "grp", grp, func(sc *metaScn) *metaStep { return sc.do(sc.actor("owner"), "setPublic", nil, "newname") }},
		{"set-public-private", "grp", grp, func(sc *metaScn) *metaStep {
			a := sc.actor("owner")
			st := &metaStep{N: len(sc.steps), Kind: "setPublicPrivate", Actor: a.role, actorU: a.u.uid}
			st.before = sc.rowsNow()
			f := a.c.set(sc.canon, map[string]any{"desc": map[string]any{"public": map[string]any{"fn": "both"}, "private": map[string]any{"note": "both"}}})
			sc.w.e.vfQuiesce()
			if f != nil {
				st.Code, st.Reply = f.code(), f.Raw
			}
			st.after = sc.rowsNow()
			sc.steps = append(sc.steps, st)
			return st
		}},
		{"set-nested-public-private", "grp", func(sc *metaScn) {
			grp(sc)
			sc.c08SetDesc(sc.actor("owner"), map[string]any{
				"public":  map[string]any{"fn": "nested", "photo": map[string]any{"type": "png", "ref": "/v0/file/s/old.png", "dim": map[string]any{"w": 1, "h": 2}}},
				"private": map[string]any{"note": "n", "arch": map[string]any{"pinned": false, "label": "old"}}})
		}, func(sc *metaScn) *metaStep {
			return sc.c08SetDesc(sc.actor("owner"), map[string]any{
				"public":  map[string]any{"photo": map[string]any{"ref": "/v0/file/s/new.png", "dim": map[string]any{"w": 3}}},
				"private": map[string]any{"arch": map[string]any{"pinned": true, "label": "new"}}})
		}},
		{"set-nested-private-member", "grp", func(sc *metaScn) {
			grp(sc)
			sc.c08SetDesc(sc.actor("member"), map[string]any{"private": map[string]any{"note": "n", "arch": map[string]any{"label": "old"}}})
		}, func(sc *metaScn) *metaStep {
			return sc.c08SetDesc(sc.actor("member"), map[string]any{"private": map[string]any{"arch": map[string]any{"label": "new"}}})
		}},
		{"set-defacs", "grp", grp, func(sc *metaScn) *metaStep { return sc.do(sc.actor("owner"), "setDefacs", nil, "JRWP") }},
		{"set-tags", "grp", grp, func(sc *metaScn) *metaStep { return sc.do(sc.actor("owner"), "setTags", nil, "alpha,beta") }},
		{"pub", "grp", grp, func(sc *metaScn) *metaStep { return sc.do(sc.actor("member"), "pub", nil, "m4") }},
		{"note-read", "grp", grp, func(sc *metaScn) *metaStep { return sc.do(sc.actor("admin"), "noteRead", nil, "2") }},
		{"del-msg", "grp", grp, func(sc *metaScn) *metaStep { return sc.do(sc.actor("owner"), "delMsg", nil, "2") }},
		{"del-sub", "grp", grp, func(sc *metaScn) *metaStep { return sc.do(sc.actor("owner"), "delSub", sc.actor("member"), "") }},
		{"leave-unsub", "grp", grp, func(sc *metaScn) *metaStep { return sc.do(sc.actor("member"), "unsub", nil, "") }},
		{"p2p-set-want", "p2p", func(sc *metaScn) {
			sc.do(sc.actor("peerA"), "sub", nil, "")
			sc.do(sc.actor("peerB"), "sub", nil, "")
			sc.do(sc.actor("peerA"), "pub", nil, "m1")
		}, func(sc *metaScn) *metaStep { return sc.do(sc.actor("peerB"), "setSelf", nil, "JRWA") }},
	}
}

func c08Faults(r *vfkit.R, e *vfEnv) {
	for ri, rq := range c08Requests() {
		// learn the write calls of the fault-free request
		learn := func(failAt int) (ops []string, st *metaStep, sc *metaScn, fired string) {
			w := vfNewWorld(e, r, r.Rand(int64(500+ri)))
			sc = metaSetup(w, r, "C08", rq.kind)
			if sc == nil {
				return nil, nil, nil, ""
			}
			rq.setup(sc)
			e.vfQuiesce()
			mark := vfRec.mark()
			n := 0
			if failAt >= 0 {
				vfRec.setFault(func(c *vfmem.Call) error {
					if !vfWriteOps[c.Op] || (c.Topic != sc.canon && c.Topic != "") {
						return nil
					}
					if c.Op == "UserUpdate" || c.Op == "DeviceUpsert" {
						return nil
					}
					n++
					if n-1 == failAt {
						fired = c.Op
						return fmt.Errorf("vf injected failure at %s", c.Op)
					}
					return nil
				})
			}
			st = rq.run(sc)
			vfRec.setFault(nil)
			e.vfQuiesce()
			for _, ev := range vfRec.writesSince(mark) {
				if (ev.Topic == sc.canon || ev.Topic == "") && ev.Op != "UserUpdate" && ev.Op != "DeviceUpsert" {
					ops = append(ops, ev.Op)
				}
			}
			return
		}
		ops, st0, sc0, _ := learn(-1)
		if sc0 == nil {
			continue
		}
		sc0.w.closeAll()
		e.vfQuiesce()
		if st0 == nil || (st0.Code >= 300 && st0.Kind != "noteRead") {
			r.Inconclusive(fmt.Sprintf("c08 faults: fault-free %s answered %d", rq.name, st0.Code))
			continue
		}
		if len(ops) == 0 {
			r.Inconclusive("c08 faults: no store write for " + rq.name)
			continue
		}
		for k := range ops {
			_, st, sc, fired := learn(k)
			if sc == nil {
				continue
			}
			label := fmt.Sprintf("%s:fail@%d:%s", rq.name, k, fired)
			r.Eval("fault/" + label)
			if fired == "" {
				r.Inconclusive("c08 faults: injection point not reached " + label)
				sc.w.closeAll()
				e.vfQuiesce()
				continue
			}
			r.Hit("fault_point")
			failed := st.Code == 0 || st.Code >= 400
			if st.Kind == "noteRead" {
				failed = true // notes are never acknowledged: judged as "not acknowledged"
			}
			if st.Code == 0 && st.Kind != "noteRead" {
				r.Violation("fault-unanswered:"+label, "request was not answered when a store call failed", sc.wit(st, nil))
			}
			if failed {
				r.Hit("failed_leaves_store_unchanged")
				if eq, what := metaRowsEqual(st.before, st.after); !eq {
					r.Violation("failed-but-store-changed:"+label, fmt.Sprintf("request failed (code %d) but %s changed in the store", st.Code, what), sc.wit(st, nil))
				}
			} else {
				r.Hit("acknowledged_under_fault")
			}
			// in either case the live topic must agree with the store
			n := r.NViolations()
			sc.c08CacheVsRows(st, ":fault:"+label)
			_ = n
			sc.w.closeAll()
			e.vfQuiesce()
		}
	}
}

// ---- crash enumeration: acknowledged => durable.

type c08CrashSetup struct {
	Users map[string][2]string // role -> uid, token
	Canon string
	Kind  string
}

func c08Crashes(r *vfkit.R) {
	self, _ := os.Executable()
	for ri, rq := range c08Requests() {
		switch rq.name {
		case "pub", "set-public", "set-other-given", "del-msg", "set-own-want", "ownership-transfer", "set-tags":
		default:
			continue
		}
		cleanDir := filepath.Join(r.OutDir, "c08clean-"+rq.name)
		os.MkdirAll(cleanDir, 0755)
		{
			cmd := exec.Command(self, "-test.run", "^TestVfC08$", "-test.timeout", "0")
			cmd.Env = append(os.Environ(), "VF_ROLE=clean", "VF_CRASHDIR="+cleanDir, "VF_CRASHREQ="+fmt.Sprint(ri), "VF_EVLOG=", "VF_OUT="+cleanDir)
			if out, err := cmd.CombinedOutput(); err != nil {
				r.Inconclusive("c08 crash: clean reference run failed for " + rq.name + ": " + tailStr(string(out), 300))
				continue
			}
		}
		var clean map[string]string
		cb, _ := os.ReadFile(filepath.Join(cleanDir, "clean.json"))
		json.Unmarshal(cb, &clean)
		os.RemoveAll(cleanDir)
		for k := 0; k < 5; k++ {
			for _, when := range []string{"before", "after", "acked"} {
				if when == "acked" && k > 0 {
					continue
				}
				label := fmt.Sprintf("%s:%s-call-%d", rq.name, when, k)
				dir := filepath.Join(r.OutDir, "c08crash-"+strings.ReplaceAll(label, ":", "_"))
				os.MkdirAll(dir, 0755)
				run := func(role string) (int, string) {
					cmd := exec.Command(self, "-test.run", "^TestVfC08$", "-test.timeout", "0")
					cmd.Env = append(os.Environ(), "VF_ROLE="+role, "VF_CRASHDIR="+dir, "VF_CRASHK="+fmt.Sprint(k), "VF_CRASHWHEN="+when,
						"VF_CRASHREQ="+fmt.Sprint(ri), "VF_EVLOG="+filepath.Join(dir, role+".jsonl"), "VF_OUT="+dir)
					out, err := cmd.CombinedOutput()
					code := 0
					if err != nil {
						code = 1
						if ee, ok := err.(*exec.ExitError); ok {
							if ws, ok := ee.Sys().(syscall.WaitStatus); ok && ws.Signaled() && ws.Signal() == syscall.SIGKILL {
								code = 137
							} else {
								code = ee.ExitCode()
							}
						}
					}
					return code, string(out)
				}
				code, out := run("crash1")
				if code == 3 {
					os.RemoveAll(dir)
					continue // request has fewer than k+1 store calls
				}
				if code != 137 {
					r.Inconclusive(fmt.Sprintf("c08 crash %s: phase 1 exit %d: %s", label, code, tailStr(out, 300)))
					continue
				}
				code, out = run("crash2")
				if code != 0 {
					r.Violation("crash:restart-failed:"+label, "server could not restart / answer probes after the crash: "+tailStr(out, 500), nil)
					continue
				}
				var res struct {
					Acked  bool
					Reply  string
					Before map[string]string
					After  map[string]string
					Clean  map[string]string
				}
				b, _ := os.ReadFile(filepath.Join(dir, "result.json"))
				json.Unmarshal(b, &res)
				r.Eval("crash/" + label)
				r.Hit("crash_point")
				if when == "acked" && !res.Acked {
					r.Inconclusive("c08 crash " + label + ": request was not acknowledged in the reference flow: " + res.Reply)
				}
				if res.Acked {
					r.Hit("acknowledged_is_durable")
					// the answers after restart must equal the answers of a run in which the request completed
					for what, cv := range clean {
						if res.After[what] != cv {
							r.Violation("crash:acknowledged-lost:"+rq.name+":"+what, fmt.Sprintf("request %s was acknowledged before the crash but {get %s} after restart does not show it", rq.name, what),
								map[string]any{"case": label, "reply": res.Reply, "after_restart": res.After[what], "expected": cv})
						}
					}
				}
				os.RemoveAll(dir)
			}
		}
	}
}

func c08CrashPhase1() {
	dir := os.Getenv("VF_CRASHDIR")
	var k, ri int
	fmt.Sscan(os.Getenv("VF_CRASHK"), &k)
	fmt.Sscan(os.Getenv("VF_CRASHREQ"), &ri)
	when := os.Getenv("VF_CRASHWHEN")
	rq := c08Requests()[ri]
	e := vfBoot(vfConfig{Push: true})
	vfInstallRecorder(e)
	r := vfkit.New("C08x")
	w := vfNewWorld(e, r, r.Rand(3))
	sc := metaSetup(w, r, "C08", rq.kind)
	rq.setup(sc)
	e.vfQuiesce()
	st := c08CrashSetup{Users: map[string][2]string{}, Canon: sc.canon, Kind: sc.kind}
	for _, a := range sc.actors {
		st.Users[a.role] = [2]string{a.u.uid.String(), a.u.tok}
	}
	sb, _ := json.Marshal(st)
	os.WriteFile(filepath.Join(dir, "setup.json"), sb, 0644)
	// a clean reference: what probes answer when the request completes, taken from a snapshot copy
	n := 0
	match := func(c *vfmem.Call) bool {
		return vfWriteOps[c.Op] && (c.Topic == sc.canon || c.Topic == "") && c.Op != "UserUpdate" && c.Op != "DeviceUpsert"
	}
	if when == "before" {
		vfmem.A.SetIntercept(func(c *vfmem.Call) error {
			if match(c) {
				n++
				if n-1 == k {
					vfmem.A.SnapshotToFile(filepath.Join(dir, "snapshot.bin"))
					syscall.Kill(os.Getpid(), syscall.SIGKILL)
					select {}
				}
			}
			return nil
		})
	} else if when == "after" {
		vfmem.A.SetObserve(func(c *vfmem.Call, db *vfmem.DB) {
			if match(c) {
				n++
				if n-1 == k {
					vfmem.WriteSnapshotLocked(db, filepath.Join(dir, "snapshot.bin"))
					syscall.Kill(os.Getpid(), syscall.SIGKILL)
					select {}
				}
			}
		})
	}
	st1 := rq.run(sc)
	if when == "acked" {
		// the reply has been received by the client: the change must already be in the store
		vfmem.A.SnapshotToFile(filepath.Join(dir, "snapshot.bin"))
		_ = st1
		syscall.Kill(os.Getpid(), syscall.SIGKILL)
		select {}
	}
	os.Exit(3)
}

// c08CleanRun: the same deterministic flow without a crash; its probe answers are the reference.
func c08CleanRun() {
	dir := os.Getenv("VF_CRASHDIR")
	var ri int
	fmt.Sscan(os.Getenv("VF_CRASHREQ"), &ri)
	rq := c08Requests()[ri]
	e := vfBoot(vfConfig{Push: true})
	vfInstallRecorder(e)
	r := vfkit.New("C08x")
	w := vfNewWorld(e, r, r.Rand(3))
	sc := metaSetup(w, r, "C08", rq.kind)
	rq.setup(sc)
	e.vfQuiesce()
	rq.run(sc)
	e.vfQuiesce()
	out := c08ProbeAll(sc)
	b, _ := json.Marshal(out)
	os.WriteFile(filepath.Join(dir, "clean.json"), b, 0644)
	os.Exit(0)
}

// c08ProbeAll attaches every subscriber and collects the probe answers with ids replaced by role names.
func c08ProbeAll(sc *metaScn) map[string]string {
	out := map[string]string{}
	var repl []string
	for _, a := range sc.actors {
		repl = append(repl, a.u.uid.UserId(), "@"+a.role, a.u.uid.String(), "@"+a.role)
	}
	repl = append(repl, sc.canon, "@TOPIC")
	rp := strings.NewReplacer(repl...)
	rows := sc.rowsNow()
	for _, a := range sc.actors {
		if row, ok := rows.subs[a.u.uid]; !ok || row.DeletedAt != nil {
			continue // attaching would create a subscription
		}
		f := a.c.sub(sc.nameFor(a), nil)
		if f == nil || f.code() >= 400 {
			out[a.role+"/attach"] = codeStr(f)
			continue
		}
	}
	sc.w.e.vfQuiesce()
	for _, a := range sc.actors {
		if !a.c.attachState()[sc.nameFor(a)] {
			continue
		}
		for what, v := range sc.c08Probe(a) {
			out[a.role+"/"+what] = rp.Replace(v)
		}
	}
	return out
}

func c08CrashPhase2() {
	dir := os.Getenv("VF_CRASHDIR")
	var ri int
	fmt.Sscan(os.Getenv("VF_CRASHREQ"), &ri)
	_ = c08Requests()[ri]
	var st c08CrashSetup
	b, _ := os.ReadFile(filepath.Join(dir, "setup.json"))
	json.Unmarshal(b, &st)
	// was the request acknowledged before the kill? (from the phase-1 event log)
	acked, reply := c08AckedInLog(filepath.Join(dir, "crash1.jsonl"))
	e := vfBoot(vfConfig{Push: true, Restore: filepath.Join(dir, "snapshot.bin")})
	vfInstallRecorder(e)
	r := vfkit.New("C08x")
	w := vfNewWorld(e, r, r.Rand(3))
	sc := &metaScn{w: w, r: r, focus: "C08", kind: st.Kind, canon: st.Canon, offeredO: map[types.Uid]bool{}}
	for role, ut := range st.Users {
		u := &vfUser{name: role, uid: types.ParseUid(ut[0]), tok: ut[1], level: auth.LevelAuth}
		w.users = append(w.users, u)
		sc.actors = append(sc.actors, &metaActor{u: u, role: role, c: w.conn(u, false)})
	}
	after := c08ProbeAll(sc)
	var clean map[string]string
	res := map[string]any{"Acked": acked, "Reply": reply, "After": after, "Clean": clean}
	rb, _ := json.Marshal(res)
	os.WriteFile(filepath.Join(dir, "result.json"), rb, 0644)
	os.Exit(0)
}

// c08AckedInLog: the last request sent in phase 1 and whether a success reply to it was received.
func c08AckedInLog(p string) (bool, string) {
	b, _ := os.ReadFile(p)
	lastID := ""
	var replies = map[string]string{}
	codes := map[string]int{}
	for _, line := range strings.Split(string(b), "\n") {
		var rec map[string]any
		if line == "" || json.Unmarshal([]byte(line), &rec) != nil {
			continue
		}
		switch rec["k"] {
		case "send":
			raw, _ := rec["raw"].(string)
			var m map[string]any
			if json.Unmarshal([]byte(raw), &m) == nil {
				for _, v := range m {
					if body, ok := v.(map[string]any); ok {
						if id, ok := body["id"].(string); ok {
							lastID = id
						}
					}
				}
			}
		case "recv":
			f, _ := rec["f"].(map[string]any)
			if ctrl, ok := f["ctrl"].(map[string]any); ok {
				id, _ := ctrl["id"].(string)
				code, _ := ctrl["code"].(float64)
				codes[id] = int(code)
				rb, _ := json.Marshal(f)
				replies[id] = string(rb)
			}
		}
	}
	c, ok := codes[lastID]
	return ok && c >= 200 && c < 300, replies[lastID]
}

func TestVfC08(t *testing.T) {
	switch os.Getenv("VF_ROLE") {
	case "crash1":
		c08CrashPhase1()
		return
	case "crash2":
		c08CrashPhase2()
		return
	case "clean":
		c08CleanRun()
		return
	}
	r := vfkit.New("C08")
	defer r.Finish()
	e := vfBoot(vfConfig{Push: true})
	vfInstallRecorder(e)
	if r.Batch() == 0 {
		c08Faults(r, e)
		r.Flush(false)
		c08Crashes(r)
		r.Flush(false)
	}
	rng := r.Rand(1)
	n := r.Pick(8, 40)
	for i := 0; i < n; i++ {
		w := vfNewWorld(e, r, rng)
		kind := "grp"
		if i%3 == 2 {
			kind = "p2p"
		}
		sc := metaSetup(w, r, "C08", kind)
		if sc != nil {
			c08Scenario(sc, i+r.Batch())
		}
		w.closeAll()
		e.vfQuiesce()
		if i%4 == 3 {
			r.Flush(false)
		}
	}
	_ = reflect.DeepEqual
	_ = time.Now
}
