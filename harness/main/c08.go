//go:build verif

package main

func (sc *metaScn) c08Check(st *metaStep) {}
