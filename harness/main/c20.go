//go:build verif

package main

import (
	"context"
	"encoding/base64"
	"encoding/json"
	"fmt"
	"math/rand"
	"net"
	"reflect"
	"sort"
	"strings"
	"sync"
	"sync/atomic"
	"testing"
	"time"

	"github.com/tinode/chat/pbx"
	"github.com/tinode/chat/server/auth"
	"github.com/tinode/chat/server/db/vfmem"
	"github.com/tinode/chat/server/store/types"
	"github.com/tinode/chat/server/vfkit"
	"google.golang.org/grpc"
	"google.golang.org/grpc/credentials/insecure"
	"google.golang.org/protobuf/proto"
)

// C20, server part: a request means the same whether it arrives as JSON or over gRPC,
// a reply carries the same values in both renderings, topic names as seen by each side.
//
// The reference is an independent field table (c20ToPb / c20FromPb below) written from the
// protobuf schema and the JSON API description, not from pbconverter.go.

// ---------------------------------------------------------------------------------------
// independent table: JSON-shaped client message -> pbx.ClientMsg

func c20s(m map[string]any, k string) string { s, _ := m[k].(string); return s }
func c20b(m map[string]any, k string) bool   { b, _ := m[k].(bool); return b }
func c20i(m map[string]any, k string) int32 {
	switch v := m[k].(type) {
	case int:
		return int32(v)
	case float64:
		return int32(v)
	}
	return 0
}
func c20m(m map[string]any, k string) map[string]any { v, _ := m[k].(map[string]any); return v }
func c20strs(m map[string]any, k string) []string {
	switch v := m[k].(type) {
	case []string:
		return v
	case []any:
		var out []string
		for _, x := range v {
			s, _ := x.(string)
			out = append(out, s)
		}
		return out
	}
	return nil
}
func c20raw(v any) []byte {
	if v == nil {
		return nil
	}
	b, _ := json.Marshal(v)
	return b
}
func c20rawMap(m map[string]any) map[string][]byte {
	if m == nil {
		return nil
	}
	out := map[string][]byte{}
	for k, v := range m {
		if v != nil {
			out[k] = c20raw(v)
		}
	}
	return out
}

// secrets travel as standard base64 text in JSON and as bytes in protobuf
func c20secret(m map[string]any, k string) []byte {
	s := c20s(m, k)
	if s == "" {
		return nil
	}
	b, _ := base64.StdEncoding.DecodeString(s)
	return b
}
func c20ms(m map[string]any, k string) int64 {
	s := c20s(m, k)
	if s == "" {
		return 0
	}
	t, err := time.Parse(time.RFC3339Nano, s)
	if err != nil {
		return 0
	}
	return t.UnixMilli()
}

var c20Levels = map[string]pbx.AuthLevel{"": pbx.AuthLevel_NONE, "anon": pbx.AuthLevel_ANON, "auth": pbx.AuthLevel_AUTH, "root": pbx.AuthLevel_ROOT}
var c20NoteWhat = map[string]pbx.InfoNote{"kp": pbx.InfoNote_KP, "read": pbx.InfoNote_READ, "recv": pbx.InfoNote_RECV, "call": pbx.InfoNote_CALL}
var c20Events = map[string]pbx.CallEvent{"accept": pbx.CallEvent_ACCEPT, "answer": pbx.CallEvent_ANSWER, "hang-up": pbx.CallEvent_HANG_UP,
	"ice-candidate": pbx.CallEvent_ICE_CANDIDATE, "invite": pbx.CallEvent_INVITE, "offer": pbx.CallEvent_OFFER, "ringing": pbx.CallEvent_RINGING}
var c20DelWhat = map[string]pbx.ClientDel_What{"msg": pbx.ClientDel_MSG, "topic": pbx.ClientDel_TOPIC, "sub": pbx.ClientDel_SUB, "user": pbx.ClientDel_USER, "cred": pbx.ClientDel_CRED}

func c20Cred(m map[string]any) *pbx.ClientCred {
	if m == nil {
		return nil
	}
	return &pbx.ClientCred{Method: c20s(m, "meth"), Value: c20s(m, "val"), Response: c20s(m, "resp"), Params: c20rawMap(c20m(m, "params"))}
}
func c20Creds(v any) []*pbx.ClientCred {
	l, _ := v.([]any)
	var out []*pbx.ClientCred
	for _, x := range l {
		m, _ := x.(map[string]any)
		out = append(out, c20Cred(m))
	}
	return out
}
func c20SetDesc(m map[string]any) *pbx.SetDesc {
	if m == nil {
		return nil
	}
	d := &pbx.SetDesc{Public: c20raw(m["public"]), Trusted: c20raw(m["trusted"]), Private: c20raw(m["private"])}
	if da := c20m(m, "defacs"); da != nil {
		d.DefaultAcs = &pbx.DefaultAcsMode{Auth: c20s(da, "auth"), Anon: c20s(da, "anon")}
	}
	return d
}
func c20SetQuery(m map[string]any) *pbx.SetQuery {
	if m == nil {
		return nil
	}
	q := &pbx.SetQuery{Desc: c20SetDesc(c20m(m, "desc")), Tags: c20strs(m, "tags"), Cred: c20Cred(c20m(m, "cred"))}
	if s := c20m(m, "sub"); s != nil {
		q.Sub = &pbx.SetSub{UserId: c20s(s, "user"), Mode: c20s(s, "mode")}
	}
	return q
}
func c20GetOpts(m map[string]any) *pbx.GetOpts {
	if m == nil {
		return nil
	}
	return &pbx.GetOpts{IfModifiedSince: c20ms(m, "ims"), User: c20s(m, "user"), Topic: c20s(m, "topic"),
		SinceId: c20i(m, "since"), BeforeId: c20i(m, "before"), Limit: c20i(m, "limit")}
}
func c20GetQuery(m map[string]any) *pbx.GetQuery {
	if m == nil {
		return nil
	}
	return &pbx.GetQuery{What: c20s(m, "what"), Desc: c20GetOpts(c20m(m, "desc")), Sub: c20GetOpts(c20m(m, "sub")), Data: c20GetOpts(c20m(m, "data"))}
}
func c20Ranges(v any) []*pbx.SeqRange {
	l, _ := v.([]any)
	var out []*pbx.SeqRange
	for _, x := range l {
		m, _ := x.(map[string]any)
		out = append(out, &pbx.SeqRange{Low: c20i(m, "low"), Hi: c20i(m, "hi")})
	}
	return out
}

// c20ToPb converts a JSON-shaped client message ({"kind": {...}, "extra": {...}}).
func c20ToPb(msg map[string]any) *pbx.ClientMsg {
	pkt := &pbx.ClientMsg{}
	if b := c20m(msg, "hi"); b != nil {
		pkt.Message = &pbx.ClientMsg_Hi{Hi: &pbx.ClientHi{Id: c20s(b, "id"), UserAgent: c20s(b, "ua"), Ver: c20s(b, "ver"), DeviceId: c20s(b, "dev"),
			Lang: c20s(b, "lang"), Platform: c20s(b, "platf"), Background: c20b(b, "bkg")}}
	} else if b := c20m(msg, "acc"); b != nil {
		pkt.Message = &pbx.ClientMsg_Acc{Acc: &pbx.ClientAcc{Id: c20s(b, "id"), UserId: c20s(b, "user"), Scheme: c20s(b, "scheme"), Secret: c20secret(b, "secret"),
			Login: c20b(b, "login"), Tags: c20strs(b, "tags"), Desc: c20SetDesc(c20m(b, "desc")), Cred: c20Creds(b["cred"]), State: c20s(b, "status"),
			AuthLevel: c20Levels[c20s(b, "authlevel")], TmpScheme: c20s(b, "tmpscheme"), TmpSecret: c20secret(b, "tmpsecret")}}
	} else if b := c20m(msg, "login"); b != nil {
		pkt.Message = &pbx.ClientMsg_Login{Login: &pbx.ClientLogin{Id: c20s(b, "id"), Scheme: c20s(b, "scheme"), Secret: c20secret(b, "secret"), Cred: c20Creds(b["cred"])}}
	} else if b := c20m(msg, "sub"); b != nil {
		pkt.Message = &pbx.ClientMsg_Sub{Sub: &pbx.ClientSub{Id: c20s(b, "id"), Topic: c20s(b, "topic"), SetQuery: c20SetQuery(c20m(b, "set")), GetQuery: c20GetQuery(c20m(b, "get"))}}
	} else if b := c20m(msg, "leave"); b != nil {
		pkt.Message = &pbx.ClientMsg_Leave{Leave: &pbx.ClientLeave{Id: c20s(b, "id"), Topic: c20s(b, "topic"), Unsub: c20b(b, "unsub")}}
	} else if b := c20m(msg, "pub"); b != nil {
		pkt.Message = &pbx.ClientMsg_Pub{Pub: &pbx.ClientPub{Id: c20s(b, "id"), Topic: c20s(b, "topic"), NoEcho: c20b(b, "noecho"), Head: c20rawMap(c20m(b, "head")), Content: c20raw(b["content"])}}
	} else if b := c20m(msg, "get"); b != nil {
		pkt.Message = &pbx.ClientMsg_Get{Get: &pbx.ClientGet{Id: c20s(b, "id"), Topic: c20s(b, "topic"), Query: c20GetQuery(b)}}
	} else if b := c20m(msg, "set"); b != nil {
		pkt.Message = &pbx.ClientMsg_Set{Set: &pbx.ClientSet{Id: c20s(b, "id"), Topic: c20s(b, "topic"), Query: c20SetQuery(b)}}
	} else if b := c20m(msg, "del"); b != nil {
		pkt.Message = &pbx.ClientMsg_Del{Del: &pbx.ClientDel{Id: c20s(b, "id"), Topic: c20s(b, "topic"), What: c20DelWhat[c20s(b, "what")], DelSeq: c20Ranges(b["delseq"]),
			UserId: c20s(b, "user"), Cred: c20Cred(c20m(b, "cred")), Hard: c20b(b, "hard")}}
	} else if b := c20m(msg, "note"); b != nil {
		pkt.Message = &pbx.ClientMsg_Note{Note: &pbx.ClientNote{Topic: c20s(b, "topic"), What: c20NoteWhat[c20s(b, "what")], SeqId: c20i(b, "seq"), Unread: c20i(b, "unread"),
			Event: c20Events[c20s(b, "event")], Payload: c20raw(b["payload"])}}
	}
	if x := c20m(msg, "extra"); x != nil {
		pkt.Extra = &pbx.ClientExtra{Attachments: c20strs(x, "attachments"), OnBehalfOf: c20s(x, "obo"), AuthLevel: c20Levels[c20s(x, "authlevel")]}
	}
	return pkt
}

// ---------------------------------------------------------------------------------------
// independent table: pbx.ServerMsg -> JSON-shaped frame (schema-defined fields only; times in ms)

var c20PresWhat = map[pbx.ServerPres_What]string{pbx.ServerPres_ON: "on", pbx.ServerPres_OFF: "off", pbx.ServerPres_UA: "ua", pbx.ServerPres_UPD: "upd",
	pbx.ServerPres_GONE: "gone", pbx.ServerPres_ACS: "acs", pbx.ServerPres_TERM: "term", pbx.ServerPres_MSG: "msg", pbx.ServerPres_READ: "read",
	pbx.ServerPres_RECV: "recv", pbx.ServerPres_DEL: "del", pbx.ServerPres_TAGS: "tags"}

func c20unraw(b []byte) any {
	if len(b) == 0 {
		return nil
	}
	var v any
	if json.Unmarshal(b, &v) != nil {
		return "!undecodable:" + string(b)
	}
	return v
}
func c20unrawMap(m map[string][]byte) any {
	if len(m) == 0 {
		return nil
	}
	out := map[string]any{}
	for k, v := range m {
		out[k] = c20unraw(v)
	}
	return out
}
func c20acs(a *pbx.AccessMode) any {
	if a == nil {
		return nil
	}
	return map[string]any{"want": a.GetWant(), "given": a.GetGiven()}
}
func c20ranges(rs []*pbx.SeqRange) any {
	if len(rs) == 0 {
		return nil
	}
	var out []any
	for _, r := range rs {
		out = append(out, map[string]any{"low": float64(r.GetLow()), "hi": float64(r.GetHi())})
	}
	return out
}
func c20seen(ms int64, ua string) any {
	if ms == 0 && ua == "" {
		return nil
	}
	return map[string]any{"when": float64(ms), "ua": ua}
}
func c20noteName(w pbx.InfoNote) string {
	for k, v := range c20NoteWhat {
		if v == w {
			return k
		}
	}
	return ""
}
func c20eventName(w pbx.CallEvent) string {
	for k, v := range c20Events {
		if v == w {
			return k
		}
	}
	return ""
}

func c20FromPb(pkt *pbx.ServerMsg) map[string]any {
	switch {
	case pkt.GetCtrl() != nil:
		c := pkt.GetCtrl()
		return map[string]any{"ctrl": map[string]any{"id": c.GetId(), "topic": c.GetTopic(), "code": float64(c.GetCode()), "text": c.GetText(), "params": c20unrawMap(c.GetParams())}}
	case pkt.GetData() != nil:
		d := pkt.GetData()
		return map[string]any{"data": map[string]any{"topic": d.GetTopic(), "from": d.GetFromUserId(), "ts": float64(d.GetTimestamp()), "deleted": float64(d.GetDeletedAt()),
			"seq": float64(d.GetSeqId()), "head": c20unrawMap(d.GetHead()), "content": c20unraw(d.GetContent())}}
	case pkt.GetPres() != nil:
		p := pkt.GetPres()
		return map[string]any{"pres": map[string]any{"topic": p.GetTopic(), "src": p.GetSrc(), "what": c20PresWhat[p.GetWhat()], "ua": p.GetUserAgent(),
			"seq": float64(p.GetSeqId()), "clear": float64(p.GetDelId()), "delseq": c20ranges(p.GetDelSeq()), "tgt": p.GetTargetUserId(), "act": p.GetActorUserId(), "dacs": c20acs(p.GetAcs())}}
	case pkt.GetInfo() != nil:
		i := pkt.GetInfo()
		return map[string]any{"info": map[string]any{"topic": i.GetTopic(), "from": i.GetFromUserId(), "src": i.GetSrc(), "what": c20noteName(i.GetWhat()),
			"seq": float64(i.GetSeqId()), "event": c20eventName(i.GetEvent()), "payload": c20unraw(i.GetPayload())}}
	case pkt.GetMeta() != nil:
		m := pkt.GetMeta()
		b := map[string]any{"id": m.GetId(), "topic": m.GetTopic()}
		if d := m.GetDesc(); d != nil {
			dd := map[string]any{"created": float64(d.GetCreatedAt()), "updated": float64(d.GetUpdatedAt()), "touched": float64(d.GetTouchedAt()), "state": d.GetState(),
				"online": d.GetOnline(), "chan": d.GetIsChan(), "seen": c20seen(d.GetLastSeenTime(), d.GetLastSeenUserAgent()), "acs": c20acs(d.GetAcs()),
				"seq": float64(d.GetSeqId()), "read": float64(d.GetReadId()), "recv": float64(d.GetRecvId()), "clear": float64(d.GetDelId()),
				"public": c20unraw(d.GetPublic()), "trusted": c20unraw(d.GetTrusted()), "private": c20unraw(d.GetPrivate())}
			if da := d.GetDefacs(); da != nil {
				dd["defacs"] = map[string]any{"auth": da.GetAuth(), "anon": da.GetAnon()}
			}
			b["desc"] = dd
		}
		var subs []any
		for _, s := range m.GetSub() {
			subs = append(subs, map[string]any{"updated": float64(s.GetUpdatedAt()), "deleted": float64(s.GetDeletedAt()), "online": s.GetOnline(), "acs": c20acs(s.GetAcs()),
				"read": float64(s.GetReadId()), "recv": float64(s.GetRecvId()), "public": c20unraw(s.GetPublic()), "trusted": c20unraw(s.GetTrusted()), "private": c20unraw(s.GetPrivate()),
				"user": s.GetUserId(), "topic": s.GetTopic(), "touched": float64(s.GetTouchedAt()), "seq": float64(s.GetSeqId()), "clear": float64(s.GetDelId()),
				"seen": c20seen(s.GetLastSeenTime(), s.GetLastSeenUserAgent())})
		}
		if subs != nil {
			b["sub"] = subs
		}
		if d := m.GetDel(); d != nil {
			b["del"] = map[string]any{"clear": float64(d.GetDelId()), "delseq": c20ranges(d.GetDelSeq())}
		}
		if len(m.GetTags()) > 0 {
			var tags []any
			for _, t := range m.GetTags() {
				tags = append(tags, t)
			}
			b["tags"] = tags
		}
		var creds []any
		for _, c := range m.GetCred() {
			creds = append(creds, map[string]any{"meth": c.GetMethod(), "val": c.GetValue(), "done": c.GetDone()})
		}
		if creds != nil {
			b["cred"] = creds
		}
		return map[string]any{"meta": b}
	}
	return map[string]any{}
}

// ---------------------------------------------------------------------------------------
// canonical form: zero == absent, times in ms, fields the schema does not define removed

var c20TimeKeys = map[string]bool{"ts": true, "created": true, "updated": true, "touched": true, "deleted": true, "when": true}

// c20Canon normalises a JSON-decoded value. path is used to decide which keys are outside the schema.
func c20Canon(v any, path string) any {
	switch x := v.(type) {
	case map[string]any:
		out := map[string]any{}
		opaque := c20Opaque(path)
		for k, val := range x {
			p := path + "." + k
			if !opaque {
				if c20OutsideSchema(p) {
					continue
				}
				if c20TimeKeys[k] {
					if s, ok := val.(string); ok {
						if t, err := time.Parse(time.RFC3339Nano, s); err == nil {
							if t.IsZero() || t.UnixMilli() <= 0 {
								continue
							}
							val = float64(t.UnixMilli())
						}
					}
				}
			}
			c := c20Canon(val, p)
			if opaque {
				if c != nil || val == nil {
					// inside application data only JSON null is dropped (it has no protobuf rendering in maps)
					if val == nil {
						continue
					}
					out[k] = c
				} else {
					out[k] = c
				}
				continue
			}
			if c20Zero(c) {
				continue
			}
			out[k] = c
		}
		if len(out) == 0 && !opaque {
			return nil
		}
		return out
	case []any:
		if len(x) == 0 {
			return nil
		}
		out := make([]any, len(x))
		for i, e := range x {
			out[i] = c20Canon(e, path+"[]")
			if out[i] == nil && !c20Opaque(path) {
				out[i] = map[string]any{}
			}
		}
		return out
	case int:
		return float64(x)
	case int32:
		return float64(x)
	case int64:
		return float64(x)
	default:
		return v
	}
}

func c20Zero(v any) bool {
	switch x := v.(type) {
	case nil:
		return true
	case string:
		return x == ""
	case float64:
		return x == 0
	case bool:
		return !x
	case map[string]any:
		return len(x) == 0
	case []any:
		return len(x) == 0
	}
	return false
}

// application data: compared as decoded JSON values, not as message structure
func c20Opaque(path string) bool {
	for _, sfx := range []string{".public", ".trusted", ".private", ".content", ".head", ".params", ".payload"} {
		if i := strings.Index(path, sfx); i >= 0 {
			rest := path[i+len(sfx):]
			if rest == "" || rest[0] == '.' || rest[0] == '[' {
				return true
			}
		}
	}
	return false
}

// fields present in the JSON rendering which the protobuf schema does not define
func c20OutsideSchema(p string) bool {
	switch {
	case strings.HasSuffix(p, ".acs.mode"), strings.HasSuffix(p, ".dacs.mode"):
		return true
	case p == ".ctrl.ts", p == ".meta.ts", p == ".info.ts", p == ".pres.ts":
		return true
	}
	return false
}

func c20Diff(a, b any, path string, out *[]string) {
	if len(*out) > 12 {
		return
	}
	ma, oka := a.(map[string]any)
	mb, okb := b.(map[string]any)
	if oka && okb {
		keys := map[string]bool{}
		for k := range ma {
			keys[k] = true
		}
		for k := range mb {
			keys[k] = true
		}
		var ks []string
		for k := range keys {
			ks = append(ks, k)
		}
		sort.Strings(ks)
		for _, k := range ks {
			c20Diff(ma[k], mb[k], path+"."+k, out)
		}
		return
	}
	la, oka := a.([]any)
	lb, okb := b.([]any)
	if oka && okb && len(la) == len(lb) {
		for i := range la {
			c20Diff(la[i], lb[i], fmt.Sprintf("%s[%d]", path, i), out)
		}
		return
	}
	if !reflect.DeepEqual(a, b) {
		*out = append(*out, fmt.Sprintf("%s: json=%s grpc=%s", path, vfCompact(a), vfCompact(b)))
	}
}

// c20PathClass strips indices: ".meta.sub[3].recv" -> ".meta.sub[].recv"
func c20PathClass(d string) string {
	p := d
	if i := strings.Index(p, ":"); i >= 0 {
		p = p[:i]
	}
	var sb strings.Builder
	skip := false
	for _, r := range p {
		if r == '[' {
			skip = true
			sb.WriteString("[]")
			continue
		}
		if r == ']' {
			skip = false
			continue
		}
		if !skip {
			sb.WriteRune(r)
		}
	}
	s := sb.String()
	// application data below an opaque field: keep the field only
	for _, sfx := range []string{".public", ".trusted", ".private", ".content", ".head", ".params", ".payload"} {
		if i := strings.Index(s, sfx); i >= 0 {
			return s[:i+len(sfx)]
		}
	}
	return s
}

// ---------------------------------------------------------------------------------------
// generators

type c20Gen struct {
	rng *rand.Rand
}

func (g *c20Gen) maybe(p int) bool { return g.rng.Intn(100) < p }
func (g *c20Gen) pick(xs ...string) string {
	return xs[g.rng.Intn(len(xs))]
}
func (g *c20Gen) word() string {
	return g.pick("a", "alice", "Bob", "x y", "日本", "é", "q\"uote", "back\\slash", "tab\there", "<b>", "0", "null", "true", "-1", "usrAAAAAAAAAAA", "grpXyz", "é́", "😀", "long-"+strings.Repeat("z", 40))
}
func (g *c20Gen) setStr(m map[string]any, k string, p int, vals ...string) {
	if g.maybe(p) {
		if len(vals) == 0 {
			m[k] = g.word()
		} else {
			m[k] = g.pick(vals...)
		}
	}
}
func (g *c20Gen) setInt(m map[string]any, k string, p int) {
	if g.maybe(p) {
		m[k] = float64([]int{1, 2, 3, 7, 24, 100, 127, 128, 1000, 65535, 1 << 20, 1<<31 - 1}[g.rng.Intn(12)])
	}
}
func (g *c20Gen) setBool(m map[string]any, k string, p int) {
	if g.maybe(p) {
		m[k] = true
	}
}

// value: arbitrary JSON application data (never JSON null at the top, which means absent)
func (g *c20Gen) value(depth int) any {
	switch n := g.rng.Intn(9); {
	case n == 0:
		return g.word()
	case n == 1:
		return float64(g.rng.Intn(2000) - 1000)
	case n == 2:
		return float64(g.rng.Intn(1000)) / 8
	case n == 3:
		return true
	case n == 4:
		return false
	case n == 5 && depth < 3:
		l := []any{}
		for i := g.rng.Intn(4); i > 0; i-- {
			l = append(l, g.value(depth+1))
		}
		return l
	case n >= 6 && depth < 3:
		m := map[string]any{}
		for i := g.rng.Intn(4) + 1; i > 0; i-- {
			m[g.pick("fn", "note", "photo", "n", "k", "ent", "fmt", "txt", "é")] = g.value(depth + 1)
		}
		return m
	}
	return g.word()
}
func (g *c20Gen) setVal(m map[string]any, k string, p int) {
	if g.maybe(p) {
		m[k] = g.value(0)
	}
}
func (g *c20Gen) valMap() map[string]any {
	m := map[string]any{}
	for i := g.rng.Intn(3) + 1; i > 0; i-- {
		m[g.pick("mime", "replace", "reply", "forwarded", "priority", "webrtc", "x-a", "k")] = g.value(1)
	}
	return m
}
func (g *c20Gen) time() string {
	// millisecond precision, as every timestamp of the API
	ms := int64(1500000000000) + g.rng.Int63n(400000000000)
	switch g.rng.Intn(4) {
	case 0:
		ms = ms / 1000 * 1000 // whole second
	case 1:
		ms = ms/1000*1000 + 1
	case 2:
		ms = ms/1000*1000 + 999
	}
	return time.UnixMilli(ms).UTC().Format("2006-01-02T15:04:05.000Z")
}
func (g *c20Gen) secret() string {
	b := make([]byte, 1+g.rng.Intn(24))
	g.rng.Read(b)
	return base64.StdEncoding.EncodeToString(b)
}
func (g *c20Gen) strs() []any {
	var out []any
	for i := g.rng.Intn(4) + 1; i > 0; i-- {
		out = append(out, g.word())
	}
	return out
}
func (g *c20Gen) cred() map[string]any {
	m := map[string]any{"meth": g.pick("email", "tel", "x")}
	g.setStr(m, "val", 70)
	g.setStr(m, "resp", 50)
	if g.maybe(30) {
		m["params"] = g.valMap()
	}
	return m
}
func (g *c20Gen) creds() []any {
	var out []any
	for i := g.rng.Intn(3) + 1; i > 0; i-- {
		out = append(out, g.cred())
	}
	return out
}
func (g *c20Gen) nonEmpty(fill func(m map[string]any)) map[string]any {
	for {
		m := map[string]any{}
		fill(m)
		if len(m) > 0 {
			return m
		}
	}
}
func (g *c20Gen) setDesc() map[string]any {
	return g.nonEmpty(func(m map[string]any) {
		if g.maybe(40) {
			m["defacs"] = g.nonEmpty(func(d map[string]any) {
				g.setStr(d, "auth", 60, "JRWPS", "N", "JRWPASDO")
				g.setStr(d, "anon", 60, "N", "JR")
			})
		}
		g.setVal(m, "public", 50)
		g.setVal(m, "trusted", 30)
		g.setVal(m, "private", 50)
	})
}
func (g *c20Gen) setQuery(m map[string]any) {
	for {
		n := 0
		if g.maybe(50) {
			m["desc"] = g.setDesc()
			n++
		}
		if g.maybe(40) {
			m["sub"] = g.nonEmpty(func(s map[string]any) {
				g.setStr(s, "user", 60, "usrAAAAAAAAAAE", "usrBBBBBBBBBBE")
				g.setStr(s, "mode", 70, "JRWP", "N", "+S-W", "JRWPASDO")
			})
			n++
		}
		if g.maybe(30) {
			m["tags"] = g.strs()
			n++
		}
		if g.maybe(25) {
			m["cred"] = g.cred()
			n++
		}
		if n > 0 {
			return
		}
	}
}
func (g *c20Gen) getQuery(m map[string]any) {
	m["what"] = g.pick("desc", "sub", "data", "tags", "desc sub data", "del", "cred", "sub desc tags", "data del")
	opts := func(kind string) map[string]any {
		return g.nonEmpty(func(o map[string]any) {
			if kind == "data" {
				g.setInt(o, "since", 50)
				g.setInt(o, "before", 50)
			} else {
				if g.maybe(50) {
					o["ims"] = g.time()
				}
				g.setStr(o, "user", 40, "usrAAAAAAAAAAE", "usrBBBBBBBBBBE")
				g.setStr(o, "topic", 40, "grpAAAAAAAAAAE", "usrBBBBBBBBBBE", "p2pAAAAAAAAAAEBBBBBBBBBBE")
			}
			g.setInt(o, "limit", 50)
		})
	}
	if g.maybe(40) {
		m["desc"] = opts("desc")
	}
	if g.maybe(40) {
		m["sub"] = opts("sub")
	}
	if g.maybe(40) {
		m["data"] = opts("data")
	}
}
func (g *c20Gen) ranges() []any {
	var out []any
	for i := g.rng.Intn(4) + 1; i > 0; i-- {
		r := map[string]any{"low": float64(1 + g.rng.Intn(50))}
		if g.maybe(60) {
			r["hi"] = float64(2 + g.rng.Intn(100))
		}
		out = append(out, r)
	}
	return out
}

// clientMsg draws one JSON-shaped client message of the given kind with every optional field present or absent.
func (g *c20Gen) clientMsg(kind string) map[string]any {
	b := map[string]any{}
	topic := func(p int) {
		g.setStr(b, "topic", p, "me", "fnd", "sys", "new", "nch", "newabc", "usrAAAAAAAAAAE", "grpAAAAAAAAAAE", "chnAAAAAAAAAAE", "p2pAAAAAAAAAAEBBBBBBBBBBE")
	}
	if kind != "note" {
		g.setStr(b, "id", 85, "1", "12345", "req-1", "é", "id with space")
	}
	switch kind {
	case "hi":
		g.setStr(b, "ua", 70, "TinodeWeb/0.22 (Chrome/1; Linux)", "x")
		g.setStr(b, "ver", 90, "0.22", "0.15.8-rc2", "1")
		g.setStr(b, "dev", 40)
		g.setStr(b, "lang", 50, "en", "en-US", "ru_RU")
		g.setStr(b, "platf", 40, "web", "ios", "android")
		g.setBool(b, "bkg", 30)
	case "acc":
		g.setStr(b, "user", 60, "new", "newabc", "usrAAAAAAAAAAE")
		g.setStr(b, "tmpscheme", 20, "code", "token")
		if g.maybe(20) {
			b["tmpsecret"] = g.secret()
		}
		g.setStr(b, "status", 20, "ok", "susp", "del", "undef")
		g.setStr(b, "authlevel", 30, "anon", "auth", "root")
		g.setStr(b, "scheme", 70, "basic", "anon", "token", "x")
		if g.maybe(70) {
			b["secret"] = g.secret()
		}
		g.setBool(b, "login", 50)
		if g.maybe(40) {
			b["tags"] = g.strs()
		}
		if g.maybe(50) {
			b["desc"] = g.setDesc()
		}
		if g.maybe(40) {
			b["cred"] = g.creds()
		}
	case "login":
		g.setStr(b, "scheme", 90, "basic", "token", "code", "x")
		if g.maybe(90) {
			b["secret"] = g.secret()
		}
		if g.maybe(30) {
			b["cred"] = g.creds()
		}
	case "sub":
		topic(95)
		if g.maybe(50) {
			s := map[string]any{}
			g.setQuery(s)
			b["set"] = s
		}
		if g.maybe(50) {
			q := map[string]any{}
			g.getQuery(q)
			b["get"] = q
		}
	case "leave":
		topic(95)
		g.setBool(b, "unsub", 40)
	case "pub":
		topic(95)
		g.setBool(b, "noecho", 40)
		if g.maybe(50) {
			b["head"] = g.valMap()
		}
		g.setVal(b, "content", 90)
	case "get":
		topic(95)
		g.getQuery(b)
	case "set":
		topic(95)
		g.setQuery(b)
	case "del":
		topic(80)
		g.setStr(b, "what", 95, "msg", "topic", "sub", "user", "cred")
		if g.maybe(50) {
			b["delseq"] = g.ranges()
		}
		g.setStr(b, "user", 40, "usrAAAAAAAAAAE")
		if g.maybe(30) {
			b["cred"] = g.cred()
		}
		g.setBool(b, "hard", 40)
	case "note":
		topic(95)
		g.setStr(b, "what", 95, "kp", "read", "recv", "call")
		g.setInt(b, "seq", 70)
		g.setInt(b, "unread", 30)
		g.setStr(b, "event", 40, "accept", "answer", "hang-up", "ice-candidate", "invite", "offer", "ringing")
		if g.maybe(30) {
			b["payload"] = g.value(0)
		}
	}
	msg := map[string]any{kind: b}
	if g.maybe(30) {
		msg["extra"] = g.nonEmpty(func(x map[string]any) {
			if g.maybe(50) {
				x["attachments"] = g.strs()
			}
			g.setStr(x, "obo", 50, "usrAAAAAAAAAAE", "usrBBBBBBBBBBE")
			g.setStr(x, "authlevel", 40, "anon", "auth", "root")
		})
	}
	return msg
}

// c20CliShape renders a ClientComMessage, as the server holds it after decoding, into the canonical JSON shape.
func c20CliShape(m *ClientComMessage) any {
	// authentication levels are compared as the server interprets them
	norm := func(s *string) {
		*s = auth.ParseAuthLevel(*s).String()
	}
	cp := *m
	if cp.Acc != nil {
		a := *cp.Acc
		norm(&a.AuthLevel)
		cp.Acc = &a
	}
	if cp.Extra != nil {
		x := *cp.Extra
		norm(&x.AuthLevel)
		cp.Extra = &x
	}
	raw, _ := json.Marshal(&cp)
	var v any
	json.Unmarshal(raw, &v)
	return c20Canon(v, "")
}

// ---------------------------------------------------------------------------------------
// random server messages

func (g *c20Gen) tptr(p int) *time.Time {
	if !g.maybe(p) {
		return nil
	}
	t, _ := time.Parse(time.RFC3339Nano, g.time())
	return &t
}
func (g *c20Gen) istr(p int, vals ...string) string {
	if !g.maybe(p) {
		return ""
	}
	if len(vals) == 0 {
		return g.word()
	}
	return g.pick(vals...)
}
func (g *c20Gen) iint(p int) int {
	if !g.maybe(p) {
		return 0
	}
	return []int{1, 2, 3, 5, 8, 13, 100, 127, 128, 255, 256, 4096, 65535, 1 << 20, 1<<31 - 1}[g.rng.Intn(15)]
}
func (g *c20Gen) ival(p int) any {
	if !g.maybe(p) {
		return nil
	}
	return g.value(0)
}
func (g *c20Gen) acs(p int) *MsgAccessMode {
	if !g.maybe(p) {
		return nil
	}
	for {
		a := &MsgAccessMode{Want: g.istr(70, "JRWPASDO", "JRWP", "N"), Given: g.istr(70, "JRWPASDO", "JRWPS", "N"), Mode: g.istr(50, "JRWP", "N")}
		if a.Want != "" || a.Given != "" {
			return a
		}
	}
}
func (g *c20Gen) delRanges(p int) []MsgDelRange {
	if !g.maybe(p) {
		return nil
	}
	var out []MsgDelRange
	for i := g.rng.Intn(3) + 1; i > 0; i-- {
		out = append(out, MsgDelRange{LowId: 1 + g.rng.Intn(100), HiId: g.iint(60)})
	}
	return out
}
func (g *c20Gen) seen(p int) *MsgLastSeenInfo {
	if !g.maybe(p) {
		return nil
	}
	return &MsgLastSeenInfo{When: g.tptr(100), UserAgent: g.istr(70, "TinodeWeb/0.22", "x")}
}

func (g *c20Gen) serverMsg(kind string) *ServerComMessage {
	now, _ := time.Parse(time.RFC3339Nano, g.time())
	switch kind {
	case "ctrl":
		c := &MsgServerCtrl{Id: g.istr(80, "1", "abc"), Topic: g.istr(70, "me", "grpAAAAAAAAAAE", "usrAAAAAAAAAAE"), Code: []int{200, 201, 202, 204, 300, 303, 304, 400, 401, 403, 404, 409, 500, 503}[g.rng.Intn(14)],
			Text: g.istr(90, "ok", "accepted", "not found"), Timestamp: now}
		switch g.rng.Intn(4) {
		case 0:
			c.Params = g.valMap()
		case 1:
			// as produced by InfoUseOther and the long polling handler
			c.Params = map[string]string{"topic": g.pick("grpAAAAAAAAAAE", "usrBBBBBBBBBBE"), "sid": "abc"}
		case 2:
			c.Params = map[string]any{"user": "usrAAAAAAAAAAE", "authlvl": "auth", "token": g.secret(), "expires": now, "seq": float64(g.iint(100)), "acs": map[string]any{"want": "JRWP", "given": "JRWPS", "mode": "JRWP"}}
		}
		return &ServerComMessage{Ctrl: c}
	case "data":
		d := &MsgServerData{Topic: g.pick("grpAAAAAAAAAAE", "usrAAAAAAAAAAE", "chnAAAAAAAAAAE"), From: g.istr(85, "usrAAAAAAAAAAE", "usrBBBBBBBBBBE"), Timestamp: now, DeletedAt: g.tptr(15),
			SeqId: g.iint(98), Content: g.ival(92)}
		if g.maybe(50) {
			d.Head = g.valMap()
		}
		return &ServerComMessage{Data: d}
	case "pres":
		p := &MsgServerPres{Topic: g.pick("me", "grpAAAAAAAAAAE", "usrAAAAAAAAAAE"), Src: g.istr(80, "grpAAAAAAAAAAE", "usrBBBBBBBBBBE", "me"),
			What: g.pick("on", "off", "ua", "upd", "gone", "acs", "term", "msg", "read", "recv", "del", "tags"), UserAgent: g.istr(40, "TinodeWeb/0.22", "x"),
			SeqId: g.iint(50), DelId: g.iint(30), DelSeq: g.delRanges(30), AcsTarget: g.istr(30, "usrAAAAAAAAAAE"), AcsActor: g.istr(30, "usrBBBBBBBBBBE"), Acs: g.acs(30)}
		return &ServerComMessage{Pres: p}
	case "info":
		i := &MsgServerInfo{Topic: g.pick("grpAAAAAAAAAAE", "usrAAAAAAAAAAE", "me"), Src: g.istr(30, "grpAAAAAAAAAAE"), From: g.istr(90, "usrAAAAAAAAAAE", "usrBBBBBBBBBBE"),
			What: g.pick("kp", "read", "recv", "call"), SeqId: g.iint(70), Event: g.istr(40, "accept", "answer", "hang-up", "ice-candidate", "invite", "offer", "ringing")}
		if g.maybe(30) {
			i.Payload, _ = json.Marshal(g.value(0))
		}
		return &ServerComMessage{Info: i}
	default:
		m := &MsgServerMeta{Id: g.istr(80, "1", "abc"), Topic: g.pick("me", "fnd", "grpAAAAAAAAAAE", "usrAAAAAAAAAAE"), Timestamp: g.tptr(80)}
		if g.maybe(50) {
			d := &MsgTopicDesc{CreatedAt: g.tptr(70), UpdatedAt: g.tptr(70), TouchedAt: g.tptr(50), State: g.istr(30, "ok", "susp"), Online: g.maybe(40), IsChan: g.maybe(30),
				LastSeen: g.seen(30), Acs: g.acs(70), SeqId: g.iint(70), ReadSeqId: g.iint(60), RecvSeqId: g.iint(60), DelId: g.iint(30),
				Public: g.ival(60), Trusted: g.ival(30), Private: g.ival(50)}
			if g.maybe(50) {
				d.DefaultAcs = &MsgDefaultAcsMode{Auth: g.pick("JRWPS", "N"), Anon: g.istr(70, "N", "JR")}
			}
			m.Desc = d
		}
		if g.maybe(50) {
			for i := g.rng.Intn(4) + 1; i > 0; i-- {
				s := MsgTopicSub{UpdatedAt: g.tptr(70), DeletedAt: g.tptr(15), Online: g.maybe(40), ReadSeqId: g.iint(60), RecvSeqId: g.iint(60), Public: g.ival(50), Trusted: g.ival(20),
					Private: g.ival(40), User: g.istr(50, "usrAAAAAAAAAAE", "usrBBBBBBBBBBE"), Topic: g.istr(50, "grpAAAAAAAAAAE", "usrBBBBBBBBBBE"), TouchedAt: g.tptr(50), SeqId: g.iint(60),
					DelId: g.iint(30), LastSeen: g.seen(30)}
				if a := g.acs(80); a != nil {
					s.Acs = *a
				}
				m.Sub = append(m.Sub, s)
			}
		}
		if g.maybe(30) {
			m.Del = &MsgDelValues{DelId: g.iint(90), DelSeq: g.delRanges(80)}
		}
		if g.maybe(30) {
			for _, t := range g.strs() {
				m.Tags = append(m.Tags, t.(string))
			}
		}
		if g.maybe(30) {
			for i := g.rng.Intn(3) + 1; i > 0; i-- {
				m.Cred = append(m.Cred, &MsgCredServer{Method: g.pick("email", "tel"), Value: g.istr(90, "a@example.com", "+15551234567"), Done: g.maybe(50)})
			}
		}
		return &ServerComMessage{Meta: m}
	}
}

// c20CompareServer compares the JSON rendering of msg with the protobuf rendering, field by field.
func c20CompareServer(r *vfkit.R, msg *ServerComMessage, where string) {
	raw, err := json.Marshal(msg)
	if err != nil {
		return
	}
	var jv any
	json.Unmarshal(raw, &jv)
	pkt := pbServSerialize(msg)
	// through the wire encoding, as a client receives it
	wire, err := proto.Marshal(pkt)
	if err != nil {
		r.Violation("server-pb-marshal", fmt.Sprintf("%s: protobuf rendering cannot be marshalled: %v", where, err), map[string]any{"json": string(raw)})
		return
	}
	var back pbx.ServerMsg
	if err := proto.Unmarshal(wire, &back); err != nil {
		r.Violation("server-pb-marshal", fmt.Sprintf("%s: protobuf rendering cannot be unmarshalled: %v", where, err), map[string]any{"json": string(raw)})
		return
	}
	c20CompareShapes(r, c20Canon(jv, ""), c20Canon(c20FromPb(&back), ""), where, string(raw))
}

func c20CompareShapes(r *vfkit.R, j, p any, where, witness string) bool {
	r.Hit("reply_fields_equal")
	var diffs []string
	c20Diff(j, p, "", &diffs)
	if len(diffs) == 0 {
		return true
	}
	seen := map[string]bool{}
	for _, d := range diffs {
		cls := c20PathClass(d)
		if seen[cls] {
			continue
		}
		seen[cls] = true
		r.Violation("reply-field:"+cls, fmt.Sprintf("%s: the JSON and the protobuf rendering of one reply differ at %s", where, d), map[string]any{"json": witness, "all": diffs})
	}
	return false
}

// ---------------------------------------------------------------------------------------
// gRPC client

type c20Grpc struct {
	env    *vfEnv
	name   string
	conn   *grpc.ClientConn
	stream pbx.Node_MessageLoopClient
	cancel context.CancelFunc
	mu     sync.Mutex
	frames []*vfFrame
	pkts   []*pbx.ServerMsg
	closed bool
	seq    int
	wmu    sync.Mutex
}

func (e *vfEnv) c20StartGrpc() string {
	lis, err := net.Listen("tcp", "127.0.0.1:0")
	vfMust(err, "grpc listen")
	srv := grpc.NewServer(grpc.MaxRecvMsgSize(int(globals.maxMessageSize)))
	pbx.RegisterNodeServer(srv, &grpcNodeServer{})
	go srv.Serve(lis)
	return lis.Addr().String()
}

func (e *vfEnv) c20Dial(addr, name string) *c20Grpc {
	conn, err := grpc.NewClient(addr, grpc.WithTransportCredentials(insecure.NewCredentials()))
	vfMust(err, "grpc dial")
	ctx, cancel := context.WithCancel(context.Background())
	stream, err := pbx.NewNodeClient(conn).MessageLoop(ctx)
	vfMust(err, "grpc stream")
	g := &c20Grpc{env: e, name: name, conn: conn, stream: stream, cancel: cancel}
	go func() {
		for {
			pkt, err := stream.Recv()
			if err != nil {
				g.mu.Lock()
				g.closed = true
				g.mu.Unlock()
				return
			}
			m := c20FromPb(pkt)
			f := &vfFrame{M: m, T: e.now()}
			raw, _ := json.Marshal(m)
			f.Raw = string(raw)
			f.Kind = "?"
			for _, k := range []string{"ctrl", "data", "meta", "pres", "info"} {
				if b, ok := m[k].(map[string]any); ok {
					f.Kind, f.B = k, b
				}
			}
			e.vfLog("recv", map[string]any{"c": name, "f": json.RawMessage(raw)})
			g.mu.Lock()
			f.N = len(g.frames)
			g.frames = append(g.frames, f)
			g.pkts = append(g.pkts, pkt)
			g.mu.Unlock()
			atomic.AddInt64(&e.framesIn, 1)
		}
	}()
	return g
}

func (g *c20Grpc) send(msg map[string]any) {
	raw, _ := json.Marshal(msg)
	g.env.vfLog("send", map[string]any{"c": g.name, "raw": string(raw)})
	g.wmu.Lock()
	defer g.wmu.Unlock()
	g.stream.Send(c20ToPb(msg))
}
func (g *c20Grpc) count() int {
	g.mu.Lock()
	defer g.mu.Unlock()
	return len(g.frames)
}
func (g *c20Grpc) since(n int) []*vfFrame {
	g.mu.Lock()
	defer g.mu.Unlock()
	return append([]*vfFrame{}, g.frames[n:]...)
}
func (g *c20Grpc) close() {
	g.stream.CloseSend()
	g.cancel()
	g.conn.Close()
}

// c20Pair is one user's two sessions: websocket and gRPC.
type c20Pair struct {
	e    *vfEnv
	r    *vfkit.R
	ws   *vfClient
	rpc  *c20Grpc
	n    int
	user *vfUser
}

// both sends the same request over both transports (ws first if wsFirst) and returns the frames each
// session received in answer (frames carrying the request id), canonicalised.
func (p *c20Pair) both(kind string, body map[string]any, label string) (okEqual bool, code int) {
	p.n++
	id := fmt.Sprintf("q%d", p.n)
	mk := func() map[string]any {
		b := map[string]any{}
		raw, _ := json.Marshal(body)
		json.Unmarshal(raw, &b)
		if kind != "note" {
			b["id"] = id
		}
		return map[string]any{kind: b}
	}
	w0, g0 := p.ws.frameCount(), p.rpc.count()
	wmsg := mk()
	p.ws.send(kind, wmsg[kind].(map[string]any))
	if !p.e.vfQuiesce() {
		p.r.Inconclusive("quiescence watchdog: " + vfQWhy)
		return false, 0
	}
	p.rpc.send(mk())
	if !p.e.vfQuiesce() {
		p.r.Inconclusive("quiescence watchdog: " + vfQWhy)
		return false, 0
	}
	pickId := func(fs []*vfFrame) []any {
		var out []any
		for _, f := range fs {
			if (f.Kind == "ctrl" || f.Kind == "meta") && f.str("id") == id {
				out = append(out, c20SortSubs(c20Canon(f.M, "")))
				if f.Kind == "ctrl" {
					code = f.code()
				}
			} else if f.Kind == "data" && kind != "pub" {
				// history returned by {get data}
				out = append(out, c20Canon(f.M, ""))
			}
		}
		return out
	}
	jw := pickId(p.ws.since(w0))
	jg := pickId(p.rpc.since(g0))
	p.r.Hit("same_request_same_reply")
	p.r.Eval("e2e:" + label)
	if len(jw) == 0 {
		p.r.Violation("e2e-unanswered:ws:"+label, fmt.Sprintf("request %s (%s) was not answered over websocket", id, label), map[string]any{"req": vfCompact(wmsg)})
		return false, code
	}
	if len(jw) != len(jg) {
		p.r.Violation("e2e-reply-count:"+label, fmt.Sprintf("request %s: websocket session got %d frames in answer, gRPC session %d", label, len(jw), len(jg)),
			map[string]any{"req": vfCompact(wmsg), "ws": vfCompact(jw), "grpc": vfCompact(jg)})
		return false, code
	}
	eq := true
	for i := range jw {
		if !c20CompareShapes(p.r, jw[i], jg[i], "request "+label+" "+vfCompact(body), vfCompact(jw[i])) {
			eq = false
		}
	}
	return eq, code
}

// ---------------------------------------------------------------------------------------

func TestVfC20(t *testing.T) {
	r := vfkit.New("C20")
	defer r.Finish()
	e := vfBoot(vfConfig{EmailVal: false})
	rng := r.Rand(200)
	g := &c20Gen{rng: rng}

	// (a) client messages: JSON decoding vs gRPC decoding
	kinds := []string{"hi", "acc", "login", "sub", "leave", "pub", "get", "set", "del", "note"}
	nCli := r.Pick(20000, 400000)
	for i := 0; i < nCli; i++ {
		kind := kinds[i%len(kinds)]
		msg := g.clientMsg(kind)
		raw, _ := json.Marshal(msg)
		var viaJSON ClientComMessage
		if err := json.Unmarshal(raw, &viaJSON); err != nil {
			r.Violation("client-json-undecodable", fmt.Sprintf("generated %s message is rejected by the JSON decoder: %v", kind, err), map[string]any{"json": string(raw)})
			continue
		}
		pkt := c20ToPb(msg)
		wire, err := proto.Marshal(pkt)
		if err != nil {
			t.Fatalf("harness: cannot marshal generated protobuf message: %v", err)
		}
		var onWire pbx.ClientMsg
		if err := proto.Unmarshal(wire, &onWire); err != nil {
			t.Fatalf("harness: cannot unmarshal generated protobuf message: %v", err)
		}
		viaGrpc := pbCliDeserialize(&onWire)
		r.Hit("request_decoded_equal")
		var diffs []string
		c20Diff(c20CliShape(&viaJSON), c20CliShape(viaGrpc), "", &diffs)
		seen := map[string]bool{}
		for _, d := range diffs {
			cls := c20PathClass(d)
			if seen[cls] {
				continue
			}
			seen[cls] = true
			r.Violation("request-field:"+cls, fmt.Sprintf("the same {%s} request decoded from JSON and from gRPC differs at %s", kind, d), map[string]any{"json": string(raw), "all": diffs})
		}
		r.Eval("client:" + kind + ":" + c20FieldShape(msg))
		if i < 4 {
			r.Sample(map[string]any{"request": json.RawMessage(raw), "grpc_wire_bytes": len(wire), "equal": len(diffs) == 0})
		}
	}
	r.EvalN(int64(nCli))

	// (b) server messages: JSON rendering vs protobuf rendering of generated replies
	skinds := []string{"ctrl", "data", "pres", "info", "meta"}
	nSrv := r.Pick(20000, 400000)
	for i := 0; i < nSrv; i++ {
		kind := skinds[i%len(skinds)]
		msg := g.serverMsg(kind)
		c20CompareServer(r, msg, "generated {"+kind+"}")
		r.Hit("generated_reply_" + kind)
	}
	r.EvalN(int64(nSrv))
	for _, k := range skinds {
		r.Eval("server-generated:" + k)
	}

	// (c) end to end: the same user over websocket and over gRPC
	c20EndToEnd(r, e, rng)
}

// c20FieldShape: which optional parts are present (distinct-case key, coarse)
func c20FieldShape(msg map[string]any) string {
	var parts []string
	for k, v := range msg {
		if m, ok := v.(map[string]any); ok {
			for f, fv := range m {
				if _, nested := fv.(map[string]any); nested {
					parts = append(parts, k+"."+f)
				}
			}
		}
	}
	sort.Strings(parts)
	return strings.Join(parts, ",")
}

func c20EndToEnd(r *vfkit.R, e *vfEnv, rng *rand.Rand) {
	addr := e.c20StartGrpc()
	w := vfNewWorld(e, r, rng)
	alice := w.user("alice", auth.LevelAuth)
	bob := w.user("bob", auth.LevelAuth)
	carol := w.user("carol", auth.LevelAuth)

	aws := w.conn(alice, false)
	bws := w.conn(bob, false)
	cws := w.conn(carol, false)
	_ = cws

	// alice's gRPC session: handshake and login over gRPC
	arpc := e.c20Dial(addr, "alice-grpc")
	pair := &c20Pair{e: e, r: r, ws: aws, rpc: arpc, user: alice}
	arpc.send(map[string]any{"hi": map[string]any{"id": "h1", "ver": "0.22", "ua": "vf/alice-grpc"}})
	arpc.send(map[string]any{"login": map[string]any{"id": "l1", "scheme": "token", "secret": alice.tok}})
	e.vfQuiesce()
	okLogin := false
	for _, f := range arpc.since(0) {
		if f.Kind == "ctrl" && f.str("id") == "l1" && f.code() == 200 {
			okLogin = true
			if p := f.params(); p == nil || p["user"] != alice.uid.UserId() {
				r.Violation("e2e-login-params", fmt.Sprintf("login over gRPC: params %v do not name the user %s", p, alice.uid.UserId()), nil)
			}
		}
	}
	if !okLogin {
		r.Violation("e2e-grpc-login", "token login over gRPC was not accepted: "+vfCompact(frames2raw(arpc.since(0))), nil)
		return
	}
	r.Hit("grpc_login")

	// world: two groups prepared identically (one is driven over ws, the other over gRPC), a p2p topic, messages
	aws.sub("me", nil)
	bws.sub("me", nil)
	mkGroup := func(c *vfClient, tag string) string {
		name, f := c.newGroup(false, map[string]any{"public": map[string]any{"fn": "group " + tag}, "private": map[string]any{"note": "mine"}})
		if f == nil || f.code() >= 300 {
			panic("c20: group creation failed " + frameStr(f))
		}
		return name
	}
	g1 := mkGroup(aws, "x")
	g2 := mkGroup(aws, "x")
	for _, gname := range []string{g1, g2} {
		bws.sub(gname, nil)
		aws.set(gname, map[string]any{"tags": []any{"alpha", "beta"}})
		for i := 0; i < 6; i++ {
			aws.pub(gname, map[string]any{"txt": fmt.Sprintf("message %d é", i), "fmt": []any{map[string]any{"at": 0, "len": 3, "tp": "ST"}}}, false, map[string]any{"mime": "text/x-drafty", "n": float64(i)})
			bws.pub(gname, fmt.Sprintf("plain %d", i), false, nil)
		}
		aws.del(gname, "msg", map[string]any{"delseq": []any{map[string]any{"low": 2, "hi": 4}}, "hard": true})
		bws.note(gname, "recv", 9, nil)
		bws.note(gname, "read", 7, nil)
	}
	p2pForAlice := bob.uid.UserId()
	aws.sub(p2pForAlice, map[string]any{"set": map[string]any{"desc": map[string]any{"private": map[string]any{"comment": "bob the builder"}}}})
	bws.sub(alice.uid.UserId(), nil)
	for i := 0; i < 3; i++ {
		bws.pub(alice.uid.UserId(), fmt.Sprintf("hello %d", i), false, nil)
	}
	aws.sub("fnd", nil)
	e.vfQuiesce()

	// attach the gRPC session to the same topics
	for _, tn := range []string{"me", g1, g2, p2pForAlice, "fnd"} {
		arpc.send(map[string]any{"sub": map[string]any{"id": "s-" + tn, "topic": tn}})
	}
	e.vfQuiesce()
	for _, f := range arpc.since(0) {
		if f.Kind == "ctrl" && strings.HasPrefix(f.str("id"), "s-") && f.code() >= 300 {
			r.Violation("e2e-grpc-sub", "subscription over gRPC refused: "+f.Raw, nil)
		}
	}

	// --- reads: the same request over both transports must be answered identically
	ims := time.Now().Add(-time.Hour).UTC().Format("2006-01-02T15:04:05.000Z")
	future := time.Now().Add(24 * time.Hour).UTC().Format("2006-01-02T15:04:05.000Z")
	type rd struct {
		label, topic string
		q            map[string]any
	}
	reads := []rd{
		{"me-desc", "me", map[string]any{"what": "desc"}},
		{"me-sub", "me", map[string]any{"what": "sub"}},
		{"me-sub-limit", "me", map[string]any{"what": "sub", "sub": map[string]any{"limit": 1}}},
		{"me-sub-topic", "me", map[string]any{"what": "sub", "sub": map[string]any{"topic": g1}}},
		{"me-sub-topic-p2p", "me", map[string]any{"what": "sub", "sub": map[string]any{"topic": p2pForAlice}}},
		{"me-sub-ims-past", "me", map[string]any{"what": "sub", "sub": map[string]any{"ims": ims}}},
		{"me-sub-ims-future", "me", map[string]any{"what": "sub", "sub": map[string]any{"ims": future}}},
		{"me-desc-ims-future", "me", map[string]any{"what": "desc", "desc": map[string]any{"ims": future}}},
		{"me-tags", "me", map[string]any{"what": "tags"}},
		{"me-cred", "me", map[string]any{"what": "cred"}},
		{"me-all", "me", map[string]any{"what": "desc sub tags cred"}},
		{"grp-desc", g1, map[string]any{"what": "desc"}},
		{"grp-desc-ims-future", g1, map[string]any{"what": "desc", "desc": map[string]any{"ims": future}}},
		{"grp-sub", g1, map[string]any{"what": "sub"}},
		{"grp-sub-user", g1, map[string]any{"what": "sub", "sub": map[string]any{"user": bob.uid.UserId()}}},
		{"grp-sub-user-self", g1, map[string]any{"what": "sub", "sub": map[string]any{"user": alice.uid.UserId()}}},
		{"grp-sub-limit", g1, map[string]any{"what": "sub", "sub": map[string]any{"limit": 1}}},
		{"grp-sub-ims-future", g1, map[string]any{"what": "sub", "sub": map[string]any{"ims": future}}},
		{"grp-data", g1, map[string]any{"what": "data"}},
		{"grp-data-since", g1, map[string]any{"what": "data", "data": map[string]any{"since": 5}}},
		{"grp-data-before", g1, map[string]any{"what": "data", "data": map[string]any{"before": 6}}},
		{"grp-data-range-limit", g1, map[string]any{"what": "data", "data": map[string]any{"since": 3, "before": 11, "limit": 4}}},
		{"grp-del", g1, map[string]any{"what": "del"}},
		{"grp-tags", g1, map[string]any{"what": "tags"}},
		{"grp-all", g1, map[string]any{"what": "desc sub data del tags"}},
		{"p2p-desc", p2pForAlice, map[string]any{"what": "desc"}},
		{"p2p-sub", p2pForAlice, map[string]any{"what": "sub"}},
		{"p2p-data", p2pForAlice, map[string]any{"what": "data", "data": map[string]any{"limit": 2}}},
		{"fnd-desc", "fnd", map[string]any{"what": "desc"}},
		{"fnd-sub", "fnd", map[string]any{"what": "sub"}},
		{"unknown-topic", "grpAAAAAAAAAAE", map[string]any{"what": "desc"}},
		{"bad-what", g1, map[string]any{"what": "nonsense"}},
	}
	for _, rq := range reads {
		b := map[string]any{"topic": rq.topic}
		for k, v := range rq.q {
			b[k] = v
		}
		pair.both("get", b, rq.label)
	}

	// --- topic names as seen by each participant (p2p shows the other's id)
	{
		n0w, n0g, n0b := aws.frameCount(), arpc.count(), bws.frameCount()
		bws.pub(alice.uid.UserId(), "names?", false, nil)
		aws.pub(p2pForAlice, "names!", false, nil)
		e.vfQuiesce()
		check := func(who string, fs []*vfFrame, want string) {
			n := 0
			for _, f := range fs {
				if f.Kind == "data" {
					n++
					r.Hit("p2p_name_per_participant")
					if f.str("topic") != want {
						r.Violation("e2e-p2p-name:"+who, fmt.Sprintf("%s received a p2p {data} with topic %q, want the other participant's id %q", who, f.str("topic"), want), map[string]any{"frame": f.Raw})
					}
				}
			}
			if n != 2 {
				r.Violation("e2e-p2p-delivery:"+who, fmt.Sprintf("%s received %d of 2 p2p messages", who, n), nil)
			}
		}
		check("alice/ws", aws.since(n0w), bob.uid.UserId())
		check("alice/grpc", arpc.since(n0g), bob.uid.UserId())
		check("bob/ws", bws.since(n0b), alice.uid.UserId())
		// the routable name decodes to the two users and each side's view is the other
		name := alice.uid.P2PName(bob.uid)
		if topicNameForUser(name, alice.uid, false) != bob.uid.UserId() || topicNameForUser(name, bob.uid, false) != alice.uid.UserId() {
			r.Violation("e2e-p2p-name:topicNameForUser", "topicNameForUser does not show each participant the other's id", nil)
		}
		r.Eval("e2e:p2p-names")
	}

	// --- broadcasts: what bob does reaches alice's two sessions with equal content
	{
		aws.pub(g1, "from alice", false, nil)
		e.vfQuiesce()
		n0w, n0g := aws.frameCount(), arpc.count()
		bws.note(g1, "recv", 13, nil)
		bws.note(g1, "read", 13, nil)
		bws.note(g1, "kp", 0, nil)
		bws.pub(g1, map[string]any{"txt": "to both", "ent": []any{map[string]any{"tp": "LN", "data": map[string]any{"url": "https://example.com/?a=1&b=é"}}}}, false, map[string]any{"mime": "text/x-drafty", "reply": "3"})
		bws.set(g1, map[string]any{"desc": map[string]any{"private": "bob's"}})
		aws.set(g1, map[string]any{"sub": map[string]any{"user": bob.uid.UserId(), "mode": "JRWP"}})
		bws.del(g1, "msg", map[string]any{"delseq": []any{map[string]any{"low": 8}}})
		bws.leave("me", false)
		e.vfQuiesce()
		bws.sub("me", nil)
		e.vfQuiesce()
		bws.leave(g1, false)
		e.vfQuiesce()
		canonAll := func(fs []*vfFrame) []string {
			var out []string
			for _, f := range fs {
				if f.Kind == "data" || f.Kind == "pres" || f.Kind == "info" {
					out = append(out, vfCompact(c20Canon(f.M, "")))
				}
			}
			sort.Strings(out)
			return out
		}
		jw, jg := canonAll(aws.since(n0w)), canonAll(arpc.since(n0g))
		// the ws session is the author of one {set}: its own action is not announced to it; compare as multisets
		// restricted to frames both may receive (frames caused by bob)
		r.HitN("broadcast_equal", int64(len(jw)))
		r.Eval("e2e:broadcasts")
		onlyW, onlyG := c20MultisetDiff(jw, jg)
		// alice/ws issued {set sub}: the {pres acs} on me about it goes to her other sessions only
		var ow []string
		for _, s := range onlyW {
			ow = append(ow, s)
		}
		var og []string
		for _, s := range onlyG {
			if strings.Contains(s, `"what":"acs"`) && (strings.Contains(s, `"topic":"me"`) || strings.Contains(s, `"act":"`+alice.uid.UserId()+`"`)) {
				continue // skip-session rule: announced to the other sessions of the acting user
			}
			og = append(og, s)
		}
		if len(ow) > 0 || len(og) > 0 {
			// try to pair them up to name the differing field
			msg := fmt.Sprintf("alice's websocket and gRPC sessions, attached to the same topics, received different notifications: only ws %v; only gRPC %v", ow, og)
			cls := "frames"
			if len(ow) == 1 && len(og) == 1 {
				var a, b any
				json.Unmarshal([]byte(ow[0]), &a)
				json.Unmarshal([]byte(og[0]), &b)
				var diffs []string
				c20Diff(a, b, "", &diffs)
				if len(diffs) > 0 {
					cls = c20PathClass(diffs[0])
					msg += "; differing: " + strings.Join(diffs, "; ")
				}
			}
			r.Violation("e2e-broadcast:"+cls, msg, map[string]any{"ws": jw, "grpc": jg})
		}
		if len(jw) < 5 {
			r.Violation("e2e-broadcast:too-few", fmt.Sprintf("alice's websocket session saw only %d notifications in the broadcast phase", len(jw)), map[string]any{"ws": jw})
		}
		bws.sub(g1, nil)
		e.vfQuiesce()
	}

	// --- writes: the same sequence over ws on g1 and over gRPC on g2, then the rows must agree
	{
		// level the two groups first (g1 has been used by the phases above): compare deltas only
		type wr struct {
			label, kind string
			body        func(topic string) map[string]any
		}
		writes := []wr{
			{"pub-drafty", "pub", func(tn string) map[string]any {
				return map[string]any{"topic": tn, "noecho": true, "head": map[string]any{"mime": "text/x-drafty", "priority": 5, "x": []any{1, "two", nil}},
					"content": map[string]any{"txt": "write é 😀", "fmt": []any{map[string]any{"len": 5, "tp": "EM"}}}}
			}},
			{"pub-plain", "pub", func(tn string) map[string]any { return map[string]any{"topic": tn, "content": "plain text"} }},
			{"pub-number", "pub", func(tn string) map[string]any { return map[string]any{"topic": tn, "content": 12345.5} }},
			{"set-desc", "set", func(tn string) map[string]any {
				return map[string]any{"topic": tn, "desc": map[string]any{"public": map[string]any{"fn": "renamed", "photo": map[string]any{"ref": "https://example.com/x.png"}},
					"private": map[string]any{"arch": true}, "defacs": map[string]any{"auth": "JRWP", "anon": "N"}}}
			}},
			{"set-tags", "set", func(tn string) map[string]any {
				return map[string]any{"topic": tn, "tags": []any{"Gamma", "delta", "delta"}}
			}},
			{"set-sub-other", "set", func(tn string) map[string]any {
				return map[string]any{"topic": tn, "sub": map[string]any{"user": bob.uid.UserId(), "mode": "JRP"}}
			}},
			{"set-sub-self", "set", func(tn string) map[string]any {
				return map[string]any{"topic": tn, "sub": map[string]any{"mode": "JRWPASO"}}
			}},
			{"del-ranges", "del", func(tn string) map[string]any {
				return map[string]any{"topic": tn, "what": "msg", "delseq": []any{map[string]any{"low": 5, "hi": 7}, map[string]any{"low": 9}}}
			}},
			{"del-hard", "del", func(tn string) map[string]any {
				return map[string]any{"topic": tn, "what": "msg", "hard": true, "delseq": []any{map[string]any{"low": 10, "hi": 12}}}
			}},
			{"note-recv", "note", func(tn string) map[string]any { return map[string]any{"topic": tn, "what": "recv", "seq": 12} }},
			{"note-read", "note", func(tn string) map[string]any { return map[string]any{"topic": tn, "what": "read", "seq": 11} }},
			{"del-sub", "del", func(tn string) map[string]any {
				return map[string]any{"topic": tn, "what": "sub", "user": bob.uid.UserId()}
			}},
			{"leave", "leave", func(tn string) map[string]any { return map[string]any{"topic": tn} }},
		}
		// fresh pair of groups so that both start from identical rows
		h1 := mkGroup(aws, "w")
		h2 := mkGroup(aws, "w")
		for _, hn := range []string{h1, h2} {
			bws.sub(hn, nil)
			for i := 0; i < 12; i++ {
				aws.pub(hn, fmt.Sprintf("m%d", i), false, nil)
			}
		}
		arpc.send(map[string]any{"sub": map[string]any{"id": "s-h2", "topic": h2}})
		e.vfQuiesce()
		for _, wq := range writes {
			nw, ng := aws.frameCount(), arpc.count()
			b1 := wq.body(h1)
			b2 := wq.body(h2)
			if wq.kind != "note" {
				b1["id"], b2["id"] = "w-"+wq.label, "w-"+wq.label
			}
			aws.send(wq.kind, b1)
			e.vfQuiesce()
			arpc.send(map[string]any{wq.kind: b2})
			e.vfQuiesce()
			r.Hit("same_write_same_effect")
			r.Eval("e2e-write:" + wq.label)
			// replies
			var cw, cg any
			for _, f := range aws.since(nw) {
				if f.Kind == "ctrl" && f.str("id") == "w-"+wq.label {
					cw = c20Canon(f.M, "")
				}
			}
			for _, f := range arpc.since(ng) {
				if f.Kind == "ctrl" && f.str("id") == "w-"+wq.label {
					cg = c20Canon(f.M, "")
				}
			}
			sw := strings.ReplaceAll(vfCompact(cw), h1, "<grp>")
			sg := strings.ReplaceAll(vfCompact(cg), h2, "<grp>")
			if sw != sg {
				r.Violation("e2e-write-reply:"+wq.label, fmt.Sprintf("{%s} %s: reply over websocket %s, over gRPC %s", wq.kind, wq.label, sw, sg), map[string]any{"request": vfCompact(b1)})
			}
			// rows
			rw := c20TopicRows(h1)
			rg := c20TopicRows(h2)
			if rw != rg {
				r.Violation("e2e-write-effect:"+wq.label, fmt.Sprintf("{%s} %s sent over websocket and over gRPC left different stored state:\n ws:   %s\n grpc: %s", wq.kind, wq.label, rw, rg), map[string]any{"request": vfCompact(b1)})
				break
			}
		}
	}
	arpc.close()
	w.closeAll()
	e.vfQuiesce()
}

// c20SortSubs orders the subscription list of a {meta}: its order is not part of the reply's meaning.
func c20SortSubs(v any) any {
	m, _ := v.(map[string]any)
	meta, _ := m["meta"].(map[string]any)
	if subs, ok := meta["sub"].([]any); ok {
		sort.SliceStable(subs, func(i, j int) bool {
			a, _ := subs[i].(map[string]any)
			b, _ := subs[j].(map[string]any)
			return c20s(a, "topic")+"|"+c20s(a, "user") < c20s(b, "topic")+"|"+c20s(b, "user")
		})
	}
	return v
}

func c20MultisetDiff(a, b []string) (onlyA, onlyB []string) {
	cnt := map[string]int{}
	for _, s := range a {
		cnt[s]++
	}
	for _, s := range b {
		cnt[s]--
	}
	for s, n := range cnt {
		for ; n > 0; n-- {
			onlyA = append(onlyA, s)
		}
		for ; n < 0; n++ {
			onlyB = append(onlyB, s)
		}
	}
	sort.Strings(onlyA)
	sort.Strings(onlyB)
	return
}

// c20TopicRows renders the stored state of a group topic without names and timestamps.
func c20TopicRows(topic string) string {
	var sb strings.Builder
	vfmem.A.View(func(db *vfmem.DB) {
		if t := db.Topics[topic]; t != nil {
			fmt.Fprintf(&sb, "topic{seq=%d del=%d auth=%s anon=%s tags=%v public=%s trusted=%s owner=%v}", t.SeqId, t.DelId, t.Access.Auth.String(), t.Access.Anon.String(), t.Tags, string(t.Public), string(t.Trusted), !t.Owner.IsZero())
		}
		var subs []string
		for _, s := range db.Subs {
			if s.Topic == topic {
				subs = append(subs, fmt.Sprintf("sub{%s want=%s given=%s read=%d recv=%d del=%d private=%s deleted=%v}", s.User.UserId(), s.ModeWant.String(), s.ModeGiven.String(), s.ReadSeqId, s.RecvSeqId, s.DelId, string(s.Private), s.DeletedAt != nil))
			}
		}
		sort.Strings(subs)
		sb.WriteString(strings.Join(subs, " "))
		var msgs []string
		for _, m := range db.Msgs[topic] {
			msgs = append(msgs, fmt.Sprintf("msg{%03d from=%s head=%s content=%s del=%d deleted=%v}", m.SeqId, m.From.UserId(), string(m.Head), string(m.Content), m.DelId, m.DeletedAt != nil))
		}
		sort.Strings(msgs)
		sb.WriteString(" " + strings.Join(msgs, " "))
		var dels []string
		for _, d := range db.DelLog {
			if d.Topic == topic {
				dels = append(dels, fmt.Sprintf("del{%d for=%s %d-%d}", d.DelId, d.DeletedFor.UserId(), d.Low, d.Hi))
			}
		}
		sort.Strings(dels)
		sb.WriteString(" " + strings.Join(dels, " "))
	})
	return sb.String()
}

var _ = types.ZeroUid
