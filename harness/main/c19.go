//go:build verif

package main

import (
	"encoding/base64"
	"fmt"
	"math/rand"
	"reflect"
	"sort"
	"strings"
	"testing"
	"unicode"

	"github.com/tinode/chat/server/auth"
	"github.com/tinode/chat/server/db/vfmem"
	"github.com/tinode/chat/server/store"
	"github.com/tinode/chat/server/store/types"
	"github.com/tinode/chat/server/vfkit"
)

// C19: search query grammar, tag rewriting, tag normalisation, reserved / masked namespaces,
// active-only search results.

// ---------------------------------------------------------------------------------------
// query generator: queries are rendered from a term list, so the expected (required, optional)
// lists are known by construction.

type c19Term struct {
	text   string // as typed (inside the quotes if quoted)
	quoted bool
	class  string // email | phone | login | generic | prefixed | invalid
}

type c19Rewrite struct {
	email, tel, login bool // which rewriters are configured to index
}

const c19Lat = "abcdefghijklmnopqrstuvwxyz"
const c19LatUp = "ABCDEFGHIJKLMNOPQRSTUVWXYZ"

var c19Cyr = []rune("абвгдежзиклмнопрстуфхцчшэюя")
var c19CyrUp = []rune("АБВГДЕЖЗИКЛМНОПРСТУФХЦЧШЭЮЯ")
var c19Cjk = []rune("名前東京検索犬猫山川")

func c19Letters(rng *rand.Rand, n int, script int, upper bool) string {
	var sb strings.Builder
	for i := 0; i < n; i++ {
		up := upper && rng.Intn(3) == 0
		switch script {
		case 1:
			if up {
				sb.WriteRune(c19CyrUp[rng.Intn(len(c19CyrUp))])
			} else {
				sb.WriteRune(c19Cyr[rng.Intn(len(c19Cyr))])
			}
		case 2:
			sb.WriteRune(c19Cjk[rng.Intn(len(c19Cjk))])
		default:
			if up {
				sb.WriteByte(c19LatUp[rng.Intn(26)])
			} else {
				sb.WriteByte(c19Lat[rng.Intn(26)])
			}
		}
	}
	return sb.String()
}

func c19GenTerm(rng *rand.Rand) c19Term {
	t := c19Term{}
	switch k := rng.Intn(20); {
	case k < 3:
		t.class = "email"
		t.text = c19Letters(rng, 1+rng.Intn(7), 0, true) + fmt.Sprint(rng.Intn(100)) + "@" + c19Letters(rng, 2+rng.Intn(6), 0, true) + []string{".com", ".org", ".io", ".Example.COM"}[rng.Intn(4)]
	case k < 5:
		t.class = "phone"
		t.text = "+1" + []string{"415", "212", "650", "312"}[rng.Intn(4)] + "555" + fmt.Sprintf("%04d", rng.Intn(10000))
	case k < 10:
		t.class = "login"
		script := rng.Intn(2)
		n := 4 + rng.Intn(8)
		body := c19Letters(rng, n, script, true)
		if rng.Intn(3) == 0 {
			// separators allowed inside a login
			r := []rune(body)
			r[1+rng.Intn(len(r)-2)] = []rune("_.")[rng.Intn(2)]
			body = string(r)
		}
		if rng.Intn(3) == 0 {
			body += fmt.Sprint(rng.Intn(100))
		}
		t.text = body
	case k < 15:
		t.class = "generic"
		switch rng.Intn(6) {
		case 0:
			t.text = c19Letters(rng, 2+rng.Intn(2), 0, true) // shorter than a login
			if len(t.text) > 3 {
				t.text = t.text[:3]
			}
		case 1:
			t.text = c19Letters(rng, 2, 2, false) // two CJK runes
		case 2:
			t.text = c19Letters(rng, 2+rng.Intn(5), rng.Intn(2), true) + []string{"#", "!", "?", "-x", "#1"}[rng.Intn(5)]
		case 3:
			t.text = "#" + c19Letters(rng, 2+rng.Intn(5), 0, true)
		case 4:
			t.text = c19Letters(rng, 33+rng.Intn(40), 0, false) // longer than a login may be
		default:
			t.text = c19Letters(rng, 3, rng.Intn(2), true) + "-" + c19Letters(rng, 3, rng.Intn(3), true)
		}
	case k < 18:
		t.class = "prefixed"
		ns := []string{"org", "email", "basic", "tel", "geo", "x1", "age"}[rng.Intn(7)]
		val := c19Letters(rng, 1+rng.Intn(8), rng.Intn(3), true)
		if rng.Intn(3) == 0 {
			val += []string{"@x.com", "+1", "_a", ".b", "#"}[rng.Intn(5)]
		}
		t.text = ns + ":" + val
	default:
		t.class = "invalid"
		t.text = c19Letters(rng, 2+rng.Intn(4), 0, true) + []string{"$", "/", "(", ")", "*", "'", "=", "%", "&"}[rng.Intn(9)] + c19Letters(rng, rng.Intn(3), 0, false)
	}
	if rng.Intn(6) == 0 {
		t.quoted = true
		if rng.Intn(3) == 0 {
			// operators inside quotes are literal characters; the result is not a valid tag
			t.class = "invalid"
			t.text = c19Letters(rng, 3, 0, true) + []string{" ", ",", "\t", ", ", " , "}[rng.Intn(5)] + c19Letters(rng, 3, 0, true)
		}
	}
	return t
}

// c19Expect computes the documented interpretation: whitespace = AND, comma = OR, OR binds tighter.
func c19Expect(terms []c19Term, orSep []bool, rw c19Rewrite, withLogin bool) (and [][]string, or []string) {
	for i, t := range terms {
		val := strings.ToLower(t.text)
		rewritten := ""
		switch t.class {
		case "invalid":
			continue
		case "email":
			if rw.email {
				rewritten = "email:" + val
			}
		case "phone":
			if rw.tel {
				rewritten = "tel:" + val
			}
		case "login":
			if rw.login && withLogin {
				rewritten = "basic:" + val
			}
		}
		isOr := (i > 0 && orSep[i-1]) || (i < len(terms)-1 && orSep[i])
		if isOr {
			or = append(or, val)
			if rewritten != "" {
				or = append(or, rewritten)
			}
		} else {
			g := []string{val}
			if rewritten != "" {
				g = append(g, rewritten)
			}
			and = append(and, g)
		}
	}
	return
}

func c19Render(rng *rand.Rand, terms []c19Term, orSep []bool) string {
	var sb strings.Builder
	sb.WriteString([]string{"", "", " ", "\t", "  "}[rng.Intn(5)])
	for i, t := range terms {
		if t.quoted {
			sb.WriteString(`"` + t.text + `"`)
		} else {
			sb.WriteString(t.text)
		}
		if i < len(terms)-1 {
			if orSep[i] {
				sb.WriteString([]string{",", ", ", " ,", " , ", "\t,\t", ",  ", "  ,"}[rng.Intn(7)])
			} else {
				sb.WriteString([]string{" ", "  ", "\t", " \t ", "   "}[rng.Intn(5)])
			}
		}
	}
	sb.WriteString([]string{"", "", " ", "\t", "  "}[rng.Intn(5)])
	return sb.String()
}

func c19Malform(rng *rand.Rand, terms []c19Term, orSep []bool) (string, string) {
	// start from a well-formed query of valid unquoted terms
	for i := range terms {
		terms[i].quoted = false
		if terms[i].class == "invalid" {
			terms[i] = c19Term{text: "alpha", class: "login"}
		}
	}
	i := rng.Intn(len(terms))
	kind := []string{"unterminated-quote", "doubled-comma", "quote-glued-after-word", "quote-glued-before-word", "dangling-quote"}[rng.Intn(5)]
	switch kind {
	case "dangling-quote":
		// good terms, an operator, then a quote which opens an (empty) string that is never closed
		return c19Render(rng, terms, orSep) + []string{` "`, `,"`, ` , "`, "\t\"", ` "  `, `, " `}[rng.Intn(6)], kind
	case "unterminated-quote":
		if rng.Intn(2) == 0 {
			terms[i].text = `"` + terms[i].text
		} else {
			// the last quote of the query is never closed
			i = len(terms) - 1
			terms[i].text = `"` + terms[i].text
		}
		return c19Render(rng, terms, orSep), kind
	case "doubled-comma":
		if len(terms) < 2 {
			terms = append(terms, c19Term{text: "beta", class: "login"})
			orSep = append(orSep, false)
		}
		j := rng.Intn(len(terms) - 1)
		q := ""
		for k, t := range terms {
			q += t.text
			if k < len(terms)-1 {
				if k == j {
					q += []string{",,", ", ,", " ,, ", ",\t,", ", , ,"}[rng.Intn(5)]
				} else if orSep[k] {
					q += ", "
				} else {
					q += " "
				}
			}
		}
		return q, kind
	case "quote-glued-after-word":
		terms[i].text = terms[i].text + `"` + "abc" + `"`
		return c19Render(rng, terms, orSep), kind
	default:
		terms[i].text = `"` + "abc" + `"` + terms[i].text
		return c19Render(rng, terms, orSep), kind
	}
}

func c19SetRewrite(rw c19Rewrite) {
	globals.validators = map[string]credValidator{
		"email": {requiredAuthLvl: []auth.Level{auth.LevelAuth}, addToTags: rw.email},
		"tel":   {addToTags: rw.tel},
	}
}

func c19Norm2(a [][]string) [][]string {
	if len(a) == 0 {
		return nil
	}
	return a
}
func c19Norm1(a []string) []string {
	if len(a) == 0 {
		return nil
	}
	return a
}

func c19Parser(r *vfkit.R, rng *rand.Rand, basicTags bool) {
	saved := globals.validators
	defer func() { globals.validators = saved }()

	// sanity of the class assumptions against the components which define "looks like"
	c19SetRewrite(c19Rewrite{email: true, tel: true})
	if tag, _ := store.Store.GetValidator("email").PreCheck("bob7@example.com", nil); tag != "email:bob7@example.com" {
		r.Inconclusive("email validator does not index the sample address: " + tag)
		return
	}
	if tag, _ := store.Store.GetValidator("tel").PreCheck("+14155551234", map[string]any{"countryCode": "US"}); tag != "tel:+14155551234" {
		r.Inconclusive("tel validator does not index the sample number: " + tag)
		return
	}
	if tag := store.Store.GetAuthHandler("basic").AsTag("alice"); (tag == "basic:alice") != basicTags {
		r.Inconclusive("basic authenticator AsTag does not match the configuration: " + tag)
		return
	}

	n := r.Pick(20000, 500000)
	for i := 0; i < n; i++ {
		rw := c19Rewrite{email: rng.Intn(2) == 0, tel: rng.Intn(2) == 0, login: basicTags}
		withLogin := rng.Intn(3) != 0
		c19SetRewrite(rw)
		nt := 1 + rng.Intn(6)
		terms := make([]c19Term, nt)
		for j := range terms {
			terms[j] = c19GenTerm(rng)
		}
		orSep := make([]bool, nt)
		for j := range orSep {
			orSep[j] = rng.Intn(5) < 2
		}
		q := c19Render(rng, terms, orSep)
		wantAnd, wantOr := c19Expect(terms, orSep, rw, withLogin)
		gotAnd, gotOr, err := parseSearchQuery(q, "US", withLogin)
		r.Hit("query_interpreted")
		shape := fmt.Sprintf("terms=%d or=%v quoted=%v nonascii=%v", nt, strings.Contains(q, ","), strings.Contains(q, `"`), len(q) != len([]rune(q)))
		r.Eval("parse:" + shape)
		if err != nil {
			r.Violation("query-rejected", fmt.Sprintf("well-formed query %q was rejected: %v", q, err), map[string]any{"query": q})
			continue
		}
		if !reflect.DeepEqual(c19Norm2(gotAnd), c19Norm2(wantAnd)) || !reflect.DeepEqual(c19Norm1(gotOr), c19Norm1(wantOr)) {
			kind := "terms"
			if len(q) != len([]rune(q)) {
				kind = "terms-nonascii"
			}
			r.Violation("query-misread:"+kind, fmt.Sprintf("query %q (email=%v tel=%v login=%v) parsed as required=%v optional=%v; the documented reading is required=%v optional=%v",
				q, rw.email, rw.tel, rw.login && withLogin, gotAnd, gotOr, wantAnd, wantOr), map[string]any{"query": q})
		}
		if i < 5 {
			r.Sample(map[string]any{"query": q, "required": gotAnd, "optional": gotOr, "rewrite": fmt.Sprintf("email=%v tel=%v login=%v", rw.email, rw.tel, rw.login && withLogin)})
		}
	}
	r.EvalN(int64(n))

	// malformed queries must be rejected
	c19SetRewrite(c19Rewrite{email: true, tel: true, login: basicTags})
	nm := r.Pick(5000, 100000)
	for i := 0; i < nm; i++ {
		nt := 1 + rng.Intn(4)
		terms := make([]c19Term, nt)
		for j := range terms {
			terms[j] = c19GenTerm(rng)
		}
		orSep := make([]bool, nt)
		for j := range orSep {
			orSep[j] = rng.Intn(5) < 2
		}
		q, kind := c19Malform(rng, terms, orSep)
		and, or, err := parseSearchQuery(q, "US", true)
		r.Hit("malformed_rejected")
		r.Eval("malformed:" + kind)
		if err == nil {
			r.Violation("malformed-accepted:"+kind, fmt.Sprintf("malformed query %q (%s) was not rejected but read as required=%v optional=%v", q, kind, and, or), map[string]any{"query": q})
		}
	}
	r.EvalN(int64(nm))
}

// ---------------------------------------------------------------------------------------
// tag normalisation

func c19RefNormalize(src []string, maxCount int) []string {
	if src == nil {
		return nil
	}
	if len(src) > maxCount {
		src = src[:maxCount]
	}
	seen := map[string]bool{}
	out := []string{}
	for _, s := range src {
		s = strings.ToLower(strings.TrimSpace(s))
		if s == types.NullValue {
			return []string{}
		}
		rs := []rune(s)
		if len(rs) < 2 || len(rs) > 96 || seen[s] {
			continue
		}
		if !unicode.IsLetter(rs[0]) && !unicode.IsDigit(rs[0]) {
			continue
		}
		seen[s] = true
		out = append(out, s)
	}
	sort.Strings(out)
	if len(out) == 0 {
		// nothing valid left: "no change requested" (only the explicit null value clears the tags)
		return nil
	}
	return out
}

func c19TagWellFormed(tag string) string {
	rs := []rune(tag)
	switch {
	case tag != strings.TrimSpace(tag):
		return "not trimmed"
	case tag != strings.ToLower(tag):
		return "not lower case"
	case len(rs) < 2:
		return "too short"
	case len(rs) > 96:
		return "too long"
	case !unicode.IsLetter(rs[0]) && !unicode.IsDigit(rs[0]):
		return "does not start with a letter or digit"
	}
	return ""
}

func c19GenTag(rng *rand.Rand) string {
	base := ""
	switch rng.Intn(12) {
	case 0:
		base = c19Letters(rng, 1, 0, true) // too short
	case 1:
		base = c19Letters(rng, 97+rng.Intn(10), 0, false) // too long
	case 2:
		base = c19Letters(rng, 96, 1, true) // exactly the limit, multi-byte
	case 3:
		base = []string{"#", "-", "_", "!", ".", "@", " ", " ", "​"}[rng.Intn(9)] + c19Letters(rng, 3, 0, true)
	case 4:
		base = ""
	case 5:
		base = []string{"email:", "basic:", "tel:", "org:", "EMAIL:", "Basic:", "rest:"}[rng.Intn(7)] + c19Letters(rng, 4, 0, true)
	case 6:
		base = c19Letters(rng, 2+rng.Intn(6), 2, false)
	case 7:
		base = fmt.Sprint(rng.Intn(1000)) + c19Letters(rng, 2, 0, true)
	default:
		base = []string{"travel", "Travel", "TRAVEL", "hiking", "Hiking", "кот", "КОТ", "Straße", "STRASSE", "İstanbul", "x1", "go"}[rng.Intn(12)]
	}
	switch rng.Intn(6) {
	case 0:
		base = " " + base
	case 1:
		base = base + "\t"
	case 2:
		base = "  " + base + " \n"
	}
	return base
}

func c19Normalize(r *vfkit.R, rng *rand.Rand) {
	saved := globals.maxTagCount
	defer func() { globals.maxTagCount = saved }()
	n := r.Pick(20000, 400000)
	for i := 0; i < n; i++ {
		globals.maxTagCount = []int{1, 3, 8, 16}[rng.Intn(4)]
		var src []string
		if rng.Intn(20) != 0 {
			src = []string{}
			for k := rng.Intn(24); k > 0; k-- {
				src = append(src, c19GenTag(rng))
			}
			if rng.Intn(40) == 0 {
				src = append(src, types.NullValue)
				rng.Shuffle(len(src), func(a, b int) { src[a], src[b] = src[b], src[a] })
			}
		}
		in := append([]string(nil), src...)
		if src == nil {
			in = nil
		}
		want := c19RefNormalize(append([]string(nil), in...), globals.maxTagCount)
		if in == nil {
			want = nil
		}
		got := []string(normalizeTags(src))
		r.Hit("tags_normalised")
		r.Eval(fmt.Sprintf("normalize:max=%d,n=%d", globals.maxTagCount, len(in)/6*6))
		for _, tag := range got {
			if why := c19TagWellFormed(tag); why != "" {
				r.Violation("normalize-malformed-tag", fmt.Sprintf("normalizeTags(%q) kept %q: %s", in, tag, why), map[string]any{"in": in})
			}
		}
		if len(got) > globals.maxTagCount {
			r.Violation("normalize-count", fmt.Sprintf("normalizeTags(%q) returned %d tags, limit %d", in, len(got), globals.maxTagCount), map[string]any{"in": in})
		}
		gs := append([]string{}, got...)
		sort.Strings(gs)
		for k := 1; k < len(gs); k++ {
			if gs[k] == gs[k-1] {
				r.Violation("normalize-duplicate", fmt.Sprintf("normalizeTags(%q) returned %q twice", in, gs[k]), map[string]any{"in": in})
			}
		}
		if (got == nil) != (want == nil) {
			// nil means "no change requested", empty non-nil means "remove all tags" (explicit null value)
			r.Violation("normalize-nil", fmt.Sprintf("normalizeTags(%q): got nil=%v, reference nil=%v", in, got == nil, want == nil), map[string]any{"in": in})
		}
		if !reflect.DeepEqual(c19Norm1(gs), c19Norm1(want)) {
			r.Violation("normalize-differs", fmt.Sprintf("normalizeTags(%q) = %q, reference (trim, lower-case, drop invalid, de-duplicate within the first %d) = %q", in, got, globals.maxTagCount, want), map[string]any{"in": in})
		}
		// idempotent
		again := []string(normalizeTags(append([]string(nil), got...)))
		as := append([]string{}, again...)
		sort.Strings(as)
		if got != nil && !reflect.DeepEqual(c19Norm1(as), c19Norm1(gs)) {
			r.Violation("normalize-not-idempotent", fmt.Sprintf("normalizeTags(normalizeTags(%q)) = %q != %q", in, again, got), map[string]any{"in": in})
		}
	}
	r.EvalN(int64(n))
}

func c19Contains(l []string, s string) bool {
	for _, x := range l {
		if strings.TrimSpace(x) == s {
			return true
		}
	}
	return false
}

// ---------------------------------------------------------------------------------------
// end to end

type c19User struct {
	name   string
	login  string
	pass   string
	uid    types.Uid
	c      *vfClient
	emails map[string]bool // validated
}

type c19World struct {
	e         *vfEnv
	r         *vfkit.R
	rng       *rand.Rand
	basicTags bool
	users     []*c19User
	root      *vfClient
	groups    map[string]*c19User // name -> owner
	nuser     int
	immutable map[string]bool
	masked    map[string]bool
}

var c19Prefixed = func(tag string) (string, bool) {
	// independent reading of "a tag in a namespace": ns ':' value, ns = lower-case letter followed by 1-15 word characters
	i := strings.IndexByte(tag, ':')
	if i < 2 || i > 16 || i == len(tag)-1 {
		return "", false
	}
	ns := tag[:i]
	if ns[0] < 'a' || ns[0] > 'z' {
		return "", false
	}
	for _, c := range ns[1:] {
		if !(c == '_' || (c >= '0' && c <= '9') || (c >= 'a' && c <= 'z') || (c >= 'A' && c <= 'Z')) {
			return "", false
		}
	}
	val := []rune(tag[i+1:])
	if len(val) > 96 {
		return "", false
	}
	for _, c := range val {
		if !(unicode.IsLetter(c) || unicode.IsNumber(c) || strings.ContainsRune("-_+.!?#@", c)) {
			return "", false
		}
	}
	return ns, true
}

func (w *c19World) restricted(tags []string, nss map[string]bool) []string {
	out := []string{}
	for _, t := range tags {
		if ns, ok := c19Prefixed(t); ok && nss[ns] {
			out = append(out, t)
		}
	}
	sort.Strings(out)
	return out
}

func (w *c19World) userTags(uid types.Uid) (tags []string, state types.ObjState, ok bool) {
	vfmem.A.View(func(db *vfmem.DB) {
		if u := db.Users[uid]; u != nil {
			tags = append([]string{}, u.Tags...)
			state = u.State
			ok = true
		}
	})
	sort.Strings(tags)
	return
}
func (w *c19World) topicTags(name string) (tags []string, ok bool) {
	vfmem.A.View(func(db *vfmem.DB) {
		if t := db.Topics[name]; t != nil {
			tags = append([]string{}, t.Tags...)
			ok = true
		}
	})
	sort.Strings(tags)
	return
}

func (w *c19World) expectedRestricted(u *c19User) []string {
	out := []string{}
	if w.basicTags {
		out = append(out, "basic:"+strings.ToLower(u.login))
	}
	for e, ok := range u.emails {
		if ok {
			out = append(out, "email:"+e)
		}
	}
	sort.Strings(out)
	return out
}

// checkRows: invariants over all stored tags, at quiescence.
func (w *c19World) checkRows(step string) {
	w.r.Hit("stored_tags_invariant")
	vfmem.A.View(func(db *vfmem.DB) {
		for uid, u := range db.Users {
			for _, tag := range u.Tags {
				if why := c19TagWellFormed(tag); why != "" {
					w.r.Violation("stored-tag-malformed:user", fmt.Sprintf("after %s user %s has stored tag %q: %s", step, uid.UserId(), tag, why), map[string]any{"tags": u.Tags})
				}
			}
			ts := append([]string{}, u.Tags...)
			sort.Strings(ts)
			for k := 1; k < len(ts); k++ {
				if ts[k] == ts[k-1] {
					w.r.Violation("stored-tag-duplicate:user", fmt.Sprintf("after %s user %s has tag %q twice", step, uid.UserId(), ts[k]), map[string]any{"tags": u.Tags})
				}
			}
		}
		for name, t := range db.Topics {
			for _, tag := range t.Tags {
				if why := c19TagWellFormed(tag); why != "" {
					w.r.Violation("stored-tag-malformed:topic", fmt.Sprintf("after %s topic %s has stored tag %q: %s", step, name, tag, why), map[string]any{"tags": t.Tags})
				}
			}
			if rt := w.restricted(t.Tags, w.immutable); len(rt) > 0 {
				w.r.Violation("reserved-tag-on-topic", fmt.Sprintf("after %s topic %s carries tags %v in namespaces reserved for authenticators / validators", step, name, rt), map[string]any{"tags": t.Tags})
			}
			if len(t.Tags) > globals.maxTagCount {
				w.r.Violation("stored-tag-count:topic", fmt.Sprintf("after %s topic %s has %d tags, limit %d", step, name, len(t.Tags), globals.maxTagCount), nil)
			}
		}
	})
	for _, u := range w.users {
		tags, _, ok := w.userTags(u.uid)
		if !ok {
			continue
		}
		got := w.restricted(tags, w.immutable)
		want := w.expectedRestricted(u)
		if !reflect.DeepEqual(got, want) {
			w.r.Violation("reserved-tags-differ", fmt.Sprintf("after %s user %s (%s) has reserved-namespace tags %v; login and validated credentials give %v", step, u.name, u.uid.UserId(), got, want), map[string]any{"tags": tags})
		}
	}
}

func c19Secret(login, pass string) string {
	return base64.StdEncoding.EncodeToString([]byte(login + ":" + pass))
}

// newUser creates an account over the wire with {acc}, validates its e-mail with {login}.
func (w *c19World) newUser(tags []any) *c19User {
	w.nuser++
	u := &c19User{name: fmt.Sprintf("u%d", w.nuser), emails: map[string]bool{}}
	u.login = fmt.Sprintf("%sUser%d", []string{"al", "Bo", "ca", "DE"}[w.nuser%4], w.nuser) + fmt.Sprintf("b%d", w.r.Batch())
	u.pass = "secret-" + u.name
	email := strings.ToLower(u.login) + "@example.com"
	c := w.e.dial(fmt.Sprintf("c19-%s", u.name))
	c.hi(false)
	body := map[string]any{"user": "new", "scheme": "basic", "secret": c19Secret(u.login, u.pass), "login": true,
		"desc": map[string]any{"public": map[string]any{"fn": u.name}}, "cred": []any{map[string]any{"meth": "email", "val": email}}}
	if tags != nil {
		body["tags"] = tags
	}
	f := c.req("acc", body)
	if f == nil || f.code() >= 400 {
		w.r.Violation("setup:acc", "account creation refused: "+frameStr(f), nil)
		return nil
	}
	uidStr, _ := f.params()["user"].(string)
	u.uid = types.ParseUserId(uidStr)
	f = c.req("login", map[string]any{"scheme": "basic", "secret": c19Secret(u.login, u.pass), "cred": []any{map[string]any{"meth": "email", "resp": "123456"}}})
	if f == nil || f.code() != 200 {
		w.r.Violation("setup:login", "login with credential response refused: "+frameStr(f), nil)
		return nil
	}
	u.emails[email] = true
	u.c = c
	c.uid = u.uid
	c.sub("me", nil)
	c.sub("fnd", nil)
	w.users = append(w.users, u)
	return u
}

func (w *c19World) tagList(u *c19User, current []string) ([]any, string) {
	rng := w.rng
	var out []any
	label := "ordinary"
	nOrd := rng.Intn(5)
	for i := 0; i < nOrd; i++ {
		out = append(out, c19GenTag(rng))
	}
	keep := w.restricted(current, w.immutable)
	switch rng.Intn(8) {
	case 0: // drop the reserved tags
		label = "drops-reserved"
	case 1: // add a foreign reserved tag
		label = "adds-reserved"
		for _, t := range keep {
			out = append(out, t)
		}
		out = append(out, []string{"email:boss@example.com", "basic:admin", "EMAIL:Boss@Example.com", " basic:root ", "email:" + strings.ToLower(u.login) + "2@example.com"}[rng.Intn(5)])
	case 2: // replace one reserved tag with another
		label = "swaps-reserved"
		for i, t := range keep {
			if i == 0 {
				out = append(out, "email:other@example.com")
			} else {
				out = append(out, t)
			}
		}
	case 3: // clear all
		label = "null"
		out = []any{types.NullValue}
	default: // keep reserved ones as they are, possibly re-cased
		label = "keeps-reserved"
		for _, t := range keep {
			if rng.Intn(3) == 0 {
				t = " " + strings.ToUpper(t[:1]) + t[1:]
			}
			out = append(out, t)
		}
		if rng.Intn(2) == 0 {
			out = append(out, "org:"+[]string{"acme", "globex", "ACME"}[rng.Intn(3)])
		}
	}
	rng.Shuffle(len(out), func(a, b int) { out[a], out[b] = out[b], out[a] })
	return out, label
}

func c19Strs(l []any) []string {
	out := make([]string, len(l))
	for i, x := range l {
		out[i], _ = x.(string)
	}
	return out
}

// stepSetTags: {set tags} on me or on a group; oracle over the rows before and after.
func (w *c19World) stepSetTags(u *c19User, topic string) {
	var before []string
	var ok bool
	if topic == "me" {
		before, _, ok = w.userTags(u.uid)
	} else {
		before, ok = w.topicTags(topic)
	}
	if !ok {
		return
	}
	list, label := w.tagList(u, before)
	if topic != "me" && label == "keeps-reserved" && w.rng.Intn(3) == 0 {
		list = append(list, "email:grp@example.com")
		label = "adds-reserved"
	}
	f := u.c.set(topic, map[string]any{"tags": list})
	w.e.vfQuiesce()
	var after []string
	if topic == "me" {
		after, _, _ = w.userTags(u.uid)
	} else {
		after, _ = w.topicTags(topic)
	}
	norm := c19RefNormalize(c19Strs(list), globals.maxTagCount)
	kind := "me"
	if topic != "me" {
		kind = "grp"
	}
	w.r.Eval("set-tags:" + kind + ":" + label)
	step := fmt.Sprintf("{set %s tags=%q} by %s", topic, list, u.name)
	if f == nil {
		w.r.Violation("set-tags-unanswered", step+" was not answered", nil)
		return
	}
	owner := topic == "me" || w.groups[topic] == u
	changesReserved := norm != nil && !reflect.DeepEqual(w.restricted(norm, w.immutable), w.restricted(before, w.immutable))
	switch {
	case owner && norm == nil:
		// no valid tag in the request: nothing to do
		w.r.Hit("tags_stored_normalised")
		if !reflect.DeepEqual(before, after) {
			w.r.Violation("set-tags-stored:"+kind, fmt.Sprintf("%s names no valid tag but stored tags changed %v -> %v (reply %d)", step, before, after, f.code()), nil)
		}
	case !owner:
		w.r.Hit("tags_only_owner")
		if f.code() < 400 || !reflect.DeepEqual(before, after) {
			w.r.Violation("set-tags:non-owner", fmt.Sprintf("%s (not the owner): code %d, tags %v -> %v", step, f.code(), before, after), nil)
		}
	case changesReserved:
		w.r.Hit("reserved_change_refused")
		if f.code() < 400 {
			w.r.Violation("reserved-change-accepted:"+kind, fmt.Sprintf("%s changes the reserved-namespace tags (%v -> %v) and was answered %d", step, w.restricted(before, w.immutable), w.restricted(norm, w.immutable), f.code()), map[string]any{"before": before, "after": after})
		}
		if !reflect.DeepEqual(before, after) {
			w.r.Violation("reserved-change-stored:"+kind, fmt.Sprintf("%s was refused (%d) but stored tags changed %v -> %v", step, f.code(), before, after), nil)
		}
	default:
		w.r.Hit("tags_stored_normalised")
		if f.code() >= 400 {
			w.r.Violation("set-tags-refused:"+kind, fmt.Sprintf("%s leaves the reserved-namespace tags as they are and was refused with %d (stored %v)", step, f.code(), before), nil)
		} else if !reflect.DeepEqual(c19Norm1(after), c19Norm1(norm)) {
			w.r.Violation("set-tags-stored:"+kind, fmt.Sprintf("%s answered %d: stored tags are %v, the normalised request is %v", step, f.code(), after, norm), nil)
		}
	}
	// what the session is told
	if ans := u.c.get(topic, "tags", nil); ans != nil && len(ans.Meta) > 0 {
		var told []string
		for _, m := range ans.Meta {
			if l, ok := m.B["tags"].([]any); ok {
				told = c19Strs(l)
			}
		}
		sort.Strings(told)
		if !reflect.DeepEqual(c19Norm1(told), c19Norm1(after)) {
			w.r.Violation("meta-tags-differ:"+kind, fmt.Sprintf("after %s {get tags} answers %v, stored %v", step, told, after), nil)
		}
		w.r.Hit("meta_tags_equal_stored")
	}
}

// stepCred: add + validate a second e-mail, or delete a validated one, then try to write the removed tag back.
func (w *c19World) stepCred(u *c19User) {
	validated := []string{}
	for e, ok := range u.emails {
		if ok {
			validated = append(validated, e)
		}
	}
	sort.Strings(validated)
	if len(validated) < 2 || w.rng.Intn(5) == 0 {
		email := fmt.Sprintf("%s.%d@example.com", strings.ToLower(u.login), w.rng.Intn(1000))
		f := u.c.set("me", map[string]any{"cred": map[string]any{"meth": "email", "val": email}})
		if f == nil || f.code() >= 400 {
			w.r.Info("cred-add-refused", frameStr(f))
			return
		}
		f = u.c.set("me", map[string]any{"cred": map[string]any{"meth": "email", "val": email, "resp": "123456"}})
		if f == nil || f.code() >= 400 {
			w.r.Info("cred-confirm-refused", frameStr(f))
			return
		}
		u.emails[email] = true
		w.r.Hit("credential_added")
		w.r.Eval("cred:add")
		w.e.vfQuiesce()
		w.checkRows(fmt.Sprintf("%s validated %s", u.name, email))
		return
	}
	victim := validated[w.rng.Intn(len(validated))]
	f := u.c.del("me", "cred", map[string]any{"cred": map[string]any{"meth": "email", "val": victim}})
	if f == nil || f.code() >= 400 {
		w.r.Info("cred-del-refused", frameStr(f))
		return
	}
	delete(u.emails, victim)
	w.r.Hit("credential_deleted")
	w.r.Eval("cred:del")
	w.e.vfQuiesce()
	w.checkRows(fmt.Sprintf("%s deleted credential %s", u.name, victim))
	// the client tries to write the removed reserved tag back, together with an ordinary change
	before, _, _ := w.userTags(u.uid)
	list := []any{"email:" + victim, fmt.Sprintf("again%d", w.rng.Intn(1000))}
	for _, t := range before {
		list = append(list, t)
	}
	f = u.c.set("me", map[string]any{"tags": list})
	w.e.vfQuiesce()
	after, _, _ := w.userTags(u.uid)
	w.r.Hit("reserved_change_refused")
	w.r.Eval("cred:del-then-write-back")
	if f == nil || f.code() < 400 || !reflect.DeepEqual(before, after) {
		w.r.Violation("reserved-change-accepted:me-after-cred-del", fmt.Sprintf("after %s deleted credential %s, {set me tags=%q} was answered %s and stored tags went %v -> %v", u.name, victim, list, frameStr(f), before, after), nil)
	}
	// and the legitimate request, which names exactly the current reserved tags, must work
	list2 := []any{fmt.Sprintf("legit%d", w.rng.Intn(1000))}
	for _, t := range w.restricted(after, w.immutable) {
		list2 = append(list2, t)
	}
	f = u.c.set("me", map[string]any{"tags": list2})
	w.e.vfQuiesce()
	after2, _, _ := w.userTags(u.uid)
	w.r.Hit("tags_stored_normalised")
	if f == nil || f.code() >= 400 || !reflect.DeepEqual(c19Norm1(after2), c19Norm1(c19RefNormalize(c19Strs(list2), globals.maxTagCount))) {
		w.r.Violation("set-tags-refused:me-after-cred-del", fmt.Sprintf("after %s deleted credential %s, {set me tags=%q} (keeping the reserved tags as stored) was answered %s; stored %v", u.name, victim, list2, frameStr(f), after2), nil)
	}
}

// stepNewGroup: {sub new} with tags.
func (w *c19World) stepNewGroup(u *c19User) {
	list, label := w.tagList(u, nil)
	if label == "null" || label == "drops-reserved" || label == "swaps-reserved" {
		label = "keeps-reserved"
		list = []any{"Topic-Tag", " travel "}
	}
	name, f := u.c.newGroup(false, map[string]any{"public": map[string]any{"fn": "g"}})
	_ = name
	// newGroup has no tags parameter: create with the raw request instead when tags are wanted
	if f != nil && f.code() < 300 {
		w.groups[name] = u
	}
	u.c.seq++
	tmp := fmt.Sprintf("new%s%d", u.c.name, u.c.seq)
	f2 := u.c.req("sub", map[string]any{"topic": tmp, "set": map[string]any{"desc": map[string]any{"public": map[string]any{"fn": "tagged"}}, "tags": list}})
	w.e.vfQuiesce()
	w.r.Eval("new-group-tags:" + label)
	norm := c19RefNormalize(c19Strs(list), globals.maxTagCount)
	reserved := w.restricted(norm, w.immutable)
	if f2 == nil {
		w.r.Violation("new-group-unanswered", "{sub new} with tags was not answered", nil)
		return
	}
	if len(reserved) > 0 {
		w.r.Hit("reserved_change_refused")
		if f2.code() < 400 {
			w.r.Violation("reserved-change-accepted:new-grp", fmt.Sprintf("{sub new tags=%q} by %s names reserved-namespace tags %v and was answered %d", list, u.name, reserved, f2.code()), nil)
		}
	} else if f2.code() < 300 {
		gname := f2.str("topic")
		w.groups[gname] = u
		got, _ := w.topicTags(gname)
		w.r.Hit("tags_stored_normalised")
		if !reflect.DeepEqual(c19Norm1(got), c19Norm1(norm)) {
			w.r.Violation("set-tags-stored:new-grp", fmt.Sprintf("{sub new tags=%q}: stored tags %v, normalised request %v", list, got, norm), nil)
		}
	}
	w.checkRows("{sub new} with tags")
}

// stepFind: a generated query through fnd; the store must be handed the documented reading.
func (w *c19World) stepFind(u *c19User, c *vfClient, isRoot bool) {
	rng := w.rng
	rw := c19Rewrite{email: true, tel: false, login: w.basicTags}
	nt := 1 + rng.Intn(4)
	terms := make([]c19Term, nt)
	for j := range terms {
		switch rng.Intn(6) {
		case 0:
			// a term somebody carries
			if len(w.users) > 0 {
				v := w.users[rng.Intn(len(w.users))]
				terms[j] = c19Term{text: strings.ToLower(v.login) + "@example.com", class: "email"}
				if rng.Intn(2) == 0 {
					terms[j] = c19Term{text: v.login, class: "login"}
				}
			} else {
				terms[j] = c19GenTerm(rng)
			}
		case 1:
			terms[j] = c19Term{text: []string{"travel", "hiking", "кот", "go", "x1", "topic-tag"}[rng.Intn(6)], class: "generic"}
			if len([]rune(terms[j].text)) >= 4 && !strings.Contains(terms[j].text, "-") {
				terms[j].class = "login"
			}
		case 2:
			terms[j] = c19Term{text: "org:" + []string{"acme", "globex", "initech"}[rng.Intn(3)], class: "prefixed"}
		default:
			terms[j] = c19GenTerm(rng)
			if terms[j].class == "phone" {
				terms[j].class = "generic" // tel validator is not configured in the end-to-end runs
			}
		}
	}
	orSep := make([]bool, nt)
	for j := range orSep {
		orSep[j] = rng.Intn(5) < 2
	}
	q := c19Render(rng, terms, orSep)
	// every third search is a private one: the session's public query is cleared (it has priority) and the query
	// is stored as fnd.private; login-looking terms are rewritten in public queries only
	private := rng.Intn(3) == 0
	wantAnd, wantOr := c19Expect(terms, orSep, rw, !private)
	var fs *vfFrame
	if private {
		c.set("fnd", map[string]any{"desc": map[string]any{"public": "\u2421"}})
		w.e.vfQuiesce()
	}
	mark := vfRec.mark()
	if private {
		fs = c.set("fnd", map[string]any{"desc": map[string]any{"private": q}})
		w.r.Hit("private_query_not_rewritten")
	} else {
		fs = c.set("fnd", map[string]any{"desc": map[string]any{"public": q}})
	}
	if fs == nil || fs.code() >= 400 {
		w.r.Violation("fnd-set-refused", fmt.Sprintf("{set fnd public/private=%q} refused: %s", q, frameStr(fs)), nil)
		return
	}
	ans := c.get("fnd", "sub", nil)
	w.e.vfQuiesce()
	var finds []vfStoreEv
	for _, ev := range vfRec.since(mark) {
		if ev.Op == "FindUsers" || ev.Op == "FindTopics" {
			finds = append(finds, ev)
		}
	}
	w.r.Hit("search_executed")
	who := "user"
	if isRoot {
		who = "root"
	}
	w.r.Eval(fmt.Sprintf("find:%s:terms=%d,or=%v", who, nt, strings.Contains(q, ",")))
	code := 0
	if ans != nil && ans.Ctrl != nil {
		code = ans.Ctrl.code()
	}
	step := fmt.Sprintf("fnd query %q (private: %v) by %s", q, private, c.name)

	// masked namespaces: only with tags the searcher carries
	var carried []string
	if u != nil {
		carried, _, _ = w.userTags(u.uid)
	}
	var all []string
	for _, g := range wantAnd {
		all = append(all, g...)
	}
	all = append(all, wantOr...)
	foreignMasked := []string{}
	for _, t := range w.restricted(all, w.masked) {
		if !c19Contains(carried, t) {
			foreignMasked = append(foreignMasked, t)
		}
	}
	if len(foreignMasked) > 0 {
		w.r.Hit("masked_refused")
		if len(finds) > 0 || (code != 0 && code < 400) {
			w.r.Violation("masked-search-allowed", fmt.Sprintf("%s names masked-namespace tags %v which the searcher does not carry (carries %v): answered %d, %d store searches made", step, foreignMasked, carried, code, len(finds)), nil)
		}
		return
	}
	if len(w.restricted(all, w.masked)) > 0 {
		if len(finds) == 0 {
			w.r.HitN("masked_carried_refused_observation", 1)
		} else {
			w.r.Hit("masked_carried_allowed")
		}
	}
	if len(wantAnd) == 0 && len(wantOr) == 0 {
		w.r.Hit("empty_query_refused")
		if len(finds) > 0 {
			w.r.Violation("empty-query-searched", fmt.Sprintf("%s has no valid term but the store was searched with %v", step, finds[0].Args), nil)
		}
		return
	}
	if len(finds) == 0 {
		if len(w.restricted(all, w.masked)) > 0 {
			return // carried masked tag refused: stricter than the property asks for, recorded as an observation
		}
		w.r.Violation("query-not-executed", fmt.Sprintf("%s was not handed to the store (reply %d)", step, code), nil)
		return
	}
	for _, ev := range finds {
		gotAnd, _ := ev.Args["req"].([][]string)
		gotOr, _ := ev.Args["opt"].([]string)
		if !reflect.DeepEqual(c19Norm2(gotAnd), c19Norm2(wantAnd)) || !reflect.DeepEqual(c19Norm1(gotOr), c19Norm1(wantOr)) {
			kind := "terms"
			if len(q) != len([]rune(q)) {
				kind = "terms-nonascii"
			}
			w.r.Violation("query-misread:"+kind, fmt.Sprintf("%s reached %s as required=%v optional=%v; the documented reading is required=%v optional=%v", step, ev.Op, gotAnd, gotOr, wantAnd, wantOr), map[string]any{"query": q})
			break
		}
		w.r.Hit("store_terms_as_documented")
		active, _ := ev.Args["activeOnly"].(bool)
		if active == isRoot {
			w.r.Violation("active-only-flag", fmt.Sprintf("%s: %s called with activeOnly=%v for a %s session", step, ev.Op, active, who), nil)
		}
	}
	// results: no suspended / deleted account or topic for ordinary users; every result matches the query
	if ans != nil {
		for _, m := range ans.Meta {
			subs, _ := m.B["sub"].([]any)
			for _, s := range subs {
				sm, _ := s.(map[string]any)
				w.r.Hit("result_checked")
				var tags []string
				var state types.ObjState
				found := false
				label := ""
				if tn, _ := sm["topic"].(string); tn != "" {
					label = tn
					vfmem.A.View(func(db *vfmem.DB) {
						if t := db.Topics[types.ChnToGrp(tn)]; t != nil {
							tags, state, found = t.Tags, t.State, true
						}
					})
				} else if un, _ := sm["user"].(string); un != "" {
					label = un
					vfmem.A.View(func(db *vfmem.DB) {
						if usr := db.Users[types.ParseUserId(un)]; usr != nil {
							tags, state, found = usr.Tags, usr.State, true
						}
					})
				}
				if !found {
					w.r.Violation("result-unknown", fmt.Sprintf("%s returned %v which is not a stored account or topic", step, sm), nil)
					continue
				}
				if !isRoot && state != types.StateOK {
					w.r.Violation("inactive-shown", fmt.Sprintf("%s (ordinary user) returned %s whose state is %v", step, label, state), nil)
				}
				if isRoot && state != types.StateOK {
					w.r.Hit("root_sees_inactive")
				}
				if !c19Match(tags, wantAnd, wantOr) {
					w.r.Violation("result-not-matching", fmt.Sprintf("%s returned %s whose tags %v do not satisfy required=%v optional=%v", step, label, tags, wantAnd, wantOr), nil)
				}
			}
		}
	}
}

// c19Match: the documented meaning of (required, optional): every required group has a member among the tags,
// and at least one query term is present.
func c19Match(tags []string, and [][]string, or []string) bool {
	has := map[string]bool{}
	for _, t := range tags {
		has[t] = true
	}
	any := false
	for _, g := range and {
		ok := false
		for _, x := range g {
			if has[x] {
				ok = true
				any = true
			}
		}
		if !ok {
			return false
		}
	}
	for _, x := range or {
		if has[x] {
			any = true
		}
	}
	return any
}

func TestVfC19(t *testing.T) {
	r := vfkit.New("C19")
	defer r.Finish()
	basicTags := r.Batch()%2 == 0
	e := vfBoot(vfConfig{EmailVal: true, MaskedNS: []string{"org"}, MaxTags: 8, BasicNoTags: !basicTags})
	vfInstallRecorder(e)
	rng := r.Rand(190)
	r.Info("basic_add_to_tags", basicTags)

	c19Parser(r, rng, basicTags)
	c19Normalize(r, rng)

	// end to end
	globals.maxTagCount = 8
	w := &c19World{e: e, r: r, rng: rng, basicTags: basicTags, groups: map[string]*c19User{}, immutable: map[string]bool{}, masked: map[string]bool{"org": true}}
	for ns := range globals.immutableTagNS {
		w.immutable[ns] = true
	}
	if w.immutable["basic"] != basicTags || !w.immutable["email"] {
		r.Inconclusive(fmt.Sprintf("reserved namespaces are %v, expected email and basic=%v", w.immutable, basicTags))
		return
	}
	rootUid, _ := vfMkUser(auth.LevelRoot, map[string]any{"fn": "root"}, nil)
	w.root = e.connect("c19-root", rootUid, vfToken(rootUid, auth.LevelRoot, 0), false)
	w.root.sub("fnd", nil)

	rounds := r.Pick(3, 12)
	for round := 0; round < rounds; round++ {
		// accounts: creation with tags (reserved ones must be refused)
		{
			c := e.dial(fmt.Sprintf("c19-bad%d", round))
			c.hi(false)
			bad := []any{"travel", []string{"email:boss@example.com", "basic:admin", " EMAIL:x@y.com "}[rng.Intn(3)]}
			f := c.req("acc", map[string]any{"user": "new", "scheme": "basic", "secret": c19Secret(fmt.Sprintf("badguy%d%d", round, r.Batch()), "password1"), "tags": bad,
				"cred": []any{map[string]any{"meth": "email", "val": fmt.Sprintf("bad%d@example.com", round)}}})
			r.Hit("reserved_change_refused")
			r.Eval("acc:reserved-tags")
			reservedNamed := len(w.restricted(c19RefNormalize(c19Strs(bad), 8), w.immutable)) > 0
			if reservedNamed && (f == nil || f.code() < 400) {
				r.Violation("reserved-change-accepted:acc", fmt.Sprintf("{acc new tags=%q} was answered %s", bad, frameStr(f)), nil)
			}
			c.close()
		}
		u1 := w.newUser([]any{"Travel", " hiking ", "travel", "x", "org:acme"})
		u2 := w.newUser([]any{"кот", "GO", "#bad", "org:globex"})
		u3 := w.newUser(nil)
		if u1 == nil || u2 == nil || u3 == nil {
			return
		}
		e.vfQuiesce()
		w.checkRows("account creation")
		us := []*c19User{u1, u2, u3}
		var grp string
		{
			name, f := u1.c.newGroup(false, map[string]any{"public": map[string]any{"fn": "club"}})
			if f != nil && f.code() < 300 {
				grp = name
				w.groups[name] = u1
				u2.c.sub(name, nil)
			}
		}
		steps := r.Pick(30, 60)
		for s := 0; s < steps; s++ {
			u := us[rng.Intn(3)]
			switch k := rng.Intn(20); {
			case k < 6:
				w.stepSetTags(u, "me")
			case k < 9:
				if grp != "" {
					w.stepSetTags(us[rng.Intn(2)], grp)
				}
			case k < 12:
				w.stepCred(u)
			case k < 13:
				w.stepNewGroup(u)
			case k < 17:
				w.stepFind(u, u.c, false)
			case k < 19:
				w.stepFind(nil, w.root, true)
			default:
				// root suspends / restores an account or the searcher reloads me+fnd
				if rng.Intn(2) == 0 {
					v := us[rng.Intn(3)]
					st := []string{"susp", "ok"}[rng.Intn(2)]
					f := w.root.req("acc", map[string]any{"user": v.uid.UserId(), "status": st})
					r.Eval("root:state:" + st)
					if f == nil || f.code() >= 400 {
						r.Info("state-change-refused", frameStr(f))
					}
					if st == "susp" {
						// a suspended account's sessions are dropped: reconnect lazily is not possible (login refused), restore right away half of the time
						e.vfQuiesce()
						w.stepFind(nil, w.root, true)
						for _, o := range us {
							if o != v && !o.c.isClosed() {
								w.stepFind(o, o.c, false)
								break
							}
						}
						w.root.req("acc", map[string]any{"user": v.uid.UserId(), "status": "ok"})
						if v.c.isClosed() {
							c := e.dial(fmt.Sprintf("c19-%s-r%d", v.name, s))
							c.hi(false)
							if f := c.req("login", map[string]any{"scheme": "basic", "secret": c19Secret(v.login, v.pass)}); f != nil && f.code() == 200 {
								c.uid = v.uid
								c.sub("me", nil)
								c.sub("fnd", nil)
								if grp != "" && (v == u1 || v == u2) {
									c.sub(grp, nil)
								}
								v.c = c
							}
						}
					}
				} else {
					u.c.leave("me", false)
					u.c.leave("fnd", false)
					e.vfQuiesce()
					e.vfWaitUnloaded(u.uid.UserId(), u.uid.FndName())
					u.c.sub("me", nil)
					u.c.sub("fnd", nil)
					r.Hit("reload_between_steps")
					r.Eval("reload")
				}
			}
			if u.c.isClosed() {
				break
			}
			e.vfQuiesce()
			w.checkRows(fmt.Sprintf("round %d step %d", round, s))
		}
		for _, u := range us {
			u.c.close()
		}
		e.vfQuiesce()
	}
	w.root.close()
}
