//go:build verif

package main

import (
	"bytes"
	"crypto/hmac"
	"crypto/md5"
	"crypto/sha256"
	"encoding/base64"
	"encoding/binary"
	"fmt"
	"sync"
	"sync/atomic"
	"testing"
	"time"

	"github.com/tinode/chat/server/auth"
	"github.com/tinode/chat/server/store"
	"github.com/tinode/chat/server/store/types"
	"github.com/tinode/chat/server/vfkit"
)

// ---- C12: secrets cannot be forged, outlive their validity, or be guessed by brute force.

// c12Forge builds a token with an independent implementation of the documented layout:
// little-endian uid u64 | expires u32 | level u16 | serial u16 | features u16 | HMAC-SHA256 over these 18 bytes.
func c12Forge(key []byte, uid uint64, expires uint32, level, serial, features uint16) []byte {
	b := make([]byte, 18)
	binary.LittleEndian.PutUint64(b[0:], uid)
	binary.LittleEndian.PutUint32(b[8:], expires)
	binary.LittleEndian.PutUint16(b[12:], level)
	binary.LittleEndian.PutUint16(b[14:], serial)
	binary.LittleEndian.PutUint16(b[16:], features)
	h := hmac.New(sha256.New, key)
	h.Write(b)
	return append(b, h.Sum(nil)...)
}

func TestVfC12(t *testing.T) {
	r := vfkit.New("C12")
	defer r.Finish()
	e := vfBoot(vfConfig{CodeRetries: 3})
	_ = e
	rng := r.Rand(1)
	th := store.Store.GetLogicalAuthHandler("token")
	key, _ := base64.StdEncoding.DecodeString(vfTokenKey)

	// ---- tokens
	ntok := r.Pick(40, 300)
	for i := 0; i < ntok; i++ {
		uid := types.Uid(rng.Uint64() | 1)
		lvl := []auth.Level{auth.LevelAnon, auth.LevelAuth, auth.LevelRoot}[rng.Intn(3)]
		feat := auth.Feature(rng.Intn(4))
		rec := &auth.Rec{Uid: uid, AuthLevel: lvl, Features: feat}
		if rng.Intn(2) == 0 {
			rec.Lifetime = auth.Duration(time.Duration(1+rng.Intn(1000)) * time.Hour)
		}
		tok, _, err := th.GenSecret(rec)
		if err != nil {
			r.Violation("token-gen-failed", err.Error(), nil)
			continue
		}
		got, _, err := th.Authenticate(tok, "")
		r.Hit("token_roundtrip")
		if err != nil || got.Uid != uid || got.AuthLevel != lvl || got.Features != feat {
			r.Violation("token-roundtrip", fmt.Sprintf("issued (%v,%v,%v) authenticated as %+v err=%v", uid, lvl, feat, got, err), nil)
		}
		// every single-bit flip
		for bit := 0; bit < len(tok)*8; bit++ {
			m := append([]byte{}, tok...)
			m[bit/8] ^= 1 << uint(bit%8)
			rec, _, err := th.Authenticate(m, "")
			r.Hit("token_bitflip_refused")
			if err == nil {
				r.Violation(fmt.Sprintf("token-bitflip-accepted:byte-%d", bit/8), fmt.Sprintf("token with bit %d flipped authenticated as %+v", bit, rec), map[string]any{"token": tok, "bit": bit})
			}
		}
		// every truncation
		for n := 0; n < len(tok); n++ {
			_, _, err := th.Authenticate(tok[:n], "")
			r.Hit("token_truncation_refused")
			if err == nil {
				r.Violation(fmt.Sprintf("token-truncated-accepted:len-%d", n), "truncated token accepted", nil)
			}
		}
		// extensions: refused, or the identical record
		ext := append(append([]byte{}, tok...), byte(rng.Intn(256)), byte(rng.Intn(256)))
		if rec2, _, err := th.Authenticate(ext, ""); err == nil {
			r.Hit("token_extension_identical")
			if rec2.Uid != uid || rec2.AuthLevel != lvl || rec2.Features != feat {
				r.Violation("token-extension-changed-identity", "extended token yields a different record", nil)
			}
		}
		// random multi-bit mutations
		for k := 0; k < 20; k++ {
			m := append([]byte{}, tok...)
			for j := 0; j < 2+rng.Intn(6); j++ {
				m[rng.Intn(len(m))] ^= byte(1 + rng.Intn(255))
			}
			if bytes.Equal(m, tok) {
				continue
			}
			if _, _, err := th.Authenticate(m, ""); err == nil {
				r.Violation("token-mutation-accepted", "mutated token accepted", map[string]any{"token": tok, "mutated": m})
			}
		}
		r.Eval(fmt.Sprintf("tok/%v/%v/%v", lvl, feat, rec.Lifetime != 0))
	}
	// ---- the authenticators serve all sessions at once: genuine tokens and forgeries (a genuine token's fields
	// rewritten to another user at root level, its signature kept) are presented concurrently; a forgery must
	// never pass and a genuine token must never fail, whatever the interleaving
	{
		gen, _, err := th.GenSecret(&auth.Rec{Uid: types.Uid(0x1111111111111111), AuthLevel: auth.LevelAuth})
		if err == nil && len(gen) >= 18 {
			forged := append([]byte{}, gen...)
			for i := 0; i < 8; i++ {
				forged[i] = byte(0x22 + i)
			}
			forged[12], forged[13] = byte(auth.LevelRoot), 0
			var wg sync.WaitGroup
			var forgedOK, genuineBad, calls int64
			iters := r.Pick(20000, 200000)
			for g := 0; g < 8; g++ {
				wg.Add(1)
				go func(g int) {
					defer wg.Done()
					for i := 0; i < iters && atomic.LoadInt64(&forgedOK) == 0 && atomic.LoadInt64(&genuineBad) == 0; i++ {
						atomic.AddInt64(&calls, 1)
						if g%2 == 0 {
							if rec, _, err := th.Authenticate(gen, ""); err != nil || rec.Uid != types.Uid(0x1111111111111111) || rec.AuthLevel != auth.LevelAuth {
								atomic.AddInt64(&genuineBad, 1)
							}
						} else if _, _, err := th.Authenticate(forged, ""); err == nil {
							atomic.AddInt64(&forgedOK, 1)
						}
					}
				}(g)
			}
			wg.Wait()
			r.Hit("token_concurrent_authentication")
			r.EvalN(atomic.LoadInt64(&calls))
			if forgedOK > 0 {
				r.Violation("token-forgery-accepted:concurrent", fmt.Sprintf("a token rewritten to another user at root level (signature of a genuine token) was accepted while genuine tokens were being checked concurrently (after %d calls)", calls), nil)
			}
			if genuineBad > 0 {
				r.Violation("token-genuine-refused:concurrent", fmt.Sprintf("a genuine token was refused or mis-read while other tokens were being checked concurrently (after %d calls)", calls), nil)
			}
		}
	}
	// forged with the independent implementation
	farFuture := uint32(time.Date(2090, 1, 1, 0, 0, 0, 0, time.UTC).Unix())
	past := uint32(time.Date(2020, 1, 1, 0, 0, 0, 0, time.UTC).Unix())
	for i := 0; i < r.Pick(50, 500); i++ {
		uid := rng.Uint64() | 1
		good := c12Forge(key, uid, farFuture, uint16(auth.LevelAuth), 1, 0)
		rec, _, err := th.Authenticate(good, "")
		r.Hit("forged_right_key_accepted")
		if err != nil || uint64(rec.Uid) != uid || rec.AuthLevel != auth.LevelAuth {
			r.Violation("token-layout-changed", fmt.Sprintf("token built per the documented layout with the right key and serial is refused: %v", err), nil)
		}
		foreign := append([]byte{}, key...)
		foreign[rng.Intn(len(foreign))] ^= 0x40
		cases := map[string][]byte{
			"foreign-key":  c12Forge(foreign, uid, farFuture, uint16(auth.LevelAuth), 1, 0),
			"wrong-serial": c12Forge(key, uid, farFuture, uint16(auth.LevelAuth), 2, 0),
			"expired":      c12Forge(key, uid, past, uint16(auth.LevelAuth), 1, 0),
			"level-beyond": c12Forge(key, uid, farFuture, 99, 1, 0),
		}
		for name, tok := range cases {
			r.Hit("forged_" + name + "_refused")
			if rec, _, err := th.Authenticate(tok, ""); err == nil {
				r.Violation("token-forged-accepted:"+name, fmt.Sprintf("%s token accepted as %+v", name, rec), nil)
			}
		}
	}
	r.Eval("forged-tokens")

	// ---- API key
	salt, _ := base64.StdEncoding.DecodeString(vfSaltB64)
	mkKey := func(s []byte, root bool, seq int) []byte {
		data := make([]byte, apikeyLength)
		data[0] = 1
		data[4] = 7
		data[5], data[6] = byte(seq>>8), byte(seq)
		if root {
			data[7] = 1
		}
		h := hmac.New(md5.New, s)
		h.Write(data[:8])
		copy(data[8:], h.Sum(nil))
		return data
	}
	for i := 0; i < r.Pick(100, 1000); i++ {
		root := rng.Intn(2) == 0
		k := mkKey(salt, root, rng.Intn(65536))
		valid, isRoot := checkAPIKey(base64.URLEncoding.EncodeToString(k))
		r.Hit("apikey_valid_accepted")
		if !valid || isRoot != root {
			r.Violation("apikey-valid-refused", "API key signed with the configured salt refused", nil)
		}
		other := append([]byte{}, salt...)
		other[rng.Intn(len(other))] ^= 1
		r.Hit("apikey_foreign_refused")
		if v, _ := checkAPIKey(base64.URLEncoding.EncodeToString(mkKey(other, root, 5))); v {
			r.Violation("apikey-foreign-accepted", "API key signed with another salt accepted", nil)
		}
		for bit := 0; bit < len(k)*8; bit++ {
			m := append([]byte{}, k...)
			m[bit/8] ^= 1 << uint(bit%8)
			r.Hit("apikey_bitflip_refused")
			if v, _ := checkAPIKey(base64.URLEncoding.EncodeToString(m)); v {
				r.Violation(fmt.Sprintf("apikey-bitflip-accepted:byte-%d", bit/8), "API key with a flipped bit accepted", map[string]any{"bit": bit})
			}
		}
	}
	alpha := "ABCDEFGHIJKLMNOPQRSTUVWXYZabcdefghijklmnopqrstuvwxyz0123456789-_=+/ "
	for n := 0; n <= 64; n++ {
		for k := 0; k < r.Pick(20, 200); k++ {
			b := make([]byte, n)
			for i := range b {
				b[i] = alpha[rng.Intn(len(alpha))]
			}
			r.Hit("apikey_random_refused")
			if v, _ := checkAPIKey(string(b)); v {
				r.Violation("apikey-random-accepted", fmt.Sprintf("random string %q accepted as API key", b), nil)
			}
		}
	}
	r.Eval("apikeys")

	// ---- reset codes: accepted at most once, never after max_retries wrong guesses, wrong code never accepted
	ch := store.Store.GetLogicalAuthHandler("code")
	const maxRetries = 3
	for i := 0; i < r.Pick(150, 1500); i++ {
		cred := fmt.Sprintf("email:user%d-%d@example.com", r.Batch(), i)
		// credentials with characters which are special to the stores (LIKE wildcards, separators, quotes)
		if shapes := []string{"", "email:carol%%sales%d-%d@example.com", "tel:+1_555_%d_%d", "email:100%%%d-%d@example.com", "email:a/b%d-%d@example.com",
			"email:o'brien%d-%d@example.com", "email:x:y%d-%d@example.com", "email:%%%%%d-%d%%@example.com"}; i%2 == 1 {
			if sh := shapes[(i/2)%len(shapes)]; sh != "" {
				cred = fmt.Sprintf(sh, r.Batch(), i)
				r.Hit("reset_code_hostile_credential")
			}
		}
		uid := types.Uid(rng.Uint64() | 1)
		codeB, _, err := ch.GenSecret(&auth.Rec{Uid: uid, AuthLevel: auth.LevelAuth, Features: auth.FeatureNoLogin, Credential: cred})
		if err != nil {
			r.Violation("code-gen-failed", err.Error(), nil)
			continue
		}
		code := string(codeB)
		wrong, consumed := 0, false
		var attempts []string
		lastWrong := ""
		n := 1 + rng.Intn(8)
		for a := 0; a < n; a++ {
			guess := code
			kind := "right"
			switch rng.Intn(4) {
			case 0, 1:
				guess = fmt.Sprintf("%06d", rng.Intn(1000000))
				if guess == code {
					guess = fmt.Sprintf("%06d", (rng.Intn(999999)+1+atoi(code))%1000000)
				}
				kind = "wrong"
				lastWrong = guess
			case 2:
				if lastWrong != "" {
					guess, kind = lastWrong, "repeat-wrong"
				}
			}
			rec, _, err := ch.Authenticate([]byte(guess+":"+cred), "")
			expect := !consumed && wrong < maxRetries && guess == code
			attempts = append(attempts, fmt.Sprintf("%s->%v", kind, err == nil))
			r.Hit("reset_code_attempt")
			if (err == nil) != expect {
				sig := "reset-code:"
				switch {
				case err == nil && guess != code:
					sig += "wrong-code-accepted:" + kind
				case err == nil && consumed:
					sig += "accepted-twice"
				case err == nil:
					sig += "accepted-after-max-retries"
				default:
					sig += "right-code-refused"
				}
				r.Violation(sig, fmt.Sprintf("code %s guess %s (%s): accepted=%v, expected %v (wrong guesses so far %d, consumed %v)", code, guess, kind, err == nil, expect, wrong, consumed),
					map[string]any{"attempts": attempts})
				break
			}
			if err == nil {
				consumed = true
				if rec.Uid != uid || rec.Features&auth.FeatureNoLogin == 0 {
					r.Violation("reset-code:wrong-identity", "accepted code yields another user or a login-capable record", nil)
				}
			} else if guess != code && !consumed && wrong < maxRetries {
				wrong++
			}
		}
		// directed: whatever the random attempts did, the right code presented now is accepted only if it has not
		// been accepted before and the retry limit has not been reached; presented once more it is refused
		for k := 0; k < 2; k++ {
			_, _, err := ch.Authenticate([]byte(code+":"+cred), "")
			expect := !consumed && wrong < maxRetries
			attempts = append(attempts, fmt.Sprintf("final-right->%v", err == nil))
			r.Hit("reset_code_attempt")
			if (err == nil) != expect {
				sig := "reset-code:right-code-refused"
				if err == nil && consumed {
					sig = "reset-code:accepted-twice"
				} else if err == nil {
					sig = "reset-code:accepted-after-max-retries"
				}
				r.Violation(sig, fmt.Sprintf("credential %q code %s: accepted=%v, expected %v (wrong guesses %d, consumed %v)", cred, code, err == nil, expect, wrong, consumed),
					map[string]any{"attempts": attempts, "credential": cred})
				break
			}
			if err == nil {
				consumed = true
			}
		}
		r.Eval("code/" + vfkit.Hash(attempts))
	}

	// ---- basic: wrong password / unknown login never authenticate; logins unique regardless of case
	bh := store.Store.GetLogicalAuthHandler("basic")
	nb := r.Pick(3, 12)
	for i := 0; i < nb; i++ {
		ua, _ := vfMkUser(auth.LevelAuth, nil, nil)
		ub, _ := vfMkUser(auth.LevelAuth, nil, nil)
		la, lb := fmt.Sprintf("alice%d%d", r.Batch(), i), fmt.Sprintf("bobby%d%d", r.Batch(), i)
		if _, err := bh.AddRecord(&auth.Rec{Uid: ua}, []byte(la+":alice-secret"), ""); err != nil {
			r.Violation("basic-add-failed", err.Error(), nil)
			continue
		}
		bh.AddRecord(&auth.Rec{Uid: ub}, []byte(lb+":bobby-secret"), "")
		check := func(label, secret string, want bool, wantUid types.Uid) {
			rec, _, err := bh.Authenticate([]byte(secret), "")
			r.Hit("basic_" + label)
			if (err == nil) != want || (want && rec.Uid != wantUid) {
				r.Violation("basic:"+label, fmt.Sprintf("Authenticate(%q): err=%v rec=%+v, expected success=%v", secret, err, rec, want), nil)
			}
		}
		check("right-password", la+":alice-secret", true, ua)
		check("case-insensitive-login", upperFirst(la)+":alice-secret", true, ua)
		check("wrong-password", la+":alice-secreT", false, 0)
		check("wrong-password", la+":", false, 0)
		check("other-users-password", la+":bobby-secret", false, 0)
		check("unknown-login", "nosuch"+la+":alice-secret", false, 0)
		// a password may contain the separator: only the whole of it authenticates
		ud, _ := vfMkUser(auth.LevelAuth, nil, nil)
		ld := fmt.Sprintf("dora%d%d", r.Batch(), i)
		if _, err := bh.AddRecord(&auth.Rec{Uid: ud}, []byte(ld+":correct:horse:battery"), ""); err == nil {
			check("password-with-separator", ld+":correct:horse:battery", true, ud)
			for _, wrong := range []string{"correct", "correct:", "correct:horse", "correct:horse:", "correct:horse:batterx", "correct:other:battery", ":correct:horse:battery"} {
				check("password-with-separator-prefix", ld+":"+wrong, false, 0)
			}
			if _, err := bh.UpdateRecord(&auth.Rec{Uid: ud}, []byte(ld+":new:pass:word"), ""); err == nil {
				check("password-with-separator", ld+":new:pass:word", true, ud)
				check("password-with-separator-prefix", ld+":new", false, 0)
				check("password-with-separator-prefix", ld+":new:pass", false, 0)
			}
		} else {
			r.Violation("basic-add-failed", "password containing ':' refused: "+err.Error(), nil)
		}
		// uniqueness regardless of case: create, IsUnique, rename
		uc, _ := vfMkUser(auth.LevelAuth, nil, nil)
		_, err := bh.AddRecord(&auth.Rec{Uid: uc}, []byte(upperFirst(la)+":another-secret"), "")
		r.Hit("basic_unique_ignoring_case")
		if err == nil {
			r.Violation("basic:duplicate-login-created", fmt.Sprintf("login %q created while %q exists", upperFirst(la), la), nil)
		}
		if ok, _ := bh.IsUnique([]byte(upperFirst(la)+":another-secret"), ""); ok {
			r.Violation("basic:isunique-ignores-case", "IsUnique reports a login differing only in case as unique", nil)
		}
		_, err = bh.UpdateRecord(&auth.Rec{Uid: ub}, []byte(upperFirst(la)+":bobby-secret2"), "")
		r.Hit("basic_rename_unique_ignoring_case")
		if err == nil {
			r.Violation("basic:rename-to-duplicate-login", fmt.Sprintf("login of another account renamed to %q while %q exists", upperFirst(la), la), nil)
		}
		// password change with capitals in the login keeps the login usable
		if _, err := bh.UpdateRecord(&auth.Rec{Uid: ub}, []byte(upperFirst(lb)+":bobby-secret3"), ""); err == nil {
			check("login-after-password-change", lb+":bobby-secret3", true, ub)
			check("old-password-after-change", lb+":bobby-secret", false, 0)
		} else {
			r.Violation("basic:password-change-failed", err.Error(), nil)
		}
		r.Eval(fmt.Sprintf("basic/%d", i))
	}
	r.Sample(map[string]any{"token_flip": "every one of the 400 single-bit flips of each issued token", "code": "wrong, same wrong again, right"})
}

func atoi(s string) int {
	n := 0
	fmt.Sscanf(s, "%d", &n)
	return n
}

func upperFirst(s string) string {
	if s == "" {
		return s
	}
	return string(s[0]-32) + s[1:]
}
