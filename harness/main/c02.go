//go:build verif

package main

import (
	"encoding/json"
	"fmt"
	"reflect"
	"sort"
	"strings"
	"sync/atomic"
	"testing"
	"time"

	"github.com/tinode/chat/server/auth"
	"github.com/tinode/chat/server/db/vfmem"
	"github.com/tinode/chat/server/push"
	"github.com/tinode/chat/server/store/types"
	"github.com/tinode/chat/server/vfkit"
)

// ---- C02 (delivery of accepted publishes) and C03 (who may publish): one scenario engine,
// two sets of oracles. focus selects which violations are reported.

// attachState derives, from the client-boundary history alone, the set of topic names the
// session is currently attached to: acknowledged {sub} attaches, acknowledged {leave},
// an eviction notice {ctrl 205} or a closed connection detaches.
func (c *vfClient) attachState() map[string]bool {
	c.mu.Lock()
	defer c.mu.Unlock()
	att := map[string]bool{}
	if c.closed {
		return att
	}
	kindOf := map[string]string{}
	topicOf := map[string]string{}
	unsubOf := map[string]bool{}
	for _, s := range c.sends {
		for k, v := range s.Msg {
			if b, ok := v.(map[string]any); ok && (k == "sub" || k == "leave" || k == "del") {
				kindOf[s.Id] = k
				topicOf[s.Id], _ = b["topic"].(string)
				if k == "del" {
					w, _ := b["what"].(string)
					kindOf[s.Id] = "del:" + w
				}
				if u, _ := b["unsub"].(bool); u {
					unsubOf[s.Id] = true
				}
			}
		}
	}
	for _, f := range c.frames {
		if f.Kind != "ctrl" {
			continue
		}
		id, code, topic := f.str("id"), f.code(), f.str("topic")
		switch {
		case id != "" && kindOf[id] == "sub" && code < 400 && code >= 200:
			if topic == "" {
				topic = topicOf[id]
			}
			// a {sub} whose resulting mode (reported in params.acs) lacks J is acknowledged but does not attach
			joined := true
			if acs, ok := f.params()["acs"].(map[string]any); ok {
				if m, ok := acs["mode"].(string); ok && !strings.Contains(m, "J") {
					joined = false
				}
			}
			if joined {
				att[topic] = true
			}
		case id != "" && kindOf[id] == "leave" && code >= 200 && code < 300:
			if topic == "" {
				topic = topicOf[id]
			}
			delete(att, topic)
		case id != "" && kindOf[id] == "del:topic" && code >= 200 && code < 300:
			delete(att, topicOf[id])
		case code == 205:
			delete(att, topic)
		}
	}
	return att
}

type pubActor struct {
	u       *vfUser
	role    string
	cs      []*vfClient
	chanSub bool // addresses the topic by its channel name
	obo     *vfUser
	// attachedAs, when set, is the name under which the session attached acting for somebody else
	attachedAs string
}

type pubScn struct {
	w             *vfWorld
	r             *vfkit.R
	focus         string
	kind          string
	canon         string
	chn           string
	actors        []*pubActor
	owner         *pubActor
	script        []string
	tainted       map[types.Uid]bool
	noteStepFixed *[2]any
	c09st         *c09State
	onMe          bool
	readonly      bool
}

func (sc *pubScn) nameFor(a *pubActor) string {
	switch sc.kind {
	case "p2p":
		for _, o := range sc.actors {
			if (o.role == "peerA" || o.role == "peerB") && o.u != a.actingUser() {
				if a.role == "peerA" || a.role == "peerB" {
					return o.u.uid.UserId()
				}
			}
		}
		return sc.canon
	case "sys":
		return "sys"
	}
	if a.chanSub {
		return sc.chn
	}
	return sc.canon
}

func (a *pubActor) actingUser() *vfUser {
	if a.obo != nil {
		return a.obo
	}
	return a.u
}

func (a *pubActor) extra() map[string]any {
	if a.obo != nil {
		return map[string]any{"obo": a.obo.uid.UserId()}
	}
	return nil
}

func (sc *pubScn) log(f string, a ...any) { sc.script = append(sc.script, fmt.Sprintf(f, a...)) }

func (sc *pubScn) reqX(a *pubActor, c *vfClient, kind string, body map[string]any) *vfFrame {
	from := c.frameCount()
	id := c.send(kind, body, a.extra())
	return c.waitCtrl(id, from, vfReplyWait)
}

// rowsOf returns the subscription rows of the topic (group and channel spelling) keyed by user.
func (sc *pubScn) rows() (grp map[types.Uid]vfmem.SubRow, chn map[types.Uid]vfmem.SubRow, topic *vfmem.TopicRow) {
	grp, chn = map[types.Uid]vfmem.SubRow{}, map[types.Uid]vfmem.SubRow{}
	vfmem.A.View(func(db *vfmem.DB) {
		for _, s := range db.SubsOf(sc.canon) {
			grp[s.User] = s.Copy()
		}
		if sc.chn != "" {
			for _, s := range db.SubsOf(sc.chn) {
				chn[s.User] = s.Copy()
			}
		}
		if tr := db.Topics[sc.canon]; tr != nil {
			cp := *tr
			topic = &cp
		}
	})
	return
}

var pubWantModes = []string{"JRWPS", "JRWS", "JWPS", "JRPS", "JRWP", "JPS", "JRWPS"}
var pubGivenModes = []string{"JRWPS", "JWPS", "JRPS", "RWPS", "JRWPAS", "JRWS", "JRWPSD", "JRWPS"}

func pubSetup(w *vfWorld, r *vfkit.R, focus string, kind string) *pubScn {
	sc := &pubScn{w: w, r: r, focus: focus, kind: kind}
	rng := w.rng
	mk := func(role string, nsess int) *pubActor {
		a := &pubActor{u: w.user(role, auth.LevelAuth), role: role}
		for i := 0; i < nsess; i++ {
			a.cs = append(a.cs, w.conn(a.u, false))
		}
		sc.actors = append(sc.actors, a)
		return a
	}
	switch kind {
	case "grp", "chn":
		sc.owner = mk("owner", 1)
		name, f := sc.owner.cs[0].newGroup(kind == "chn", map[string]any{"public": map[string]any{"fn": "topic"}})
		if f == nil || f.code() != 200 {
			r.Inconclusive("pub setup: create failed " + frameStr(f))
			return nil
		}
		sc.canon = name
		if kind == "chn" {
			sc.chn = types.GrpToChn(name)
		}
		roles := []string{"member2", "muted", "wantNoR", "givenNoR", "wantNoW", "givenNoW", "banned", "removed", "evicted", "detached", "invited", "stranger"}
		if kind == "chn" {
			roles = append(roles, "chanReader2")
		}
		rng.Shuffle(len(roles), func(i, j int) { roles[i], roles[j] = roles[j], roles[i] })
		n := 4 + rng.Intn(4)
		if n > len(roles) {
			n = len(roles)
		}
		chosen := append([]string{"member"}, roles[:n]...)
		if kind == "chn" {
			chosen = append(chosen, "chanReader")
		}
		for _, role := range chosen {
			ns := 1
			if role == "member2" {
				ns = 2
			}
			a := mk(role, ns)
			own := sc.owner.cs[0]
			switch role {
			case "stranger":
			case "invited":
				own.set(sc.canon, map[string]any{"sub": map[string]any{"user": a.u.uid.UserId(), "mode": "JRWPS"}})
			case "chanReader", "chanReader2":
				a.chanSub = true
				a.cs[0].sub(sc.chn, nil)
			default:
				for _, c := range a.cs {
					c.sub(sc.canon, nil)
				}
				c := a.cs[0]
				switch role {
				case "muted":
					c.set(sc.canon, map[string]any{"sub": map[string]any{"mode": "JRWS"}})
				case "wantNoR":
					c.set(sc.canon, map[string]any{"sub": map[string]any{"mode": "JWPS"}})
				case "wantNoW":
					c.set(sc.canon, map[string]any{"sub": map[string]any{"mode": "JRPS"}})
				case "givenNoR":
					own.set(sc.canon, map[string]any{"sub": map[string]any{"user": a.u.uid.UserId(), "mode": "JWPS"}})
				case "givenNoW":
					own.set(sc.canon, map[string]any{"sub": map[string]any{"user": a.u.uid.UserId(), "mode": "JRPS"}})
				case "banned":
					own.set(sc.canon, map[string]any{"sub": map[string]any{"user": a.u.uid.UserId(), "mode": "RWPS"}})
				case "removed":
					c.leave(sc.canon, true)
				case "evicted":
					own.del(sc.canon, "sub", map[string]any{"user": a.u.uid.UserId()})
				case "detached":
					c.leave(sc.canon, false)
				}
			}
		}
		if rng.Intn(3) == 0 {
			// a root session attached on behalf of the plain member
			root := &pubActor{u: w.user("root", auth.LevelRoot), role: "rootObo", obo: sc.actors[1].u}
			root.cs = append(root.cs, w.conn(root.u, false))
			sc.actors = append(sc.actors, root)
			sc.reqX(root, root.cs[0], "sub", map[string]any{"topic": sc.canon})
		}
	case "p2p":
		a := mk("peerA", 1+rng.Intn(2))
		b := mk("peerB", 1+rng.Intn(2))
		mk("stranger", 1)
		sc.canon = a.u.uid.P2PName(b.u.uid)
		for _, c := range a.cs {
			c.sub(b.u.uid.UserId(), nil)
		}
		for _, c := range b.cs {
			c.sub(a.u.uid.UserId(), nil)
		}
		switch rng.Intn(6) {
		case 0:
			a.cs[0].set(b.u.uid.UserId(), map[string]any{"sub": map[string]any{"mode": "JRWA"}}) // muted
		case 1:
			b.cs[0].set(a.u.uid.UserId(), map[string]any{"sub": map[string]any{"mode": "JWPA"}}) // read-less
		case 2:
			a.cs[0].leave(b.u.uid.UserId(), true) // removed
		case 3:
			b.cs[0].leave(a.u.uid.UserId(), false) // detached
		case 4:
			a.cs[0].set(b.u.uid.UserId(), map[string]any{"sub": map[string]any{"user": b.u.uid.UserId(), "mode": "JRPA"}}) // peer write-less
		}
	case "sys":
		root := &pubActor{u: w.user("root", auth.LevelRoot), role: "root"}
		root.cs = append(root.cs, w.conn(root.u, false), w.conn(root.u, false))
		sc.actors = append(sc.actors, root)
		root.cs[0].sub("sys", nil)
		mk("user", 1)
		anon := &pubActor{u: w.user("anon", auth.LevelAnon), role: "anon"}
		anon.cs = append(anon.cs, w.conn(anon.u, false))
		sc.actors = append(sc.actors, anon)
		sc.canon = "sys"
	}
	if !w.e.vfQuiesce() {
		r.Inconclusive("pub setup: no quiescence")
		return nil
	}
	return sc
}

func (sc *pubScn) allClients() []*vfClient {
	var out []*vfClient
	for _, a := range sc.actors {
		out = append(out, a.cs...)
	}
	return out
}

func jsonNorm(v any) any {
	b, _ := json.Marshal(v)
	var out any
	json.Unmarshal(b, &out)
	return out
}

// pubStep performs one publish attempt and evaluates the C02/C03 oracles.
func (sc *pubScn) pubStep(a *pubActor, c *vfClient, stepNo int) {
	r, e, rng := sc.r, sc.w.e, sc.w.rng
	author := a.actingUser()
	tname := sc.nameFor(a)
	// occasionally address a group which is not a channel by its channel spelling: the session is not attached
	// under that name (there is no such channel)
	if sc.kind == "grp" && !a.chanSub && rng.Intn(8) == 0 {
		tname = types.GrpToChn(sc.canon)
		r.Hit("channel_spelling_of_plain_group")
	}
	content := any(fmt.Sprintf("%s#%d", c.name, stepNo))
	if rng.Intn(3) == 0 {
		content = map[string]any{"txt": fmt.Sprintf("%s#%d", c.name, stepNo), "fmt": []any{map[string]any{"at": 0, "len": 2, "tp": "ST"}}, "n": map[string]any{"deep": []any{1, "x", nil}}}
	}
	var head map[string]any
	switch rng.Intn(4) {
	case 0:
		head = map[string]any{"mime": "text/x-drafty", "sender": "usrFORGED12345"}
	case 1:
		head = map[string]any{"sender": "usrFORGED12345"}
	case 2:
		head = map[string]any{"custom": map[string]any{"k": 1.5}}
	}
	noecho := rng.Intn(3) == 0
	body := map[string]any{"topic": tname, "content": content}
	if noecho {
		body["noecho"] = true
	}
	if head != nil {
		body["head"] = head
	}

	grpRows, chnRows, topicRow := sc.rows()
	attach := map[*vfClient]map[string]bool{}
	counts := map[*vfClient]int{}
	for _, cl := range sc.allClients() {
		attach[cl] = cl.attachState()
		counts[cl] = cl.frameCount()
	}
	pushBefore := 0
	if e.push != nil {
		pushBefore = e.push.count()
	}
	mark := vfRec.mark()
	from := c.frameCount()
	id := c.send("pub", body, a.extra())
	f := c.waitCtrl(id, from, vfReplyWait)
	if !e.vfQuiesce() {
		r.Inconclusive("pub step: no quiescence")
		return
	}
	sc.log("pub by %s(%s) on %s noecho=%v -> %s", a.role, c.name, tname, noecho, codeStr(f))

	// ---- entitlement from ground truth rows + client-side attachment model
	entitled := false
	why := ""
	switch {
	case sc.kind == "sys":
		entitled = true
	default:
		row, has := grpRows[author.uid]
		if a.chanSub {
			row, has = chnRows[author.uid]
		}
		switch {
		case !attach[c][tname] && !(a.attachedAs != "" && attach[c][a.attachedAs]):
			why = "session not attached"
		case !has:
			why = "no subscription row"
		case row.DeletedAt != nil:
			why = "subscription deleted"
		case !(row.ModeWant & row.ModeGiven).IsWriter():
			why = "no W in want&given"
		case topicRow == nil || topicRow.State != types.StateOK:
			why = "topic not in OK state"
		case sc.readonly:
			why = "read-only"
		default:
			entitled = true
		}
	}
	wit := func() map[string]any {
		return map[string]any{"script": sc.script, "request": body, "reply": frameStr(f), "author": author.uid.UserId(), "role": a.role, "kind": sc.kind,
			"rows": rowsStr(grpRows, chnRows), "why_not_entitled": why}
	}
	if f == nil {
		if sc.focus == "C03" || sc.focus == "C02" {
			r.Violation("pub-unanswered:"+sc.kind+":"+a.role, "publish with an id got no reply", wit())
		}
		return
	}
	accepted := f.code() == 202
	writes := vfRec.writesSince(mark)
	r.Eval(fmt.Sprintf("%s/%s/ent=%v/noecho=%v/att=%v", sc.kind, a.role, entitled, noecho, attach[c][tname]))

	if sc.focus == "C03" {
		if accepted && !entitled {
			r.Hit("accepted_implies_entitled")
			r.Violation("accepted-not-entitled:"+sc.kind+":"+a.role+":"+why, fmt.Sprintf("publish accepted although %s", why), wit())
		}
		if accepted && entitled {
			r.Hit("accepted_implies_entitled")
		}
		if !accepted {
			r.Hit("rejected_error_reply")
			if f.code() < 400 {
				r.Violation("rejected-without-error-code:"+sc.kind+":"+a.role, fmt.Sprintf("publish not accepted but answered %d", f.code()), wit())
			}
			// no effect at all
			r.Hit("rejected_no_effect")
			for _, ev := range writes {
				r.Violation("rejected-but-store-write:"+sc.kind+":"+a.role+":"+ev.Op, fmt.Sprintf("rejected publish caused store write %s on %s", ev.Op, ev.Topic), wit())
			}
			for _, cl := range sc.allClients() {
				for _, nf := range cl.since(counts[cl]) {
					if cl == c && nf.Kind == "ctrl" && nf.str("id") == id {
						continue
					}
					r.Violation("rejected-but-traffic:"+sc.kind+":"+a.role+":"+nf.Kind, fmt.Sprintf("rejected publish caused a {%s} frame at %s: %s", nf.Kind, cl.name, nf.Raw), wit())
				}
			}
			if e.push != nil && e.push.count() != pushBefore {
				r.Violation("rejected-but-push:"+sc.kind+":"+a.role, "rejected publish caused a push notification", wit())
			}
			if entitled && (f.code() < 500 || f.code() == 500) {
				r.Hit("entitled_implies_accepted")
				r.Violation("entitled-not-accepted:"+sc.kind+":"+a.role, fmt.Sprintf("entitled publish answered %d", f.code()), wit())
			}
		} else if entitled {
			r.Hit("entitled_implies_accepted")
		}
	}
	if !accepted || sc.focus != "C02" {
		return
	}

	// ---- C02: exact recipients, unaltered copies, push addressing.
	ackSeq := 0
	if v, ok := f.params()["seq"].(float64); ok {
		ackSeq = int(v)
	}
	wantContent := jsonNorm(content)
	var wantHead map[string]any
	if head != nil {
		wantHead = map[string]any{}
		for k, v := range head {
			if k != "sender" {
				wantHead[k] = jsonNorm(v)
			}
		}
	}
	if a.obo != nil {
		if wantHead == nil {
			wantHead = map[string]any{}
		}
		wantHead["sender"] = a.u.uid.UserId()
	}
	if len(wantHead) == 0 {
		wantHead = nil
	}
	for _, ra := range sc.actors {
		for _, cl := range ra.cs {
			ru := ra.actingUser()
			rname := sc.nameFor(ra)
			eligible := false
			if attach[cl][rname] {
				if ra.chanSub {
					_, eligible = chnRows[ru.uid]
				} else if row, ok := grpRows[ru.uid]; ok && row.DeletedAt == nil && (row.ModeWant & row.ModeGiven).IsReader() {
					eligible = true
				}
			}
			if cl == c && noecho {
				eligible = false
			}
			var copies []*vfFrame
			for _, nf := range cl.since(counts[cl]) {
				if nf.Kind == "data" {
					copies = append(copies, nf)
				}
			}
			w2 := func() map[string]any {
				m := wit()
				m["recipient"] = cl.name
				m["recipient_role"] = ra.role
				m["frames"] = frames2raw(cl.since(counts[cl]))
				return m
			}
			if eligible {
				r.Hit("eligible_gets_one_copy")
				if len(copies) != 1 {
					r.Violation(fmt.Sprintf("eligible-copies-%d:%s:%s", len(copies), sc.kind, ra.role), fmt.Sprintf("session %s (%s) attached with read permission received %d copies", cl.name, ra.role, len(copies)), w2())
					continue
				}
			} else {
				r.Hit("ineligible_gets_none")
				if len(copies) != 0 {
					r.Violation("ineligible-got-copy:"+sc.kind+":"+ra.role, fmt.Sprintf("session %s (%s) must not receive the message but got %d copies", cl.name, ra.role, len(copies)), w2())
				}
				continue
			}
			d := copies[0]
			r.Hit("copy_unaltered")
			if !reflect.DeepEqual(d.B["content"], wantContent) {
				r.Violation("copy-content-altered:"+sc.kind, "delivered content differs from the published one", w2())
			}
			var gotHead map[string]any
			if h, ok := d.B["head"].(map[string]any); ok && len(h) > 0 {
				gotHead = h
			}
			if !reflect.DeepEqual(gotHead, wantHead) {
				r.Violation("copy-head-altered:"+sc.kind, fmt.Sprintf("delivered head %v, want %v", gotHead, wantHead), w2())
			}
			wantFrom := author.uid.UserId()
			if ra.chanSub {
				wantFrom = ""
			}
			if d.str("from") != wantFrom {
				r.Violation("copy-from:"+sc.kind+":"+ra.role, fmt.Sprintf("delivered from=%q want %q", d.str("from"), wantFrom), w2())
			}
			if d.num("seq") != ackSeq {
				r.Violation("copy-seq:"+sc.kind, fmt.Sprintf("delivered seq %d, acknowledged %d", d.num("seq"), ackSeq), w2())
			}
			r.Hit("copy_topic_name")
			if d.str("topic") != rname {
				r.Violation("copy-topic-name:"+sc.kind+":"+ra.role, fmt.Sprintf("recipient addresses the topic as %q but the copy names %q", rname, d.str("topic")), w2())
			}
		}
	}
	// push
	if e.push != nil {
		rcpts := e.push.snapshot()[pushBefore:]
		var msgRcpts []*push.Receipt
		for _, rc := range rcpts {
			if rc.Payload.What == push.ActMsg {
				msgRcpts = append(msgRcpts, rc)
			}
		}
		wantTo := map[string]bool{}
		for uid, row := range grpRows {
			m := row.ModeWant & row.ModeGiven
			if row.DeletedAt == nil && m.IsReader() && m.IsPresencer() {
				wantTo[uid.UserId()] = true
			}
		}
		wantChannel := ""
		if sc.kind == "chn" {
			wantChannel = sc.chn
		}
		w3 := func() map[string]any {
			m := wit()
			m["receipts"] = vfCompact(msgRcpts)
			m["want_to"] = keys(wantTo)
			return m
		}
		if len(wantTo) == 0 && wantChannel == "" {
			r.Hit("push_none_expected")
			if len(msgRcpts) != 0 {
				r.Violation("push-unexpected:"+sc.kind, "push sent though nobody is entitled", w3())
			}
		} else {
			r.Hit("push_addressing")
			if len(msgRcpts) != 1 {
				r.Violation(fmt.Sprintf("push-count-%d:%s", len(msgRcpts), sc.kind), fmt.Sprintf("%d push receipts for one accepted message", len(msgRcpts)), w3())
			} else {
				rc := msgRcpts[0]
				gotTo := map[string]bool{}
				for uid := range rc.To {
					gotTo[uid.UserId()] = true
				}
				if !reflect.DeepEqual(gotTo, wantTo) {
					extra, missing := diffSets(gotTo, wantTo)
					sig := "push-recipients:" + sc.kind
					if len(extra) > 0 {
						sig += ":extra:" + sc.roleOf(extra[0])
					} else if len(missing) > 0 {
						sig += ":missing:" + sc.roleOf(missing[0])
					}
					r.Violation(sig, fmt.Sprintf("push addressed to %v, want %v", keys(gotTo), keys(wantTo)), w3())
				}
				if rc.Channel != wantChannel {
					r.Violation("push-channel:"+sc.kind, fmt.Sprintf("push channel %q want %q", rc.Channel, wantChannel), w3())
				}
				if rc.Payload.SeqId != ackSeq {
					r.Violation("push-seq:"+sc.kind, "push seq differs from acknowledged", w3())
				}
			}
		}
	}
}

func (sc *pubScn) roleOf(userID string) string {
	for _, a := range sc.actors {
		if a.u.uid.UserId() == userID {
			return a.role
		}
	}
	return "?"
}

func keys(m map[string]bool) []string {
	var out []string
	for k := range m {
		out = append(out, k)
	}
	sort.Strings(out)
	return out
}

func diffSets(got, want map[string]bool) (extra, missing []string) {
	for k := range got {
		if !want[k] {
			extra = append(extra, k)
		}
	}
	for k := range want {
		if !got[k] {
			missing = append(missing, k)
		}
	}
	sort.Strings(extra)
	sort.Strings(missing)
	return
}

func codeStr(f *vfFrame) string {
	if f == nil {
		return "no reply"
	}
	return fmt.Sprint(f.code())
}

func rowsStr(grp, chn map[types.Uid]vfmem.SubRow) []string {
	var out []string
	for uid, r := range grp {
		out = append(out, fmt.Sprintf("%s want=%s given=%s deleted=%v", uid.UserId(), r.ModeWant, r.ModeGiven, r.DeletedAt != nil))
	}
	for uid, r := range chn {
		out = append(out, fmt.Sprintf("chn %s want=%s given=%s deleted=%v", uid.UserId(), r.ModeWant, r.ModeGiven, r.DeletedAt != nil))
	}
	sort.Strings(out)
	return out
}

// pubMutate performs a random permission or attachment change.
func (sc *pubScn) pubMutate() {
	rng := sc.w.rng
	if sc.kind == "sys" {
		return
	}
	a := sc.actors[rng.Intn(len(sc.actors))]
	if a.role == "stranger" || a.role == "rootObo" || a.role == "owner" || a.chanSub {
		return
	}
	c := a.cs[rng.Intn(len(a.cs))]
	name := sc.nameFor(a)
	switch rng.Intn(5) {
	case 0:
		// NB: the session may be detached: then the request reaches the topic through the hub.
		m := pubWantModes[rng.Intn(len(pubWantModes))]
		if sc.kind == "p2p" {
			m = strings.NewReplacer("S", "A").Replace(m)
		}
		f := c.set(name, map[string]any{"sub": map[string]any{"mode": m}})
		sc.log("%s sets own want %s -> %s", a.role, m, codeStr(f))
	case 1:
		if sc.owner != nil {
			m := pubGivenModes[rng.Intn(len(pubGivenModes))]
			f := sc.owner.cs[0].set(sc.canon, map[string]any{"sub": map[string]any{"user": a.u.uid.UserId(), "mode": m}})
			sc.log("owner sets given of %s to %s -> %s", a.role, m, codeStr(f))
		}
	case 2:
		f := c.leave(name, false)
		sc.log("%s(%s) leaves -> %s", a.role, c.name, codeStr(f))
	case 3:
		f := c.sub(name, nil)
		sc.log("%s(%s) subscribes -> %s", a.role, c.name, codeStr(f))
	case 4:
		if rng.Intn(3) == 0 {
			f := c.leave(name, true)
			sc.log("%s(%s) unsubscribes -> %s", a.role, c.name, codeStr(f))
		}
	}
	sc.w.e.vfQuiesce()
}

// reload detaches every attached session, waits for the idle topic to be unloaded and re-attaches
// them in a random order (channel readers first in half of the cases).
func (sc *pubScn) reload() {
	rng, e := sc.w.rng, sc.w.e
	type att struct {
		a *pubActor
		c *vfClient
	}
	var was []att
	for _, a := range sc.actors {
		name := sc.nameFor(a)
		for _, c := range a.cs {
			if c.attachState()[name] {
				was = append(was, att{a, c})
				sc.reqX(a, c, "leave", map[string]any{"topic": name})
			}
		}
	}
	e.vfQuiesce()
	if !e.vfWaitUnloaded(sc.canon) {
		sc.r.Inconclusive("pub reload: topic not unloaded")
		return
	}
	sc.r.Hit("reload_between_publishes")
	rng.Shuffle(len(was), func(i, j int) { was[i], was[j] = was[j], was[i] })
	if rng.Intn(3) > 0 {
		sort.SliceStable(was, func(i, j int) bool { return was[i].a.chanSub && !was[j].a.chanSub })
	}
	var order []string
	for _, x := range was {
		f := sc.reqX(x.a, x.c, "sub", map[string]any{"topic": sc.nameFor(x.a)})
		order = append(order, x.a.role+":"+codeStr(f))
	}
	e.vfQuiesce()
	sc.log("all sessions left, topic unloaded, re-attached in order %v", order)
}

func pubScenario(w *vfWorld, r *vfkit.R, focus string, idx int) {
	kinds := []string{"grp", "chn", "p2p", "grp", "sys", "chn"}
	kind := kinds[(idx+r.Batch())%len(kinds)]
	sc := pubSetup(w, r, focus, kind)
	if sc == nil {
		return
	}
	rng := w.rng
	steps := 5 + rng.Intn(6)
	reloadAt := -1
	if kind != "sys" && (rng.Intn(2) == 0 || kind == "chn") {
		reloadAt = 1 + rng.Intn(3)
	}
	for i := 0; i < steps; i++ {
		if i == reloadAt {
			sc.reload()
		}
		if rng.Intn(3) == 0 {
			sc.pubMutate()
		}
		a := sc.actors[rng.Intn(len(sc.actors))]
		c := a.cs[rng.Intn(len(a.cs))]
		sc.pubStep(a, c, i)
	}
	// a subscriber drops W from the own requested mode through a session which is not attached, naming itself
	// explicitly, while the topic is loaded; then publishes through an attached session
	if focus == "C03" && (kind == "grp" || kind == "chn") {
		for _, a := range sc.actors {
			if a.role != "member" || a.obo != nil {
				continue
			}
			rows, _, _ := sc.rows()
			row, ok := rows[a.u.uid]
			if !ok || row.DeletedAt != nil {
				break
			}
			c := a.cs[0]
			if !c.attachState()[sc.canon] {
				c.sub(sc.canon, nil)
				w.e.vfQuiesce()
			}
			side := w.conn(a.u, false)
			mode := (row.ModeWant &^ types.ModeWrite).String()
			f := side.set(sc.canon, map[string]any{"sub": map[string]any{"user": a.u.uid.UserId(), "mode": mode}})
			w.e.vfQuiesce()
			sc.log("member sets own mode to %s naming itself, through an unattached session -> %s", mode, codeStr(f))
			r.Hit("own_mode_changed_by_unattached_session_naming_self")
			sc.pubStep(a, c, 105)
			side.close()
			break
		}
	}
	// a participant unsubscribes and publishes again through the very session which asked to unsubscribe
	if kind != "sys" {
		for _, a := range sc.actors {
			if a.role != "member" && a.role != "peerA" {
				continue
			}
			c := a.cs[len(a.cs)-1]
			name := sc.nameFor(a)
			if !c.attachState()[name] {
				c.sub(name, nil)
				w.e.vfQuiesce()
			}
			if c.attachState()[name] {
				f := c.leave(name, true)
				w.e.vfQuiesce()
				sc.log("%s unsubscribes through session %s -> %s, then publishes through the same session", a.role, c.name, codeStr(f))
				r.Hit("publish_after_unsubscribe_same_session")
				sc.pubStep(a, c, 100)
				if kind == "p2p" {
					// a root session attached on behalf of the remaining participant publishes on behalf of the
					// removed one: the author has no subscription any more
					var pb *pubActor
					for _, b := range sc.actors {
						if b.role == "peerB" {
							pb = b
						}
					}
					if grpRows, _, _ := sc.rows(); pb != nil && grpRows[a.u.uid].DeletedAt != nil {
						root := w.user("root", auth.LevelRoot)
						rc := w.conn(root, false)
						fr := rc.waitCtrl(rc.send("sub", map[string]any{"topic": sc.canon}, map[string]any{"obo": pb.u.uid.UserId()}), 0, vfReplyWait)
						w.e.vfQuiesce()
						sc.log("root attaches on behalf of peerB -> %s, then publishes on behalf of the removed peerA", codeStr(fr))
						ra := &pubActor{u: root, obo: a.u, role: "rootOboRemoved", cs: []*vfClient{rc}}
						// the session is attached (on behalf of peerB) under whatever name the reply carried
						for n := range rc.attachState() {
							ra.attachedAs = n
						}
						sc.actors = append(sc.actors, ra)
						r.Hit("root_on_behalf_of_removed_author")
						sc.pubStep(ra, rc, 104)
						rc.waitCtrl(rc.send("leave", map[string]any{"topic": sc.canon}, map[string]any{"obo": pb.u.uid.UserId()}), 0, vfReplyWait)
						sc.actors = sc.actors[:len(sc.actors)-1]
						rc.close()
						w.e.vfQuiesce()
					}
					// the other participant re-creates the removed subscription, its user attaches again: copies
					// must still name the topic as each recipient addresses it
					for _, b := range sc.actors {
						if b.role != "peerB" {
							continue
						}
						bn := sc.nameFor(b)
						if !b.cs[0].attachState()[bn] {
							b.cs[0].sub(bn, nil)
						}
						f2 := b.cs[0].set(bn, map[string]any{"sub": map[string]any{"user": a.u.uid.UserId(), "mode": "JRWPA"}})
						w.e.vfQuiesce()
						f3 := c.sub(name, nil)
						w.e.vfQuiesce()
						sc.log("peerB re-creates peerA's subscription -> %s, peerA attaches again -> %s", codeStr(f2), codeStr(f3))
						r.Hit("p2p_subscription_recreated_by_peer")
						sc.pubStep(b, b.cs[0], 101)
						sc.pubStep(a, c, 102)
					}
				}
			}
			break
		}
	}
	// a channel none of whose full subscribers is entitled to an individual push: readers are still reached
	// through the channel's broadcast address
	if kind == "chn" && focus == "C02" {
		grpRows, _, _ := sc.rows()
		for _, a := range sc.actors {
			row, ok := grpRows[a.actingUser().uid]
			if a.chanSub || !ok || row.DeletedAt != nil {
				continue
			}
			if m := row.ModeWant & row.ModeGiven; m.IsReader() && m.IsPresencer() {
				f := sc.reqX(a, a.cs[0], "set", map[string]any{"topic": sc.nameFor(a), "sub": map[string]any{"mode": (row.ModeWant &^ types.ModePres).String()}})
				sc.log("%s mutes the channel -> %s", a.role, codeStr(f))
			}
		}
		w.e.vfQuiesce()
		grpRows, _, _ = sc.rows()
		nobody := true
		for _, row := range grpRows {
			if m := row.ModeWant & row.ModeGiven; row.DeletedAt == nil && m.IsReader() && m.IsPresencer() {
				nobody = false
			}
		}
		if nobody {
			r.Hit("channel_only_push")
			if !sc.owner.cs[0].attachState()[sc.canon] {
				sc.owner.cs[0].sub(sc.canon, nil)
				w.e.vfQuiesce()
			}
			sc.pubStep(sc.owner, sc.owner.cs[0], 103)
		}
	}
	// me / fnd are never writable
	if focus == "C03" && rng.Intn(2) == 0 {
		a := sc.actors[0]
		c := a.cs[0]
		for _, tn := range []string{"me", "fnd"} {
			c.sub(tn, nil)
			w.e.vfQuiesce()
			mark := vfRec.mark()
			f := c.pub(tn, "to-self", false, nil)
			w.e.vfQuiesce()
			r.Hit("me_fnd_not_writable")
			if f == nil || f.code() < 400 {
				r.Violation("accepted-not-entitled:"+tn, "publish to "+tn+" was not rejected: "+frameStr(f), nil)
			}
			if ws := vfRec.writesSince(mark); len(ws) > 0 {
				r.Violation("rejected-but-store-write:"+tn, "publish to "+tn+" caused store write "+ws[0].Op, nil)
			}
		}
	}
	if idx < 2 {
		r.Sample(map[string]any{"kind": kind, "script": sc.script})
	}
}

func pubRun(t *testing.T, focus string) {
	r := vfkit.New(focus)
	defer r.Finish()
	e := vfBoot(vfConfig{Push: true, Media: true})
	vfInstallRecorder(e)
	rng := r.Rand(1)
	n := r.Pick(10, 60)
	for i := 0; i < n; i++ {
		w := vfNewWorld(e, r, rng)
		pubScenario(w, r, focus, i)
		w.closeAll()
		e.vfQuiesce()
		if i%5 == 4 {
			r.Flush(false)
		}
	}
	if focus == "C03" && r.Batch() == 0 {
		c03ReadOnlyAndDeleteRace(r, e)
	}
	if focus == "C02" {
		for i := 0; i < r.Pick(3, 10); i++ {
			c02PushBurst(r, e, i)
		}
	}
	r.Info("quiesce_timeouts", vfQStats.Timeouts)
	_ = time.Now
}

// c02PushBurst: two publishes accepted back to back while the recipients' unread counters are still being read
// from a slow store: each accepted message gets its own push addressed to the entitled subscribers.
func c02PushBurst(r *vfkit.R, e *vfEnv, idx int) {
	if e.push == nil {
		return
	}
	rng := r.Rand(int64(7700 + idx))
	w := vfNewWorld(e, r, rng)
	defer func() { w.closeAll(); e.vfQuiesce() }()
	own, mem := w.user("owner", auth.LevelAuth), w.user("member", auth.LevelAuth)
	co, cm := w.conn(own, false), w.conn(mem, false)
	name, f := co.newGroup(false, map[string]any{"public": "burst"})
	if f == nil || f.code() != 200 {
		r.Inconclusive("c02 push burst: create failed")
		return
	}
	cm.sub(name, nil)
	cm.leave(name, false)
	// unload the topic so that the users' cached counters are dropped, then load it again: the first pushes find
	// the counters not yet read
	co.leave(name, false)
	e.vfQuiesce()
	if !e.vfWaitUnloaded(name) {
		r.Inconclusive("c02 push burst: topic not unloaded")
		return
	}
	co.sub(name, nil)
	e.vfQuiesce()
	before := e.push.count()
	ioSeen := int32(0)
	vfRec.setFault(func(c *vfmem.Call) error {
		if c.Op == "UserUnreadCount" {
			atomic.AddInt32(&ioSeen, 1)
			time.Sleep(60 * time.Millisecond)
		}
		return nil
	})
	n := 2 + rng.Intn(3)
	var ids []string
	from := co.frameCount()
	for k := 0; k < n; k++ {
		ids = append(ids, co.send("pub", map[string]any{"topic": name, "content": fmt.Sprintf("burst-%d", k)}))
	}
	want := map[int]bool{}
	for _, id := range ids {
		if fr := co.waitCtrl(id, from, vfReplyWait); fr != nil && fr.code() == 202 {
			if v, ok := fr.params()["seq"].(float64); ok {
				want[int(v)] = true
			}
		}
	}
	e.vfQuiesce()
	vfWaitCond(3*time.Second, func() bool { return e.push.count()-before >= len(want) })
	vfRec.setFault(nil)
	e.vfQuiesce()
	got := map[int]int{}
	for _, rc := range e.push.snapshot()[before:] {
		if rc.Payload.What == push.ActMsg && rc.Payload.Topic == name {
			got[rc.Payload.SeqId]++
			if _, ok := rc.To[mem.uid]; !ok {
				r.Violation("push-recipients:burst:missing:member", fmt.Sprintf("push for seq %d is not addressed to the entitled member", rc.Payload.SeqId), nil)
			}
		}
	}
	if atomic.LoadInt32(&ioSeen) > 0 {
		r.Hit("push_burst_while_counters_load")
	}
	r.Eval(fmt.Sprintf("push-burst/%d", len(want)))
	for sq := range want {
		if got[sq] != 1 {
			r.Violation(fmt.Sprintf("push-count-%d:burst", got[sq]), fmt.Sprintf("%d messages accepted back to back (seqs %v) while the unread counters were being read: seq %d got %d push receipts, per seq %v", len(want), keysInt(want), sq, got[sq], got), nil)
			break
		}
	}
}

func keysInt(m map[int]bool) []int {
	var out []int
	for k := range m {
		out = append(out, k)
	}
	sort.Ints(out)
	return out
}

func TestVfC02(t *testing.T) { pubRun(t, "C02") }
func TestVfC03(t *testing.T) { pubRun(t, "C03") }
