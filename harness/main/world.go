//go:build verif

package main

import (
	"encoding/json"
	"fmt"
	"math/rand"
	"sync"
	"time"

	"github.com/tinode/chat/server/auth"
	"github.com/tinode/chat/server/db/vfmem"
	"github.com/tinode/chat/server/store/types"
	"github.com/tinode/chat/server/vfkit"
)

// vfStoreEv is one recorded adapter call with optional ground-truth snapshot.
type vfStoreEv struct {
	N        int64
	T        int64
	Op       string
	Topic    string
	User     types.Uid
	Seq      int
	Err      string
	Injected bool
	Args     map[string]any
	Subs     []vfmem.SubRow  // snapshot of topic's subscription rows (MessageSave, SubsUpdate, ...)
	TopicRow *vfmem.TopicRow // snapshot of topic row
}

// vfRecorder collects store events and implements fault/delay/crash plans.
type vfRecorder struct {
	mu     sync.Mutex
	evs    []vfStoreEv
	e      *vfEnv
	snapOn map[string]bool

	// fault plan: fail the call for which pred returns an error.
	fault func(c *vfmem.Call) error
	// delay plan
	delayRng *rand.Rand
	delayOn  bool
	delayMu  sync.Mutex
}

var vfRec *vfRecorder

var vfWriteOps = map[string]bool{"UserCreate": true, "UserDelete": true, "UserUpdate": true, "UserUpdateTags": true,
	"CredUpsert": true, "CredDel": true, "CredConfirm": true, "CredFail": true, "AuthAddRecord": true, "AuthDelScheme": true,
	"AuthDelAllRecords": true, "AuthUpdRecord": true, "TopicCreate": true, "TopicCreateP2P": true, "TopicShare": true,
	"TopicDelete": true, "TopicUpdateOnMessage": true, "TopicUpdate": true, "TopicOwnerChange": true, "SubsUpdate": true,
	"SubsDelete": true, "MessageSave": true, "MessageDeleteList": true, "DeviceUpsert": true, "DeviceDelete": true,
	"FileStartUpload": true, "FileFinishUpload": true, "FileDeleteUnused": true, "FileLinkAttachments": true,
	"PCacheUpsert": true, "PCacheDelete": true, "PCacheExpire": true}

func vfInstallRecorder(e *vfEnv) *vfRecorder {
	rec := &vfRecorder{e: e}
	vfmem.A.SetIntercept(func(c *vfmem.Call) error {
		rec.mu.Lock()
		f := rec.fault
		don := rec.delayOn
		rec.mu.Unlock()
		if don {
			rec.vfDelay()
		}
		if f != nil {
			return f(c)
		}
		return nil
	})
	vfmem.A.SetObserve(func(c *vfmem.Call, db *vfmem.DB) {
		ev := vfStoreEv{N: c.N, T: e.now(), Op: c.Op, Topic: c.Topic, User: c.User, Seq: c.Seq, Injected: c.Injected, Args: c.Args}
		if c.Err != nil {
			ev.Err = c.Err.Error()
		}
		if c.Topic != "" && vfWriteOps[c.Op] {
			for _, s := range db.SubsOf(c.Topic) {
				ev.Subs = append(ev.Subs, s.Copy())
			}
			if tr := db.Topics[c.Topic]; tr != nil {
				cp := *tr
				ev.TopicRow = &cp
			}
		}
		rec.mu.Lock()
		rec.evs = append(rec.evs, ev)
		rec.mu.Unlock()
		if e.logf != nil && vfWriteOps[c.Op] {
			e.vfLog("store", map[string]any{"n": c.N, "op": c.Op, "topic": c.Topic, "user": c.User.String(), "seq": c.Seq, "err": ev.Err})
		}
	})
	vfRec = rec
	return rec
}

// vfDelay sleeps/yields outside the adapter lock according to the delay plan.
func (rec *vfRecorder) vfDelay() {
	rec.delayMu.Lock()
	k := rec.delayRng.Intn(10)
	rec.delayMu.Unlock()
	switch {
	case k < 5:
	case k < 8:
		for i := 0; i < k; i++ {
			vfGosched()
		}
	default:
		time.Sleep(time.Duration(k-7) * 300 * time.Microsecond)
	}
}

func (rec *vfRecorder) setDelay(on bool, seed int64) {
	rec.mu.Lock()
	rec.delayOn = on
	rec.mu.Unlock()
	rec.delayMu.Lock()
	rec.delayRng = rand.New(rand.NewSource(seed))
	rec.delayMu.Unlock()
}

func (rec *vfRecorder) setFault(f func(c *vfmem.Call) error) {
	rec.mu.Lock()
	rec.fault = f
	rec.mu.Unlock()
}

func (rec *vfRecorder) mark() int {
	rec.mu.Lock()
	defer rec.mu.Unlock()
	return len(rec.evs)
}

func (rec *vfRecorder) since(n int) []vfStoreEv {
	rec.mu.Lock()
	defer rec.mu.Unlock()
	if n > len(rec.evs) {
		n = len(rec.evs)
	}
	return append([]vfStoreEv{}, rec.evs[n:]...)
}

// writesSince returns the write operations recorded since mark n.
func (rec *vfRecorder) writesSince(n int) []vfStoreEv {
	var out []vfStoreEv
	for _, ev := range rec.since(n) {
		if vfWriteOps[ev.Op] {
			out = append(out, ev)
		}
	}
	return out
}

// ---- world

type vfUser struct {
	name  string
	uid   types.Uid
	tok   string
	level auth.Level
	conns []*vfClient
}

type vfWorld struct {
	e     *vfEnv
	r     *vfkit.R
	rng   *rand.Rand
	users []*vfUser
	nconn int
	uniq  int
}

func vfNewWorld(e *vfEnv, r *vfkit.R, rng *rand.Rand) *vfWorld {
	return &vfWorld{e: e, r: r, rng: rng}
}

func (w *vfWorld) user(name string, level auth.Level) *vfUser {
	uid, tok := vfMkUser(level, map[string]any{"fn": name}, nil)
	if level != auth.LevelAuth {
		tok = vfToken(uid, level, 0)
	}
	u := &vfUser{name: name, uid: uid, tok: tok, level: level}
	w.users = append(w.users, u)
	return u
}

func (w *vfWorld) conn(u *vfUser, bkg bool) *vfClient {
	w.nconn++
	c := w.e.connect(fmt.Sprintf("%s%d", u.name, w.nconn), u.uid, u.tok, bkg)
	u.conns = append(u.conns, c)
	return c
}

func (w *vfWorld) closeAll() {
	for _, u := range w.users {
		for _, c := range u.conns {
			c.close()
		}
	}
}

// uniqueContent returns a content value carrying a unique id.
func (w *vfWorld) uniqueContent(c *vfClient) string {
	w.uniq++
	return fmt.Sprintf("%s#%d", c.name, w.uniq)
}

// ---- request helpers on a client

func (c *vfClient) sub(topic string, extraBody map[string]any) *vfFrame {
	b := map[string]any{"topic": topic}
	for k, v := range extraBody {
		b[k] = v
	}
	return c.req("sub", b)
}

func (c *vfClient) leave(topic string, unsub bool) *vfFrame {
	b := map[string]any{"topic": topic}
	if unsub {
		b["unsub"] = true
	}
	return c.req("leave", b)
}

func (c *vfClient) pub(topic string, content any, noecho bool, head map[string]any) *vfFrame {
	b := map[string]any{"topic": topic, "content": content}
	if noecho {
		b["noecho"] = true
	}
	if head != nil {
		b["head"] = head
	}
	return c.req("pub", b)
}

// vfGetAns is the complete answer to a single-what {get}.
type vfGetAns struct {
	Ctrl *vfFrame
	Meta []*vfFrame
	Data []*vfFrame
	All  []*vfFrame
}

// get issues {get what=<what>} and collects the answer: {meta} frames carrying the id,
// {data} frames for that topic received before the closing frame, and the closing {ctrl}.
func (c *vfClient) get(topic, what string, opts map[string]any) *vfGetAns {
	from := c.frameCount()
	b := map[string]any{"topic": topic, "what": what}
	for k, v := range opts {
		b[k] = v
	}
	id := c.send("get", b)
	ans := &vfGetAns{}
	deadline := time.Now().Add(vfReplyWait)
	timer := time.AfterFunc(vfReplyWait, func() { c.mu.Lock(); c.cond.Broadcast(); c.mu.Unlock() })
	defer timer.Stop()
	c.mu.Lock()
	defer c.mu.Unlock()
	i := from
	for {
		for ; i < len(c.frames); i++ {
			f := c.frames[i]
			ans.All = append(ans.All, f)
			switch f.Kind {
			case "data":
				if f.str("topic") == topic {
					ans.Data = append(ans.Data, f)
				}
			case "meta":
				if f.str("id") == id {
					ans.Meta = append(ans.Meta, f)
					if what != "data" {
						return ans
					}
				}
			case "ctrl":
				if f.str("id") == id {
					ans.Ctrl = f
					return ans
				}
			}
		}
		if c.closed || time.Now().After(deadline) {
			return ans
		}
		c.cond.Wait()
	}
}

func (c *vfClient) set(topic string, body map[string]any) *vfFrame {
	b := map[string]any{"topic": topic}
	for k, v := range body {
		b[k] = v
	}
	return c.req("set", b)
}

func (c *vfClient) del(topic, what string, body map[string]any) *vfFrame {
	b := map[string]any{"topic": topic, "what": what}
	for k, v := range body {
		b[k] = v
	}
	return c.req("del", b)
}

func (c *vfClient) note(topic, what string, seq int, extra map[string]any) {
	b := map[string]any{"topic": topic, "what": what}
	if seq != 0 {
		b["seq"] = seq
	}
	for k, v := range extra {
		b[k] = v
	}
	c.send("note", b)
}

// newGroup creates a group topic (channel-enabled if chn) and returns its grp name.
func (c *vfClient) newGroup(chn bool, desc map[string]any) (string, *vfFrame) {
	name := "new" + c.nextID()
	if chn {
		name = "nch" + c.nextID()
	}
	b := map[string]any{}
	if desc != nil {
		b["set"] = map[string]any{"desc": desc}
	}
	f := c.sub(name, b)
	if f == nil {
		return "", nil
	}
	return f.str("topic"), f
}

func vfAcs(f *vfFrame) (want, given, mode string) {
	if f == nil {
		return
	}
	p := f.params()
	if p == nil {
		return
	}
	a, _ := p["acs"].(map[string]any)
	if a == nil {
		return
	}
	want, _ = a["want"].(string)
	given, _ = a["given"].(string)
	mode, _ = a["mode"].(string)
	return
}

func vfCompact(v any) string {
	b, _ := json.Marshal(v)
	if len(b) > 600 {
		return string(b[:600]) + "..."
	}
	return string(b)
}

// frames2raw is used for witnesses.
func frames2raw(fs []*vfFrame) []string {
	var out []string
	for _, f := range fs {
		s := f.Raw
		if len(s) > 400 {
			s = s[:400] + "..."
		}
		out = append(out, s)
	}
	return out
}
