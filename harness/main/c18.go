//go:build verif

package main

import (
	"errors"
	"fmt"
	"sort"
	"strings"
	"testing"

	"github.com/tinode/chat/server/auth"
	"github.com/tinode/chat/server/db/vfmem"
	"github.com/tinode/chat/server/store"
	"github.com/tinode/chat/server/store/types"
	"github.com/tinode/chat/server/vfkit"
)

// C18, store-level composites: operations of the store layer which are made of several adapter calls
// (account with its built-in subscriptions; message range deletion with its log and markers) must
// take full effect or none when any one adapter call fails. Run over vfmem with fail-at-k.

// c18Dump renders the database without timestamps; ids listed in rename are replaced by placeholders.
func c18Dump(rename map[string]string) string {
	rn := func(s string) string {
		for k, v := range rename {
			s = strings.ReplaceAll(s, k, v)
		}
		return s
	}
	var lines []string
	vfmem.A.View(func(db *vfmem.DB) {
		for id, u := range db.Users {
			lines = append(lines, rn(fmt.Sprintf("user %s state=%v tags=%v public=%s", id.String(), u.State, u.Tags, string(u.Public))))
		}
		for name, t := range db.Topics {
			lines = append(lines, rn(fmt.Sprintf("topic %s state=%v seq=%d del=%d owner=%s tags=%v", name, t.State, t.SeqId, t.DelId, t.Owner.String(), t.Tags)))
		}
		for _, s := range db.Subs {
			lines = append(lines, rn(fmt.Sprintf("sub %s %s want=%s given=%s del=%d deleted=%v private=%s", s.Topic, s.User.String(), s.ModeWant.String(), s.ModeGiven.String(), s.DelId, s.DeletedAt != nil, string(s.Private))))
		}
		for tn, ms := range db.Msgs {
			for _, m := range ms {
				lines = append(lines, rn(fmt.Sprintf("msg %s %d delid=%d deleted=%v content=%s", tn, m.SeqId, m.DelId, m.DeletedAt != nil, string(m.Content))))
			}
		}
		for _, d := range db.DelLog {
			lines = append(lines, rn(fmt.Sprintf("dellog %s for=%s id=%d %d-%d", d.Topic, d.DeletedFor.String(), d.DelId, d.Low, d.Hi)))
		}
		for _, a := range db.Auth {
			lines = append(lines, rn(fmt.Sprintf("auth %s %s", a.Uname, a.User.String())))
		}
		for _, c := range db.Creds {
			lines = append(lines, rn(fmt.Sprintf("cred %s %s %s done=%v deleted=%v", c.User.String(), c.Method, c.Value, c.Done, c.DeletedAt != nil)))
		}
		for _, dv := range db.Devices {
			lines = append(lines, rn(fmt.Sprintf("device %v", *dv)))
		}
	})
	sort.Strings(lines)
	return strings.Join(lines, "\n")
}

type c18Composite struct {
	name string
	// run performs the operation; returns the error and the ids to be renamed in the dump (new objects)
	run func() (error, map[string]string)
}

func TestVfC18Store(t *testing.T) {
	r := vfkit.New("C18")
	defer r.Finish()
	e := vfBoot(vfConfig{})
	rec := vfInstallRecorder(e)
	rng := r.Rand(180)

	// a small world for the operations to act on
	owner, _ := vfMkUser(auth.LevelAuth, map[string]any{"fn": "owner"}, []string{"alpha"})
	member, _ := vfMkUser(auth.LevelAuth, map[string]any{"fn": "member"}, nil)
	topic := &types.Topic{ObjHeader: types.ObjHeader{Id: "grpC18xxxxxxxx"}, Access: types.DefaultAccess{Auth: types.ModeCPublic, Anon: types.ModeNone}, Public: map[string]any{"fn": "g"}}
	vfMust(store.Topics.Create(topic, owner, nil), "topic create")
	vfMust(store.Subs.Create(&types.Subscription{User: member.String(), Topic: topic.Id, ModeWant: types.ModeCPublic, ModeGiven: types.ModeCPublic}), "sub create")
	for i := 1; i <= 12; i++ {
		msg := &types.Message{SeqId: i, Topic: topic.Id, From: owner.String(), Content: fmt.Sprintf("m%d", i)}
		if err, _ := store.Messages.Save(msg, nil, true); err != nil {
			t.Fatal(err)
		}
	}
	base := vfmem.A.Snapshot()

	ops := []c18Composite{
		{"Users.Create", func() (error, map[string]string) {
			u := &types.User{Tags: types.StringSlice{"one", "two"}, Public: map[string]any{"fn": "new"}}
			u.Access.Auth, u.Access.Anon = types.ModeCP2P, types.ModeNone
			_, err := store.Users.Create(u, map[string]any{"note": "p"})
			return err, map[string]string{u.Uid().String(): "<new>"}
		}},
		{"Messages.DeleteList/hard", func() (error, map[string]string) {
			return store.Messages.DeleteList(topic.Id, 1, types.ZeroUid, []types.Range{{Low: 3, Hi: 6}, {Low: 9}}), nil
		}},
		{"Messages.DeleteList/soft", func() (error, map[string]string) {
			return store.Messages.DeleteList(topic.Id, 1, member, []types.Range{{Low: 2, Hi: 5}}), nil
		}},
	}
	_ = rng
	for _, op := range ops {
		// fault-free: the complete after-image and the list of adapter write calls
		vfMust(vfmem.A.Restore(base), "restore")
		before := c18Dump(nil)
		mark := rec.mark()
		err, rn := op.run()
		full := c18Dump(rn)
		writes := rec.writesSince(mark)
		if err != nil {
			r.Violation("harness:fault-free-failed:"+op.name, fmt.Sprintf("%s failed without faults: %v", op.name, err), nil)
			continue
		}
		var wnames []string
		for _, w := range writes {
			wnames = append(wnames, w.Op)
		}
		r.Eval("composite:" + op.name)
		r.Sample(map[string]any{"operation": op.name, "adapter_writes": wnames})
		for k := 1; k <= len(writes); k++ {
			vfMust(vfmem.A.Restore(base), "restore")
			n := 0
			var failedOp string
			rec.setFault(func(c *vfmem.Call) error {
				if !vfWriteOps[c.Op] {
					return nil
				}
				n++
				if n == k {
					failedOp = c.Op
					return errors.New("vf: injected adapter failure")
				}
				return nil
			})
			err, rn := op.run()
			rec.setFault(nil)
			after := c18Dump(rn)
			r.Hit("composite_fault_point")
			r.Eval(fmt.Sprintf("composite-fault:%s:%d", op.name, k))
			sig := fmt.Sprintf("%s:fail@%d:%s", op.name, k, failedOp)
			wit := map[string]any{"operation": op.name, "adapter_writes": wnames, "failed_call": k, "before": strings.Split(before, "\n"), "after": strings.Split(after, "\n")}
			switch {
			case err == nil:
				r.Violation("composite-failure-swallowed:"+sig, fmt.Sprintf("%s: adapter call #%d (%s) failed but the operation reported success", op.name, k, failedOp), wit)
			case after == before:
				r.Hit("composite_none")
			case after == full:
				r.Violation("composite-error-but-complete:"+sig, fmt.Sprintf("%s: adapter call #%d (%s) failed, an error was returned, but the complete effect is stored", op.name, k, failedOp), wit)
			default:
				r.Violation("composite-partial:"+sig, fmt.Sprintf("%s: adapter call #%d (%s) failed (%v) and a partial effect is stored (neither the state before nor the complete result)", op.name, k, failedOp, err), wit)
			}
		}
	}
	vfmem.A.Restore(base)
}
