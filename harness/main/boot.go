//go:build verif

package main

// Boot of the real server inside a test binary, mirroring main() step by step.

import (
	"bytes"
	"crypto/hmac"
	"crypto/md5"
	"encoding/base64"
	"encoding/json"
	"fmt"
	"io"
	"net/http"
	"net/http/httptest"
	"os"
	"path/filepath"
	"strings"
	"sync"
	"sync/atomic"
	"time"

	gh "github.com/gorilla/handlers"
	"github.com/tinode/chat/server/auth"
	"github.com/tinode/chat/server/db/vfmem"
	"github.com/tinode/chat/server/logs"
	"github.com/tinode/chat/server/push"
	"github.com/tinode/chat/server/store"
	"github.com/tinode/chat/server/store/types"
)

// vfConfig selects optional subsystems for one child process.
type vfConfig struct {
	Media       bool
	MaxUpload   int64
	EmailVal    bool // email validator required for auth level
	Push        bool
	Calls       bool
	CallTimeout int // seconds (time-scaled by the calls.go patch)
	MaxSubs     int
	MaxTags     int
	MaskedNS    []string
	MaxMsgSize  int
	TokenExpire int
	CodeRetries int
	Restore     string // path of snapshot to restore before opening
	UploadDir   string
	BasicNoTags bool // basic authenticator configured with add_to_tags=false
}

type vfEnv struct {
	cfg      vfConfig
	srv      *httptest.Server
	wsURL    string
	httpURL  string
	apiKey   string
	rootKey  string
	outDir   string
	push     *vfPush
	statsOut int64 // frames the server attempted to write (from stats channel)
	framesIn int64 // frames received by all harness clients
	mu       sync.Mutex
	clients  []*vfClient
	logf     *os.File
	logMu    sync.Mutex
	t0       time.Time
}

var vfE *vfEnv

const vfSaltB64 = "T713/rYYgW7g4m3vG6zGRh7+FM1t0T8j13koXScOAj4="
const vfTokenKey = "wfaY2RgF2S1OQI/ZlK+LSrp1KB2jwAdGAIHQ7JZn+Kc="
const vfUidKey = "la6YsO+bNX/+XIkOqc5Svw=="

func vfMakeAPIKey(salt []byte, root bool, seq int) string {
	data := make([]byte, apikeyLength)
	data[0] = 1
	data[1], data[2], data[3], data[4] = 0, 0, 0, 7
	data[5] = byte(seq >> 8)
	data[6] = byte(seq)
	if root {
		data[7] = 1
	}
	h := hmac.New(md5.New, salt)
	h.Write(data[:8])
	copy(data[8:], h.Sum(nil))
	return base64.URLEncoding.EncodeToString(data)
}

// vfPush is a push handler recording receipts.
type vfPush struct {
	ready    bool
	in       chan *push.Receipt
	ch       chan *push.ChannelReq
	mu       sync.Mutex
	Receipts []*push.Receipt
	Channels []*push.ChannelReq
	pending  int64
}

func (p *vfPush) Init(jsonconf json.RawMessage) (bool, error) {
	p.in = make(chan *push.Receipt, 4096)
	p.ch = make(chan *push.ChannelReq, 4096)
	p.ready = true
	go func() {
		for {
			select {
			case r := <-p.in:
				p.mu.Lock()
				p.Receipts = append(p.Receipts, r)
				p.mu.Unlock()
			case c := <-p.ch:
				p.mu.Lock()
				p.Channels = append(p.Channels, c)
				p.mu.Unlock()
			}
		}
	}()
	return true, nil
}
func (p *vfPush) IsReady() bool                    { return p.ready }
func (p *vfPush) Push() chan<- *push.Receipt       { return p.in }
func (p *vfPush) Channel() chan<- *push.ChannelReq { return p.ch }
func (p *vfPush) Stop()                            {}
func (p *vfPush) snapshot() []*push.Receipt {
	p.mu.Lock()
	defer p.mu.Unlock()
	return append([]*push.Receipt{}, p.Receipts...)
}
func (p *vfPush) count() int {
	p.mu.Lock()
	defer p.mu.Unlock()
	return len(p.Receipts)
}

var vfPushHandler = &vfPush{}

func init() {
	push.Register("vfpush", vfPushHandler)
}

func vfMust(err error, what string) {
	if err != nil {
		panic(fmt.Sprintf("vf boot: %s: %v", what, err))
	}
}

// vfBoot boots the server once per process.
func vfBoot(cfg vfConfig) *vfEnv {
	if vfE != nil {
		panic("vfBoot called twice")
	}
	outDir := os.Getenv("VF_OUT")
	if outDir == "" {
		outDir = os.TempDir()
	}
	e := &vfEnv{cfg: cfg, outDir: outDir, t0: time.Now()}

	// Server logs: to a file if VF_SRVLOG is set, else discarded.
	var logw io.Writer = io.Discard
	if p := os.Getenv("VF_SRVLOG"); p != "" {
		f, err := os.OpenFile(p, os.O_CREATE|os.O_APPEND|os.O_WRONLY, 0644)
		vfMust(err, "srvlog")
		logw = f
	}
	logs.Init(logw, "stdFlags")

	if lp := os.Getenv("VF_EVLOG"); lp != "" {
		f, err := os.OpenFile(lp, os.O_CREATE|os.O_APPEND|os.O_WRONLY, 0644)
		vfMust(err, "evlog")
		e.logf = f
	}

	if cfg.Restore != "" {
		b, err := os.ReadFile(cfg.Restore)
		vfMust(err, "read snapshot")
		vfMust(vfmem.A.Restore(b), "restore snapshot")
	} else {
		vfmem.A.Reset()
	}

	// Stats channel: consumed by the harness to count outgoing frames.
	globals.statsUpdate = make(chan *varUpdate, 1<<16)
	go func() {
		for upd := range globals.statsUpdate {
			if upd != nil && strings.HasPrefix(upd.varname, "OutgoingMessages") {
				atomic.AddInt64(&e.statsOut, 1)
			}
		}
	}()

	storeCfg := fmt.Sprintf(`{"uid_key":%q,"max_results":1024,"use_adapter":"vfmem"}`, vfUidKey)
	vfMust(store.Store.Open(1, json.RawMessage(storeCfg)), "store open")

	salt, _ := base64.StdEncoding.DecodeString(vfSaltB64)
	globals.apiKeySalt = salt
	e.apiKey = vfMakeAPIKey(salt, false, 1)
	e.rootKey = vfMakeAPIKey(salt, true, 2)

	tokenExpire := cfg.TokenExpire
	if tokenExpire == 0 {
		tokenExpire = 1209600
	}
	codeRetries := cfg.CodeRetries
	if codeRetries == 0 {
		codeRetries = 3
	}
	basicCfg := `{"add_to_tags":true,"min_login_length":4,"min_password_length":6}`
	if cfg.BasicNoTags {
		basicCfg = `{"add_to_tags":false,"min_login_length":4,"min_password_length":6}`
	}
	authCfg := map[string]json.RawMessage{
		"basic": json.RawMessage(basicCfg),
		"token": json.RawMessage(fmt.Sprintf(`{"expire_in":%d,"serial_num":1,"key":%q}`, tokenExpire, vfTokenKey)),
		"code":  json.RawMessage(fmt.Sprintf(`{"expire_in":900,"max_retries":%d,"code_length":6}`, codeRetries)),
		"anon":  json.RawMessage(`{}`),
	}
	globals.immutableTagNS = make(map[string]bool)
	for _, name := range store.Store.GetAuthNames() {
		authhdl := store.Store.GetLogicalAuthHandler(name)
		if authhdl == nil {
			continue
		}
		if jsconf := authCfg[authhdl.GetRealName()]; jsconf != nil {
			vfMust(authhdl.Init(jsconf, name), "auth init "+name)
			tags, err := authhdl.RestrictedTags()
			vfMust(err, "restricted tags")
			for _, tag := range tags {
				globals.immutableTagNS[tag] = true
			}
		}
	}

	// Validators.
	globals.validators = nil
	globals.authValidators = nil
	globals.validatorClientConfig = nil
	if cfg.EmailVal {
		templDir, _ := filepath.Abs("templ")
		vconf := fmt.Sprintf(`{"host_url":"http://localhost:6060/","smtp_server":"127.0.0.1","smtp_port":"1","sender":"\"T\" <noreply@example.com>",
			"languages":["en"],"validation_templ":%q,"reset_secret_templ":%q,"max_retries":3,"debug_response":"123456"}`,
			filepath.Join(templDir, "email-validation-{{.Language}}.templ"),
			filepath.Join(templDir, "email-password-reset-{{.Language}}.templ"))
		globals.immutableTagNS["email"] = true
		val := store.Store.GetValidator("email")
		if val == nil {
			panic("no email validator")
		}
		vfMust(val.Init(vconf), "email validator init")
		globals.authValidators = map[auth.Level][]string{auth.LevelAuth: {"email"}}
		globals.validators = map[string]credValidator{"email": {requiredAuthLvl: []auth.Level{auth.LevelAuth}, addToTags: true}}
		globals.validatorClientConfig = map[string][]string{"auth": {"email"}}
	}

	globals.maskedTagNS = make(map[string]bool)
	for _, ns := range cfg.MaskedNS {
		globals.maskedTagNS[ns] = true
	}
	globals.maxMessageSize = int64(cfg.MaxMsgSize)
	if globals.maxMessageSize <= 0 {
		globals.maxMessageSize = defaultMaxMessageSize
	}
	globals.maxSubscriberCount = cfg.MaxSubs
	if globals.maxSubscriberCount <= 1 {
		globals.maxSubscriberCount = defaultMaxSubscriberCount
	}
	globals.maxTagCount = cfg.MaxTags
	if globals.maxTagCount <= 0 {
		globals.maxTagCount = defaultMaxTagCount
	}
	globals.defaultCountryCode = defaultCountryCode
	globals.xFrameOptions = "SAMEORIGIN"
	globals.wsCompression = false

	if cfg.Media {
		dir := cfg.UploadDir
		if dir == "" {
			dir = filepath.Join(outDir, "uploads-"+os.Getenv("VF_BATCH")+"-"+fmt.Sprint(os.Getpid()))
		}
		os.MkdirAll(dir, 0755)
		e.cfg.UploadDir = dir
		globals.maxFileUploadSize = cfg.MaxUpload
		if globals.maxFileUploadSize == 0 {
			globals.maxFileUploadSize = 1 << 16
		}
		conf := fmt.Sprintf(`{"upload_dir":%q,"cache_control":"max-age=86400"}`, dir)
		vfMust(store.Store.UseMediaHandler("fs", conf), "media handler")
	}

	if cfg.Push {
		_, err := push.Init(json.RawMessage(`[{"name":"vfpush","config":{}}]`))
		vfMust(err, "push init")
		e.push = vfPushHandler
	}

	if cfg.Calls {
		to := cfg.CallTimeout
		if to == 0 {
			to = 30
		}
		wcfg := fmt.Sprintf(`{"enabled":true,"call_establishment_timeout":%d,"ice_servers":[{"urls":["stun:stun.example.com"]}]}`, to)
		vfMust(initVideoCalls(json.RawMessage(wcfg)), "video calls")
	}

	globals.sessionStore = NewSessionStore(idleSessionTimeout + 15*time.Second)
	globals.hub = newHub()
	usersInit()

	mux := http.NewServeMux()
	mux.HandleFunc("/v0/channels", serveWebSocket)
	mux.Handle("/v0/channels/lp", gh.CompressHandler(http.HandlerFunc(serveLongPoll)))
	if cfg.Media {
		mux.Handle("/v0/file/u/", gh.CompressHandler(http.HandlerFunc(largeFileReceive)))
		mux.Handle("/v0/file/s/", gh.CompressHandler(http.HandlerFunc(largeFileServe)))
	}
	mux.HandleFunc("/", serve404)
	e.srv = httptest.NewServer(mux)
	e.httpURL = e.srv.URL
	e.wsURL = "ws" + strings.TrimPrefix(e.srv.URL, "http") + "/v0/channels"
	globals.servingAt = e.srv.URL + "/"

	vfE = e
	return e
}

// vfLog appends one event to the JSONL event log (if enabled). The write completes
// before the call returns so that a crash leaves the announcing record on disk.
func (e *vfEnv) vfLog(kind string, fields map[string]any) {
	if e == nil || e.logf == nil {
		return
	}
	rec := map[string]any{"t": time.Since(e.t0).Microseconds(), "k": kind}
	for k, v := range fields {
		rec[k] = v
	}
	b, _ := json.Marshal(rec)
	b = append(b, '\n')
	e.logMu.Lock()
	e.logf.Write(b)
	e.logMu.Unlock()
}

// vfMkUser creates an account directly through the store layer (as replyCreateUser does)
// and returns its uid and a login token minted by the real token authenticator.
func vfMkUser(level auth.Level, public any, tags []string) (types.Uid, string) {
	var user types.User
	user.Access.Auth = getDefaultAccess(types.TopicCatP2P, true, false) | getDefaultAccess(types.TopicCatGrp, true, false)
	user.Access.Anon = getDefaultAccess(types.TopicCatP2P, false, false) | getDefaultAccess(types.TopicCatGrp, false, false)
	user.Public = public
	user.Tags = tags
	if _, err := store.Users.Create(&user, nil); err != nil {
		panic("vfMkUser: " + err.Error())
	}
	return user.Uid(), vfToken(user.Uid(), level, 0)
}

func vfToken(uid types.Uid, level auth.Level, features auth.Feature) string {
	tok, _, err := store.Store.GetLogicalAuthHandler("token").GenSecret(&auth.Rec{Uid: uid, AuthLevel: level,
		Features: features | auth.FeatureValidated})
	if err != nil {
		panic("vfToken: " + err.Error())
	}
	return base64.StdEncoding.EncodeToString(tok)
}

func vfJSON(v any) string {
	var buf bytes.Buffer
	enc := json.NewEncoder(&buf)
	enc.SetEscapeHTML(false)
	enc.Encode(v)
	return strings.TrimSpace(buf.String())
}
