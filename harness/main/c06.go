//go:build verif

package main

import (
	"fmt"
	"strings"
	"testing"

	"github.com/tinode/chat/server/store/types"
	"github.com/tinode/chat/server/vfkit"
)

// ---- C06: a group topic has exactly one owner at all times.

func parsePlainMode(s string) (types.AccessMode, bool) {
	if s == "" || strings.ContainsAny(s, "+-") {
		return 0, false
	}
	var m types.AccessMode
	if err := m.UnmarshalText([]byte(s)); err != nil {
		return 0, false
	}
	return m, true
}

func (sc *metaScn) c06Check(st *metaStep) {
	r := sc.r
	if sc.kind != "grp" || sc.deleted || st.Kind == "reload" {
		if st.Kind == "reload" && !sc.deleted && sc.kind == "grp" {
			sc.c06Owners(st)
		}
		return
	}
	ownerBefore := sc.owner
	after := st.after
	if after.topic == nil {
		r.Hit("topic_delete_by_owner_only")
		if !(st.Kind == "delTopic" && st.actorU == ownerBefore && st.Code == 200) {
			r.Violation("topic-removed-by-non-owner:"+st.Kind+":"+st.Actor, "topic row disappeared in a step which is not the owner's {del topic}", sc.wit(st, nil))
		}
		sc.deleted = true
		return
	}
	// denied => nothing the property protects has changed: the owner's subscription, anybody's ownership bits, the
	// owner field and the description of the topic. (A refused {sub} may still record the requester's own new 'want':
	// that is outside this property.)
	if st.Code >= 400 {
		r.Hit("denied_leaves_rows_unchanged")
		if eq, what := c06Protected(st.before, st.after, ownerBefore); !eq {
			r.Violation("denied-but-changed:"+st.Kind+":"+st.Actor, fmt.Sprintf("request answered %d but %s changed", st.Code, what), sc.wit(st, nil))
		}
	}
	sc.c06Owners(st)

	// specific protections of the owner
	argMode, plain := parsePlainMode(st.Arg)
	if st.actorU == ownerBefore {
		if st.Kind == "unsub" || st.Kind == "unsubChn" {
			r.Hit("owner_cannot_unsubscribe")
			if ra, ok := st.after.subs[ownerBefore]; st.Code < 300 || !ok || ra.DeletedAt != nil {
				r.Violation("owner-unsubscribed", "owner's {leave unsub} was not refused", sc.wit(st, nil))
			}
		}
		selfSet := st.Kind == "setSelf" || st.Kind == "sub" || (st.Kind == "setOther" && st.targetU == st.actorU)
		if selfSet && plain && (!argMode.IsOwner() || !argMode.IsJoiner()) {
			r.Hit("owner_cannot_give_up")
			// 3xx (already subscribed / not modified) is not a refusal but has no effect either; what matters is
			// that the owner's row keeps O (and the J it had)
			rb, ra := st.before.subs[ownerBefore], st.after.subs[ownerBefore]
			lostO := !ra.ModeWant.IsOwner() || !ra.ModeGiven.IsOwner()
			lostJ := rb.ModeWant.IsJoiner() && !ra.ModeWant.IsJoiner()
			if lostJ && !lostO {
				// the statement protects ownership, not the J bit: an owner who keeps O but drops J (possible
				// through an unattached session) is still the one owner. Recorded, not judged.
				r.InfoAdd("owner_dropped_J_kept_O", 1)
			}
			if (st.Code < 300 && !argMode.IsOwner()) || lostO {
				r.Violation("owner-gave-up-ownership", fmt.Sprintf("owner's request for mode %q was not refused (code %d, want %s -> %s)", st.Arg, st.Code, rb.ModeWant, ra.ModeWant), sc.wit(st, nil))
			}
		}
	} else {
		if st.targetU == ownerBefore && (st.Kind == "delSub" || st.Kind == "setOther") {
			r.Hit("others_cannot_touch_owner")
			rb, ra := st.before.subs[ownerBefore], st.after.subs[ownerBefore]
			if rb.ModeGiven != ra.ModeGiven || rb.ModeWant != ra.ModeWant || (rb.DeletedAt == nil) != (ra.DeletedAt == nil) {
				r.Violation("owner-changed-by-other:"+st.Kind+":"+st.Actor, "another user's request changed the owner's subscription", sc.wit(st, nil))
			}
		}
		switch st.Kind {
		case "delTopic":
			r.Hit("non_owner_del_topic")
			// removes only the requester's own subscription
			for uid, rb := range st.before.subs {
				ra, ok := st.after.subs[uid]
				if uid == st.actorU {
					continue
				}
				if !ok || ra.ModeGiven != rb.ModeGiven || ra.ModeWant != rb.ModeWant || (ra.DeletedAt == nil) != (rb.DeletedAt == nil) {
					r.Violation("non-owner-del-topic-touched-others:"+st.Actor, "{del topic} by a non-owner changed other subscriptions", sc.wit(st, nil))
				}
			}
		case "setPublic", "setTrusted", "setDefacs", "setTags":
			r.Hit("only_owner_changes_description")
			if st.Code < 400 {
				tb, ta := st.before.topic, st.after.topic
				if string(tb.Public) != string(ta.Public) || string(tb.Trusted) != string(ta.Trusted) || tb.Access != ta.Access || strings.Join(tb.Tags, ",") != strings.Join(ta.Tags, ",") {
					r.Violation("description-changed-by-non-owner:"+st.Kind+":"+st.Actor, "public/trusted/defacs/tags changed by a non-owner", sc.wit(st, nil))
				}
			}
		}
	}
	// track offers of ownership made by the owner
	if st.actorU == ownerBefore && st.Kind == "setOther" && st.Code < 300 {
		if ra, ok := st.after.subs[st.targetU]; ok {
			sc.offeredO[st.targetU] = ra.ModeGiven.IsOwner()
			delete(sc.staleOffer, st.targetU) // whatever the grant says now, the current owner has set it
		}
	}
}

// c06Protected compares what C06 protects: the owner's subscription row, everybody's ownership bits and the
// topic's owner field and description.
func c06Protected(a, b metaRows, owner types.Uid) (bool, string) {
	for uid, ra := range a.subs {
		rb, ok := b.subs[uid]
		if !ok {
			if uid == owner {
				return false, "the owner's subscription (removed)"
			}
			continue
		}
		if ra.ModeWant.IsOwner() != rb.ModeWant.IsOwner() || ra.ModeGiven.IsOwner() != rb.ModeGiven.IsOwner() {
			return false, "ownership bit of " + uid.UserId()
		}
		if uid == owner && (ra.ModeWant != rb.ModeWant || ra.ModeGiven != rb.ModeGiven || (ra.DeletedAt == nil) != (rb.DeletedAt == nil)) {
			return false, "the owner's subscription"
		}
	}
	for uid, rb := range b.subs {
		if _, ok := a.subs[uid]; !ok && (rb.ModeWant.IsOwner() || rb.ModeGiven.IsOwner()) {
			return false, "ownership bit of new row " + uid.UserId()
		}
	}
	if (a.topic == nil) != (b.topic == nil) {
		return false, "topic row existence"
	}
	if a.topic != nil {
		ta, tb := a.topic, b.topic
		if ta.Owner != tb.Owner || ta.Access != tb.Access || string(ta.Public) != string(tb.Public) || string(ta.Trusted) != string(tb.Trusted) ||
			strings.Join(ta.Tags, ",") != strings.Join(tb.Tags, ",") {
			return false, "topic owner / description"
		}
	}
	return true, ""
}

// c06Owners: exactly one effective owner, matching topics.owner; ownership moves only by acceptance.
func (sc *metaScn) c06Owners(st *metaStep) {
	r := sc.r
	after := st.after
	if after.topic == nil {
		return
	}
	var owners []types.Uid
	for uid, row := range after.subs {
		if row.DeletedAt == nil && (row.ModeWant & row.ModeGiven).IsOwner() {
			owners = append(owners, uid)
		}
	}
	if sc.broken {
		return
	}
	r.Hit("exactly_one_owner")
	if len(owners) != 1 {
		sc.broken = true
		var roles []string
		for _, o := range owners {
			roles = append(roles, sc.roleOf(o))
		}
		r.Violation(fmt.Sprintf("owner-count-%d:after:%s:%s", len(owners), st.Kind, st.Actor), fmt.Sprintf("topic has %d effective owners %v after step", len(owners), roles), sc.wit(st, nil))
		return
	}
	if after.topic.Owner != owners[0] {
		r.Violation("owner-field-mismatch:"+st.Kind, fmt.Sprintf("topics.owner=%s but the effective owner is %s", sc.roleOf(after.topic.Owner), sc.roleOf(owners[0])), sc.wit(st, nil))
	}
	if owners[0] != sc.owner {
		r.Hit("ownership_transfer")
		prev := sc.owner
		argMode, plain := parsePlainMode(st.Arg)
		rb := st.before.subs[owners[0]]
		selfSet := st.Kind == "sub" || st.Kind == "setSelf" || (st.Kind == "setOther" && st.targetU == st.actorU)
		legit := st.actorU == owners[0] && selfSet && sc.offeredO[owners[0]] && rb.ModeGiven.IsOwner() &&
			((plain && argMode.IsOwner()) || strings.Contains(st.Arg, "+"))
		staleAccepted := st.actorU == owners[0] && selfSet && sc.staleOffer[owners[0]] && rb.ModeGiven.IsOwner() &&
			((plain && argMode.IsOwner()) || strings.Contains(st.Arg, "+"))
		if !legit && staleAccepted {
			// the subscriber accepted an offer which a FORMER owner had made before ownership moved on: the grant is
			// still in the subscription although the current owner never made it (recorded finding)
			r.Violation("ownership-moved-on-offer-of-former-owner", fmt.Sprintf("ownership moved from %s to %s, who accepted an offer made by a former owner; the current owner never offered it", sc.roleOf(prev), sc.roleOf(owners[0])), sc.wit(st, nil))
		} else if !legit {
			r.Violation("ownership-moved-without-acceptance:"+st.Kind+":"+st.Actor, fmt.Sprintf("ownership moved from %s to %s in a step which is not the acceptance of an offer by the owner", sc.roleOf(prev), sc.roleOf(owners[0])), sc.wit(st, nil))
		}
		if pr, ok := after.subs[prev]; ok && (pr.ModeGiven.IsOwner() || pr.ModeWant.IsOwner()) {
			r.Violation("previous-owner-keeps-O", "after the transfer the previous owner still has O in want or given", sc.wit(st, nil))
		}
		sc.owner = owners[0]
		// offers which are still pending were made by somebody who is not the owner any more
		if sc.staleOffer == nil {
			sc.staleOffer = map[types.Uid]bool{}
		}
		for uid, on := range sc.offeredO {
			if row, ok := after.subs[uid]; on && uid != owners[0] && ok && row.DeletedAt == nil && row.ModeGiven.IsOwner() {
				sc.staleOffer[uid] = true
			}
		}
		delete(sc.staleOffer, owners[0])
		sc.offeredO = map[types.Uid]bool{}
	}
}

func metaRun(t *testing.T, focus string) {
	r := vfkit.New(focus)
	defer r.Finish()
	cfg := vfConfig{Push: true}
	if focus == "C07" {
		cfg.MaxSubs = 5
	}
	e := vfBoot(cfg)
	vfInstallRecorder(e)
	rng := r.Rand(1)
	n := r.Pick(12, 60)
	for i := 0; i < n; i++ {
		w := vfNewWorld(e, r, rng)
		kind := "grp"
		if focus != "C06" && i%3 == 2 {
			kind = "p2p"
		}
		metaNextDefacs = nil
		if focus == "C06" && i%4 == 3 {
			// the creator asks for a default access which contains O next to an unparsable one
			metaNextDefacs = map[string]any{"auth": "JRWPSO", "anon": []string{"Q!", "JRX", "N"}[(i/4)%3]}
		}
		metaNextChan = focus == "C06" && i%4 == 2
		sc := metaSetup(w, r, focus, kind)
		metaNextDefacs, metaNextChan = nil, false
		if sc != nil {
			metaScenario(sc, i)
		}
		w.closeAll()
		e.vfQuiesce()
		if i%5 == 4 {
			r.Flush(false)
		}
	}
	r.Info("quiesce_timeouts", vfQStats.Timeouts)
}

func metaScenario(sc *metaScn, idx int) {
	r, rng := sc.r, sc.w.rng
	// directed prefix so that the interesting states are reached in every scenario
	if sc.kind == "grp" {
		own := sc.actor("owner")
		sc.after(sc.do(sc.actor("admin"), "sub", nil, ""))
		sc.after(sc.do(sc.actor("member"), "sub", nil, ""))
		sc.after(sc.do(own, "setOther", sc.actor("admin"), "JRWPA"))
		sc.after(sc.do(sc.actor("admin"), "setSelf", nil, "JRWPAS"))
		if sc.focus == "C06" {
			// an administrator who is not the owner tries to demote the owner (J kept, O dropped) and to ban him
			sc.after(sc.do(sc.actor("admin"), "setOther", own, []string{"JRWPASD", "JRWPS", "JR", "J"}[idx%4]))
			sc.after(sc.do(sc.actor("admin"), "setOther", own, "RWPASDO"))
			r.Hit("admin_cannot_demote_owner")
		}
		if sc.focus == "C07" {
			// bans and restrictions survive removal + re-subscription
			mem := sc.actor("member")
			if idx%2 == 0 {
				sc.after(sc.do(own, "setOther", mem, "JRPS"))
				sc.after(sc.do(mem, "unsub", nil, ""))
				sc.after(sc.do(mem, "sub", nil, ""))
			} else {
				sc.after(sc.do(own, "setOther", mem, "N"))
				sc.after(sc.do(own, "delSub", mem, ""))
				sc.after(sc.do(mem, "sub", nil, ""))
				sc.after(sc.do(mem, "sub", nil, "JRWPS"))
			}
		}
		if sc.focus == "C07" && idx%2 == 1 {
			// a user who unsubscribed is invited again when the group is full: the limit counts live subscriptions,
			// whoever creates them
			str := sc.actor("stranger")
			sc.after(sc.do(str, "sub", nil, ""))
			sc.after(sc.do(str, "unsub", nil, ""))
			for _, role := range []string{"candidate", "sharer", "stranger"} {
				live := 0
				for _, row := range sc.rowsNow().subs {
					if row.DeletedAt == nil {
						live++
					}
				}
				if live >= sc.maxSubs || role == "stranger" {
					break
				}
				sc.after(sc.do(sc.actor(role), "sub", nil, ""))
			}
			live := 0
			for _, row := range sc.rowsNow().subs {
				if row.DeletedAt == nil {
					live++
				}
			}
			if live >= 2 && live <= sc.maxSubs {
				// the group is made exactly full by lowering the configured limit to the current head count
				saved := globals.maxSubscriberCount
				sc.w.e.vfQuiesce()
				globals.maxSubscriberCount, sc.maxSubs = live, live
				sc.after(sc.do(own, "setOther", str, ""))
				sc.after(sc.do(sc.actor("admin"), "setOther", str, "JRWPS"))
				sc.after(sc.do(str, "sub", nil, ""))
				r.Hit("full_group_reinvite_of_former_subscriber")
				sc.w.e.vfQuiesce()
				globals.maxSubscriberCount, sc.maxSubs = saved, saved
			}
		}
		switch idx % 4 {
		case 0:
			// candidate first subscribes asking for everything, later is offered ownership
			sc.after(sc.do(sc.actor("candidate"), "sub", nil, "JRWPASDO"))
			sc.after(sc.do(own, "setOther", sc.actor("candidate"), "JRWPASDO"))
			// a member is granted A but does not ask for it: the grant alone does not make an approver
			sc.after(sc.do(own, "setOther", sc.actor("member"), "JRWPAS"))
			sc.after(sc.do(sc.actor("member"), "setOther", sc.actor("sharer"), "JR"))
			sc.after(sc.do(sc.actor("member"), "delSub", sc.actor("admin"), ""))
			r.Hit("granted_but_not_requested_approver")
		case 1:
			// while the topic is not loaded the owner's own request takes the hub's offline path: giving up O or J
			// must be refused there as well, and so must a member's request for O
			sc.whileUnloaded(func() {
				sc.after(sc.do(own, "setSelf", nil, []string{"JRWPS", "JRWPASD", "RWPASDO", "N"}[rng.Intn(4)]))
				sc.after(sc.do(sc.actor("member"), "setSelf", nil, "JRWPSO"))
				sc.after(sc.do(sc.actor("member"), "setSelf", nil, "JRW"))
				r.Hit("offline_owner_cannot_give_up")
			})
			sc.after(sc.do(sc.actor("candidate"), "sub", nil, ""))
			sc.after(sc.do(own, "setOther", sc.actor("candidate"), "JRWPASDO"))
			sc.after(sc.do(sc.actor("candidate"), "setSelf", nil, "JRWPASDO"))
			// the previous owner asks for ownership back without being offered it
			sc.after(sc.do(own, "setSelf", nil, "JRWPS"))
			sc.after(sc.do(own, "setSelf", nil, "JRWPASDO"))
		case 2:
			// two pending transferees
			sc.after(sc.do(sc.actor("candidate"), "sub", nil, ""))
			sc.after(sc.do(own, "setOther", sc.actor("candidate"), "JRWPASDO"))
			sc.after(sc.do(own, "setOther", sc.actor("member"), "JRWPASDO"))
			// a transferee who has not accepted the offer tries to pass ownership on
			sc.after(sc.do(sc.actor("member"), "setOther", sc.actor("admin"), "JRWPASO"))
			sc.after(sc.do(own, "setOther", sc.actor("admin"), "JRWPASDO"))
			sc.after(sc.do(sc.actor("admin"), "setOther", sc.actor("sharer"), "JRWPASO"))
			sc.after(sc.do(sc.actor("admin"), "setOther", sc.actor("candidate"), "JRWPASDO"))
			r.Hit("pending_offeree_cannot_grant_ownership")
			// a transferee bans itself and re-joins without naming a mode: the pending offer must stay pending
			sc.after(sc.do(sc.actor("candidate"), "setSelf", nil, "N"))
			sc.after(sc.do(sc.actor("candidate"), "sub", nil, ""))
			r.Hit("rejoin_with_pending_offer")
			if sc.focus == "C06" {
				// the group is channel-enabled in these scenarios: the owner addresses it by its channel name
				sc.after(sc.do(own, "leaveChn", nil, ""))
				sc.after(sc.do(own, "unsubChn", nil, ""))
				sc.after(sc.do(own, "sub", nil, ""))
				r.Hit("owner_unsubscribes_by_channel_name")
			}
		case 3:
			sc.after(sc.do(own, "setOther", sc.actor("sharer"), ""))
			sc.after(sc.do(sc.actor("sharer"), "sub", nil, "JRWPS"))
			if sc.focus == "C06" {
				// the topic was created with O in the requested default access: newcomers must not be able to take
				// ownership which the owner never offered them; the same through a later {set desc defacs}
				sc.after(sc.do(sc.actor("candidate"), "sub", nil, ""))
				sc.after(sc.do(sc.actor("candidate"), "setSelf", nil, "JRWPSO"))
				sc.after(sc.c08SetDesc(own, map[string]any{"defacs": map[string]any{"auth": "JRWPSO", "anon": "Z?"}}))
				sc.after(sc.do(sc.actor("stranger"), "sub", nil, ""))
				sc.after(sc.do(sc.actor("stranger"), "setSelf", nil, "JRWPSO"))
				r.Hit("ownership_in_default_access")
			}
		}
	} else {
		a, b := sc.actor("peerA"), sc.actor("peerB")
		sc.after(sc.do(a, "sub", nil, ""))
		sc.after(sc.do(b, "sub", nil, ""))
		if sc.focus != "C06" && idx%2 == 0 {
			// requests of participants whose sessions are not attached, while the topic is not loaded (the hub's
			// offline path): the modes stay within JRWPA and keep A there as well
			sc.after(sc.do(a, "leave", nil, ""))
			sc.after(sc.do(b, "leave", nil, ""))
			sc.w.e.vfQuiesce()
			if sc.w.e.vfWaitUnloaded(sc.canon) {
				r.Hit("p2p_offline_set")
				sc.after(sc.do(a, "setSelf", nil, []string{"JRWP", "RW", "N", "JP"}[rng.Intn(4)]))
				sc.after(sc.do(b, "setSelf", nil, []string{"JRWPASDO", "JRWPS", "JRWPAD"}[rng.Intn(3)]))
				if sc.w.e.vfWaitUnloaded(sc.canon) {
					sc.after(sc.do(a, "setOther", b, []string{"JRW", "JRWPASDO", "N"}[rng.Intn(3)]))
				}
			}
			sc.after(sc.do(a, "sub", nil, ""))
			sc.after(sc.do(b, "sub", nil, ""))
		}
	}
	steps := 8 + rng.Intn(14)
	sc.quietOwner = sc.kind == "grp" && (sc.focus == "C05" || sc.focus == "C07") && idx%4 == 3
	for i := 0; i < steps && !sc.deleted; i++ {
		if rng.Intn(5) == 0 && !sc.quietOwner {
			if sc.metaReload() {
				r.Hit("reload_between_steps")
				sc.after(sc.steps[len(sc.steps)-1])
			}
			continue
		}
		sc.after(sc.metaRandomStep())
	}
	if sc.focus == "C07" {
		sc.c07Special()
	}
	if sc.focus == "C07" || sc.focus == "C05" {
		sc.c05Replay()
	}
	var cls []*vfClient
	for _, a := range sc.actors {
		cls = append(cls, a.c)
		if a.c2 != nil {
			cls = append(cls, a.c2)
		}
	}
	c05WireIntersection(r, cls)
	var shape []string
	for _, s := range sc.steps {
		shape = append(shape, fmt.Sprintf("%s/%s/%d", s.Actor, s.Kind, s.Code/100))
	}
	r.Eval(sc.kind + "/" + vfkit.Hash(shape))
	if idx < 2 {
		r.Sample(map[string]any{"kind": sc.kind, "script": sc.script()})
	}
}

// after applies the oracles selected by the focus to a finished step.
func (sc *metaScn) after(st *metaStep) {
	switch sc.focus {
	case "C06":
		sc.c06Check(st)
	case "C07":
		sc.c07Check(st)
	case "C05":
		// who may act is decided by the effective mode (want & given): the authorisation clauses apply here too
		sc.c07Check(st)
	case "C08":
		sc.c08Check(st)
	}
}

func TestVfC06(t *testing.T) { metaRun(t, "C06") }
func TestVfC07(t *testing.T) { metaRun(t, "C07") }

// TestVfC05Sim runs the engine with only the C05 wire/replay clauses.
func TestVfC05Sim(t *testing.T) { metaRun(t, "C05") }
