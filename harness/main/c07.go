//go:build verif

package main

import (
	"fmt"
	"strings"

	"github.com/tinode/chat/server/db/vfmem"
	"github.com/tinode/chat/server/store/types"
)

// ---- C07: permissions change only through authorised requests; bans and limits stick.

func live(r vfmem.SubRow, ok bool) bool { return ok && r.DeletedAt == nil }

func (sc *metaScn) c07Check(st *metaStep) {
	r := sc.r
	if st.Kind == "reload" {
		return
	}
	before, after := st.before, st.after
	uids := map[types.Uid]bool{}
	for u := range before.subs {
		uids[u] = true
	}
	for u := range after.subs {
		uids[u] = true
	}
	actorRow, actorHas := before.subs[st.actorU]
	actorEff := types.ModeNone
	if live(actorRow, actorHas) {
		actorEff = actorRow.ModeWant & actorRow.ModeGiven
	}
	var ownerBefore types.Uid
	var defAuth types.AccessMode
	if before.topic != nil {
		ownerBefore = before.topic.Owner
		defAuth = before.topic.Access.Auth
	}
	// is this step an acceptance of ownership by the actor?
	transfer := false
	if ar, ok := after.subs[st.actorU]; ok && sc.kind == "grp" && after.topic != nil {
		if (ar.ModeWant & ar.ModeGiven).IsOwner() && !(actorRow.ModeWant & actorRow.ModeGiven).IsOwner() && after.topic.Owner == st.actorU {
			transfer = true
		}
	}
	topicGone := after.topic == nil
	for uid := range uids {
		rb, hasB := before.subs[uid]
		ra, hasA := after.subs[uid]
		lb, la := live(rb, hasB), live(ra, hasA)
		who := sc.roleOf(uid)
		w := func() map[string]any { return sc.wit(st, map[string]any{"row_of": who}) }
		switch {
		case !lb && la:
			// subscription created or restored
			if sc.kind == "p2p" {
				continue // participants and modes are judged below
			}
			if uid == st.actorU {
				if st.Kind != "sub" {
					r.Violation("row-created-by-unexpected-request:"+st.Kind, "a subscription appeared in a step which is not the user's own {sub}", w())
					continue
				}
				if hasB {
					r.Hit("resubscribe_restores_grant")
					if ra.ModeGiven != rb.ModeGiven {
						r.Violation("resubscribe-grant-not-restored", fmt.Sprintf("%s re-subscribed: given %s, previous grant was %s", who, ra.ModeGiven, rb.ModeGiven), w())
					}
				} else {
					r.Hit("first_subscription_default_grant")
					if ra.ModeGiven != defAuth {
						r.Violation("first-subscription-grant-not-default", fmt.Sprintf("%s subscribed first time: given %s, topic default is %s", who, ra.ModeGiven, defAuth), w())
					}
				}
			} else {
				if st.Kind != "setOther" {
					r.Violation("row-created-by-unexpected-request:"+st.Kind, "a subscription of another user appeared in a step which is not an invitation", w())
					continue
				}
				r.Hit("invitation_authorised")
				if !actorEff.IsSharer() {
					r.Violation("invite-by-unauthorised:"+st.Actor, fmt.Sprintf("%s (mode %s) created a subscription for %s", st.Actor, actorEff, who), w())
				} else if !actorEff.IsAdmin() && ra.ModeGiven != (defAuth|types.ModeJoin) {
					r.Violation("sharer-invited-with-non-default-grant", fmt.Sprintf("sharer %s invited %s with given %s (default %s)", st.Actor, who, ra.ModeGiven, defAuth), w())
				}
				if ra.ModeGiven.IsOwner() && st.actorU != ownerBefore {
					r.Violation("ownership-granted-by-non-owner:"+st.Actor, "O granted by a user who is not the owner", w())
				}
			}
		case lb && la:
			if ra.ModeGiven != rb.ModeGiven {
				added := ra.ModeGiven &^ rb.ModeGiven
				removed := rb.ModeGiven &^ ra.ModeGiven
				switch {
				case uid == st.actorU:
					r.Hit("self_grant_change")
					if !rb.ModeGiven.IsAdmin() {
						// administrator = a user who has been granted A (or O); the same request may be the one asking for it in want
						r.Violation("self-raised-grant-without-admin:"+st.Actor, fmt.Sprintf("%s (given %s) changed own given %s -> %s", who, rb.ModeGiven, rb.ModeGiven, ra.ModeGiven), w())
					} else if uid != ownerBefore && !(rb.ModeGiven.IsOwner()) && (added.IsOwner() || added.IsDeleter()) {
						r.Violation("admin-self-granted-O-or-D:"+st.Actor, fmt.Sprintf("administrator raised own given by %s", added), w())
					}
					if removed != 0 {
						r.Violation("self-lowered-grant", fmt.Sprintf("%s lowered own given by %s", who, removed), w())
					}
				case transfer && uid == ownerBefore && added == 0 && removed == types.ModeOwner:
					r.Hit("transfer_strips_previous_owner")
				default:
					r.Hit("grant_changed_by_authorised")
					if st.Kind != "setOther" || st.targetU != uid {
						r.Violation("grant-changed-by-unexpected-request:"+st.Kind, fmt.Sprintf("given of %s changed %s -> %s in a step not addressed to that user", who, rb.ModeGiven, ra.ModeGiven), w())
					} else if !actorEff.IsAdmin() {
						r.Violation("grant-changed-by-unauthorised:"+st.Actor, fmt.Sprintf("%s (mode %s) changed given of %s: %s -> %s", st.Actor, actorEff, who, rb.ModeGiven, ra.ModeGiven), w())
					} else if added.IsOwner() && st.actorU != ownerBefore {
						r.Violation("ownership-granted-by-non-owner:"+st.Actor, "O granted by a user who is not the owner", w())
					}
				}
			}
			if ra.ModeWant != rb.ModeWant {
				switch {
				case uid == st.actorU:
					r.Hit("want_changed_by_self")
				case transfer && uid == ownerBefore && (rb.ModeWant&^ra.ModeWant) == types.ModeOwner && (ra.ModeWant&^rb.ModeWant) == 0:
					r.Hit("transfer_strips_previous_owner")
				default:
					r.Violation("want-changed-by-other:"+st.Kind+":"+st.Actor, fmt.Sprintf("want of %s changed %s -> %s by a request of %s", who, rb.ModeWant, ra.ModeWant, st.Actor), w())
				}
			}
		case lb && !la:
			if topicGone {
				continue
			}
			switch {
			case uid == st.actorU && (st.Kind == "unsub" || st.Kind == "delTopic"):
				r.Hit("removed_by_self")
			case uid != st.actorU && st.Kind == "delSub" && st.targetU == uid:
				r.Hit("removed_by_admin")
				if !actorEff.IsAdmin() {
					r.Violation("evicted-by-unauthorised:"+st.Actor, fmt.Sprintf("%s (mode %s) removed %s", st.Actor, actorEff, who), w())
				}
			case sc.kind == "p2p":
				// deleting a p2p topic for one side may mark both; judged by the participant rule only
			default:
				r.Violation("row-removed-by-unexpected-request:"+st.Kind+":"+st.Actor, fmt.Sprintf("subscription of %s removed by %s's %s", who, st.Actor, st.Kind), w())
			}
		}
	}
	// a grant without J cannot attach
	if st.Kind == "sub" && st.Code < 400 && st.Code >= 200 {
		ra, ok := after.subs[st.actorU]
		r.Hit("attach_requires_join")
		// the request may be acknowledged without attaching the session (the resulting mode lacks J): what matters is
		// whether the topic lists the session
		attachedNow := false
		if a := sc.actorByUid(st.actorU); a != nil {
			attachedNow = vfServerAttached(a.c, sc.canon)
		}
		if (!live(ra, ok) || !ra.ModeGiven.IsJoiner()) && attachedNow {
			if sc.kind != "p2p" || st.Actor != "third" {
				r.Violation("attached-without-join:"+st.Actor, fmt.Sprintf("{sub} answered %d but the subscription is missing or its grant lacks J", st.Code), sc.wit(st, nil))
			}
		}
	}
	// ... at any time: a session the topic lists belongs to a live subscription whose grant has J
	for _, a := range sc.actors {
		if !vfServerAttached(a.c, sc.canon) {
			continue
		}
		ra, ok := after.subs[a.u.uid]
		r.Hit("attached_sessions_have_join")
		if !live(ra, ok) || !ra.ModeGiven.IsJoiner() {
			r.Violation("attached-without-join:listed:"+a.role, fmt.Sprintf("after the step the topic lists a session of %s whose subscription is missing, deleted or granted no J", a.role), sc.wit(st, nil))
		}
	}
	if sc.kind == "p2p" {
		r.Hit("p2p_two_participants")
		a, b := sc.actor("peerA").u.uid, sc.actor("peerB").u.uid
		for uid, ra := range after.subs {
			if uid != a && uid != b {
				r.Violation("p2p-third-participant", "a p2p topic got a subscription of a third user", sc.wit(st, nil))
			}
			if ra.DeletedAt != nil {
				continue
			}
			if (ra.ModeWant|ra.ModeGiven)&^types.ModeCP2P != 0 {
				r.Violation("p2p-mode-exceeds-JRWPA", fmt.Sprintf("p2p modes want=%s given=%s", ra.ModeWant, ra.ModeGiven), sc.wit(st, nil))
			}
			if !ra.ModeGiven.IsApprover() || !ra.ModeWant.IsApprover() {
				r.Violation("p2p-mode-lost-A:"+st.Kind, fmt.Sprintf("p2p modes want=%s given=%s", ra.ModeWant, ra.ModeGiven), sc.wit(st, nil))
			}
		}
		if st.Actor == "third" && st.Code < 300 && st.Code >= 200 && (st.Kind == "sub" || st.Kind == "pub" || st.Kind == "setSelf") {
			r.Violation("p2p-third-party-accepted:"+st.Kind, "a third user's request on a literal p2p name was accepted", sc.wit(st, nil))
		}
	} else if after.topic != nil {
		n := 0
		for _, ra := range after.subs {
			if ra.DeletedAt == nil {
				n++
			}
		}
		r.Hit("subscriber_limit")
		if n > globals.maxSubscriberCount {
			r.Violation("subscriber-limit-exceeded", fmt.Sprintf("%d live subscriptions, configured limit %d", n, globals.maxSubscriberCount), sc.wit(st, nil))
		}
	}
}

// c07Special: me/fnd admit only their own user, sys only root.
func (sc *metaScn) c07Special() {
	r := sc.r
	a := sc.actors[len(sc.actors)-1]
	f := a.c.sub("sys", nil)
	r.Hit("sys_only_root")
	if f == nil || f.code() < 400 {
		r.Violation("sys-joined-by-non-root", "non-root user attached to sys: "+frameStr(f), nil)
	}
	other := sc.actors[0]
	// literal names of another user's me/fnd
	for _, name := range []string{other.u.uid.FndName(), "fnd" + strings.TrimPrefix(other.u.uid.UserId(), "usr")} {
		f := a.c.sub(name, nil)
		r.Hit("me_fnd_only_owner")
		if f != nil && f.code() < 400 {
			r.Violation("foreign-fnd-joined", "user attached to another user's fnd topic: "+frameStr(f), nil)
		}
	}
	sc.w.e.vfQuiesce()
	vfmem.A.View(func(db *vfmem.DB) {
		for _, s := range db.Subs {
			if strings.HasPrefix(s.Topic, "usr") && s.Topic != s.User.UserId() {
				r.Violation("foreign-me-row", "subscription row of a 'me' topic for another user", nil)
			}
			if strings.HasPrefix(s.Topic, "fnd") && s.Topic != s.User.FndName() {
				r.Violation("foreign-fnd-row", "subscription row of a 'fnd' topic for another user", nil)
			}
			if s.Topic == "sys" {
				if u := db.Users[s.User]; u == nil {
					continue
				}
			}
		}
	})
}
