//go:build verif

package main

import (
	"bytes"
	"encoding/json"
	"fmt"
	"io"
	"math/rand"
	"net/http"
	"net/url"
	"strings"
	"sync"
	"sync/atomic"
	"testing"
	"time"

	"github.com/tinode/chat/pbx"
	"github.com/tinode/chat/server/auth"
	"github.com/tinode/chat/server/vfkit"
)

// C13 on the other two transports: the gRPC stream (typed messages with hostile field values, empty
// sub-messages, undecodable JSON bytes, out-of-range enums) and HTTP long polling (hostile bodies, session
// ids, methods, parallel polls). Same verdicts as on the websocket: the process lives, a bystander is served,
// every request with an id is answered on the connection it came from.

// ---------------------------------------------------------------------------------------
// gRPC

func c13PbMutate(rng *rand.Rand, pkt *pbx.ClientMsg) string {
	junk := [][]byte{nil, {}, []byte("{"), []byte("nul"), []byte("\xff\xfe"), []byte(`{"a":`), []byte(`"unterminated`), []byte("[1,2"), []byte(strings.Repeat("[", 2000)),
		[]byte(`{"fn":"ok"}`), []byte(`null`), []byte(`5`), []byte(`"␡"`), bytes.Repeat([]byte("A"), 70000)}
	jb := func() []byte { return junk[rng.Intn(len(junk))] }
	jm := func() map[string][]byte {
		switch rng.Intn(4) {
		case 0:
			return nil
		case 1:
			return map[string][]byte{}
		case 2:
			return map[string][]byte{"mime": jb(), "": jb(), "replace": []byte(`":1"`), "webrtc": jb()}
		}
		return map[string][]byte{"x": jb()}
	}
	switch rng.Intn(14) {
	case 0:
		pkt.Message = nil
		return "no-message"
	case 1:
		if s := pkt.GetSet(); s != nil {
			s.Query = &pbx.SetQuery{}
			return "set-empty-query"
		}
		pkt.Message = &pbx.ClientMsg_Set{Set: &pbx.ClientSet{Id: "e1", Topic: "me", Query: &pbx.SetQuery{}}}
		return "set-empty-query"
	case 2:
		if s := pkt.GetSub(); s != nil {
			s.SetQuery, s.GetQuery = &pbx.SetQuery{}, &pbx.GetQuery{}
			return "sub-empty-queries"
		}
		pkt.Message = &pbx.ClientMsg_Sub{Sub: &pbx.ClientSub{Id: "e2", Topic: "me", SetQuery: &pbx.SetQuery{Sub: &pbx.SetSub{}, Desc: &pbx.SetDesc{}}, GetQuery: &pbx.GetQuery{Desc: &pbx.GetOpts{}, Sub: &pbx.GetOpts{}, Data: &pbx.GetOpts{}}}}
		return "sub-empty-queries"
	case 3:
		if g := pkt.GetGet(); g != nil {
			g.Query = &pbx.GetQuery{}
			return "get-empty-query"
		}
		pkt.Message = &pbx.ClientMsg_Get{Get: &pbx.ClientGet{Id: "e3", Topic: "me"}}
		return "get-no-query"
	case 4:
		if p := pkt.GetPub(); p != nil {
			p.Content, p.Head = jb(), jm()
			return "pub-junk-bytes"
		}
	case 5:
		if a := pkt.GetAcc(); a != nil {
			a.Desc = &pbx.SetDesc{Public: jb(), Private: jb(), Trusted: jb(), DefaultAcs: &pbx.DefaultAcsMode{}}
			a.Cred = []*pbx.ClientCred{nil, {}, {Method: "email", Params: jm()}}
			a.AuthLevel = pbx.AuthLevel(rng.Intn(100) - 10)
			return "acc-junk"
		}
	case 6:
		if d := pkt.GetDel(); d != nil {
			d.What = pbx.ClientDel_What(rng.Intn(20) - 5)
			d.DelSeq = []*pbx.SeqRange{nil, {}, {Low: -1, Hi: -5}, {Low: 1 << 30, Hi: 1}}
			d.Cred = &pbx.ClientCred{}
			return "del-junk"
		}
		pkt.Message = &pbx.ClientMsg_Del{Del: &pbx.ClientDel{Id: "e6"}}
		return "del-empty"
	case 7:
		if n := pkt.GetNote(); n != nil {
			n.What = pbx.InfoNote(rng.Intn(20) - 5)
			n.Event = pbx.CallEvent(rng.Intn(20) - 5)
			n.Payload = jb()
			n.SeqId = int32(rng.Intn(10) - 5)
			return "note-junk"
		}
		pkt.Message = &pbx.ClientMsg_Note{Note: &pbx.ClientNote{}}
		return "note-empty"
	case 8:
		pkt.Extra = &pbx.ClientExtra{Attachments: []string{"", "junk", "/v0/file/s/AAAAAAAAAAA", strings.Repeat("x", 5000)}, OnBehalfOf: []string{"", "usr", "usrAAAAAAAAAAA", "junk"}[rng.Intn(4)], AuthLevel: pbx.AuthLevel(rng.Intn(60) - 10)}
		return "extra-junk"
	case 9:
		if s := pkt.GetSet(); s != nil {
			s.Query = &pbx.SetQuery{Desc: &pbx.SetDesc{Public: jb(), Private: jb()}, Sub: &pbx.SetSub{Mode: "junk!"}, Tags: []string{"", " ", strings.Repeat("t", 200)}, Cred: &pbx.ClientCred{Params: jm()}}
			return "set-junk"
		}
	case 10:
		if l := pkt.GetLogin(); l != nil {
			l.Secret = jb()
			l.Cred = []*pbx.ClientCred{nil}
			return "login-junk"
		}
		pkt.Message = &pbx.ClientMsg_Login{Login: &pbx.ClientLogin{Id: "e10"}}
		return "login-empty"
	case 11:
		pkt.Message = &pbx.ClientMsg_Hi{Hi: &pbx.ClientHi{Id: "e11"}}
		return "hi-empty"
	case 12:
		pkt.Message = &pbx.ClientMsg_Leave{Leave: &pbx.ClientLeave{Id: "e12"}}
		return "leave-empty"
	}
	return "as-generated"
}

func c13PbId(pkt *pbx.ClientMsg) string {
	switch {
	case pkt.GetHi() != nil:
		return pkt.GetHi().GetId()
	case pkt.GetAcc() != nil:
		return pkt.GetAcc().GetId()
	case pkt.GetLogin() != nil:
		return pkt.GetLogin().GetId()
	case pkt.GetSub() != nil:
		return pkt.GetSub().GetId()
	case pkt.GetLeave() != nil:
		return pkt.GetLeave().GetId()
	case pkt.GetPub() != nil:
		return pkt.GetPub().GetId()
	case pkt.GetGet() != nil:
		return pkt.GetGet().GetId()
	case pkt.GetSet() != nil:
		return pkt.GetSet().GetId()
	case pkt.GetDel() != nil:
		return pkt.GetDel().GetId()
	}
	return ""
}
func c13PbSetId(pkt *pbx.ClientMsg, id string) {
	switch {
	case pkt.GetHi() != nil:
		pkt.GetHi().Id = id
	case pkt.GetAcc() != nil:
		pkt.GetAcc().Id = id
	case pkt.GetLogin() != nil:
		pkt.GetLogin().Id = id
	case pkt.GetSub() != nil:
		pkt.GetSub().Id = id
	case pkt.GetLeave() != nil:
		pkt.GetLeave().Id = id
	case pkt.GetPub() != nil:
		pkt.GetPub().Id = id
	case pkt.GetGet() != nil:
		pkt.GetGet().Id = id
	case pkt.GetSet() != nil:
		pkt.GetSet().Id = id
	case pkt.GetDel() != nil:
		pkt.GetDel().Id = id
	}
}

func (g *c20Grpc) isClosed() bool {
	g.mu.Lock()
	defer g.mu.Unlock()
	return g.closed
}

func TestVfC13Grpc(t *testing.T) {
	r := vfkit.New("C13")
	defer r.Finish()
	b := r.Batch()
	cfg := vfConfig{Media: b&1 != 0, EmailVal: b&2 != 0, Push: true, Calls: b&4 != 0, MaxMsgSize: 1 << 17}
	e := vfBoot(cfg)
	vfInstallRecorder(e)
	addr := e.c20StartGrpc()
	rng := r.Rand(131)
	w := vfNewWorld(e, r, rng)
	by := w.user("bystander", auth.LevelAuth)
	cby := w.conn(by, false)
	cby.sub("me", nil)
	g := &c13Gen{rng: rng}
	var fuzzers []*vfUser
	for i := 0; i < 3; i++ {
		lvl := auth.LevelAuth
		if i == 2 {
			lvl = auth.LevelRoot
		}
		u := w.user(fmt.Sprintf("g%d", i), lvl)
		fuzzers = append(fuzzers, u)
		g.uids = append(g.uids, u.uid.UserId())
	}
	c0 := w.conn(fuzzers[0], false)
	if name, f := c0.newGroup(rng.Intn(2) == 0, map[string]any{"public": "fuzz"}); f != nil && f.code() == 200 {
		g.topics = append(g.topics, name)
		for i := 0; i < 3; i++ {
			c0.pub(name, fmt.Sprintf("seed %d", i), false, nil)
		}
	}
	e.vfQuiesce()

	type sentRec struct {
		c    *c20Grpc
		id   string
		desc string
	}
	var sent []sentRec
	var clients []*c20Grpc
	authed := map[*c20Grpc]bool{}
	nid := 0
	bystanderOK := func(at int) bool {
		ans := cby.get("me", "desc", nil)
		r.Hit("bystander_roundtrip")
		if len(ans.Meta) == 0 && ans.Ctrl == nil {
			r.Violation("bystander-not-served:grpc", fmt.Sprintf("a bystander session was not answered after %d gRPC fuzz commands", at), nil)
			return false
		}
		return true
	}
	ncmd := r.Pick(500, 3000)
	for i := 0; i < ncmd; i++ {
		if len(clients) < 4 && rng.Intn(8) == 0 || len(clients) == 0 {
			c := e.c20Dial(addr, fmt.Sprintf("grpc%d", i))
			switch rng.Intn(3) {
			case 1:
				c.send(map[string]any{"hi": map[string]any{"id": "h", "ver": "0.22", "ua": "vf/" + c.name}})
			case 2:
				u := fuzzers[rng.Intn(len(fuzzers))]
				c.send(map[string]any{"hi": map[string]any{"id": "h", "ver": "0.22", "ua": "vf/" + c.name}})
				c.send(map[string]any{"login": map[string]any{"id": "l", "scheme": "token", "secret": u.tok}})
				authed[c] = true
			}
			clients = append(clients, c)
		}
		c := clients[rng.Intn(len(clients))]
		if c.isClosed() {
			for k, x := range clients {
				if x == c {
					clients = append(clients[:k], clients[k+1:]...)
					break
				}
			}
			continue
		}
		kind, body, extra, _ := g.message(authed[c])
		msg := map[string]any{kind: body}
		if extra != nil {
			msg["extra"] = extra
		}
		pkt := c20ToPb(msg)
		how := "as-generated"
		if rng.Intn(3) == 0 {
			how = c13PbMutate(rng, pkt)
		}
		id := ""
		if pkt.Message != nil && pkt.GetNote() == nil && rng.Intn(10) != 0 {
			nid++
			id = fmt.Sprintf("%s-%d", c.name, nid)
			c13PbSetId(pkt, id)
		}
		desc := fmt.Sprintf("%s (%s) %s", kind, how, truncate(pkt.String(), 600))
		// on disk before it is sent
		e.vfLog("send", map[string]any{"c": c.name, "pb": truncate(pkt.String(), 4000), "how": how})
		c.wmu.Lock()
		err := c.stream.Send(pkt)
		c.wmu.Unlock()
		r.Hit("grpc_input")
		r.Eval("grpc:" + kind + ":" + how)
		if err == nil && id != "" && (pkt.Extra == nil || pkt.Extra.OnBehalfOf == "") {
			sent = append(sent, sentRec{c, id, desc})
		}
		if rng.Intn(4) == 0 {
			time.Sleep(time.Duration(rng.Intn(300)) * time.Microsecond)
		}
		if i%50 == 49 {
			e.vfQuiesce()
			if !bystanderOK(i) {
				return
			}
			r.Flush(false)
		}
	}
	if !e.vfQuiesce() {
		r.Inconclusive("c13 grpc: no quiescence at the end")
	}
	bystanderOK(ncmd)
	for _, s := range sent {
		found := false
		for _, f := range s.c.since(0) {
			if f.B != nil && f.str("id") == s.id {
				found = true
				break
			}
		}
		r.Hit("grpc_request_answered")
		// a session which the server has stopped (account deleted, evicted) is told so with an id-less {ctrl 205}; the
		// gRPC stream itself stays open until the client sends again, so the notice stands for "connection closed"
		stopped := false
		for _, f := range s.c.since(0) {
			if f.Kind == "ctrl" && f.code() == 205 && f.str("id") == "" && f.str("topic") == "" {
				stopped = true
			}
		}
		if !found && !s.c.isClosed() && !stopped {
			r.Violation("unanswered:grpc:"+strings.SplitN(s.desc, " ", 2)[0], fmt.Sprintf("gRPC request %s got no reply carrying its id", s.desc), nil)
		}
	}
	for _, c := range clients {
		c.close()
	}
	w.closeAll()
	e.vfQuiesce()
}

// ---------------------------------------------------------------------------------------
// long polling

type c13LP struct {
	e       *vfEnv
	name    string
	sid     string
	hc      *http.Client
	mu      sync.Mutex
	frames  []*vfFrame
	aborted []string
	stop    int32
	wg      sync.WaitGroup
	gone    int32
}

func (l *c13LP) url(sid string) string {
	return l.e.httpURL + "/v0/channels/lp?apikey=" + url.QueryEscape(l.e.apiKey) + "&sid=" + url.QueryEscape(sid)
}

func c13LPOpen(e *vfEnv, name string) *c13LP {
	l := &c13LP{e: e, name: name, hc: &http.Client{Timeout: 90 * time.Second}}
	resp, err := l.hc.Get(e.httpURL + "/v0/channels/lp?apikey=" + url.QueryEscape(e.apiKey))
	if err != nil {
		return nil
	}
	defer resp.Body.Close()
	var m map[string]any
	json.NewDecoder(resp.Body).Decode(&m)
	ctrl, _ := m["ctrl"].(map[string]any)
	params, _ := ctrl["params"].(map[string]any)
	l.sid, _ = params["sid"].(string)
	if l.sid == "" {
		return nil
	}
	return l
}

// poller keeps one poll request outstanding.
func (l *c13LP) poller() {
	defer l.wg.Done()
	for atomic.LoadInt32(&l.stop) == 0 {
		resp, err := l.hc.Get(l.url(l.sid))
		if err != nil {
			if atomic.LoadInt32(&l.stop) != 0 {
				return
			}
			if strings.Contains(err.Error(), "Client.Timeout") || strings.Contains(err.Error(), "deadline exceeded") {
				// the client gave up waiting on an idle poll (the server holds it for up to a ping period): not an abort
				continue
			}
			l.mu.Lock()
			l.aborted = append(l.aborted, err.Error())
			l.mu.Unlock()
			time.Sleep(2 * time.Millisecond)
			continue
		}
		body, rerr := io.ReadAll(resp.Body)
		resp.Body.Close()
		if rerr != nil {
			l.mu.Lock()
			l.aborted = append(l.aborted, "body: "+rerr.Error())
			l.mu.Unlock()
			continue
		}
		if resp.StatusCode == http.StatusForbidden {
			// session is gone (closed by the server, e.g. account deleted)
			atomic.StoreInt32(&l.gone, 1)
			return
		}
		if len(bytes.TrimSpace(body)) == 0 {
			continue
		}
		f := vfParseFrame(bytes.TrimSpace(body))
		f.T = l.e.now()
		l.e.vfLog("recv", map[string]any{"c": l.name, "raw": string(body)})
		l.mu.Lock()
		f.N = len(l.frames)
		l.frames = append(l.frames, f)
		l.mu.Unlock()
		atomic.AddInt64(&l.e.framesIn, 1)
	}
}

func (l *c13LP) start(pollers int) {
	for i := 0; i < pollers; i++ {
		l.wg.Add(1)
		go l.poller()
	}
}

func (l *c13LP) post(raw []byte) (int, error) {
	l.e.vfLog("send", map[string]any{"c": l.name, "raw": truncate(string(raw), 4000)})
	resp, err := l.hc.Post(l.url(l.sid), "text/plain", bytes.NewReader(raw))
	if err != nil {
		return 0, err
	}
	io.Copy(io.Discard, resp.Body)
	resp.Body.Close()
	return resp.StatusCode, nil
}

func (l *c13LP) all() []*vfFrame {
	l.mu.Lock()
	defer l.mu.Unlock()
	return append([]*vfFrame{}, l.frames...)
}

func (l *c13LP) shutdown() {
	atomic.StoreInt32(&l.stop, 1)
	l.hc.CloseIdleConnections()
}

func TestVfC13LongPoll(t *testing.T) {
	r := vfkit.New("C13")
	defer r.Finish()
	b := r.Batch()
	cfg := vfConfig{Media: b&1 != 0, EmailVal: b&2 != 0, Push: true, Calls: b&4 != 0, MaxMsgSize: 1 << 16}
	e := vfBoot(cfg)
	vfInstallRecorder(e)
	rng := r.Rand(132)
	w := vfNewWorld(e, r, rng)
	by := w.user("bystander", auth.LevelAuth)
	cby := w.conn(by, false)
	cby.sub("me", nil)
	g := &c13Gen{rng: rng}
	var fuzzers []*vfUser
	for i := 0; i < 3; i++ {
		lvl := auth.LevelAuth
		if i == 2 {
			lvl = auth.LevelRoot
		}
		u := w.user(fmt.Sprintf("p%d", i), lvl)
		fuzzers = append(fuzzers, u)
		g.uids = append(g.uids, u.uid.UserId())
	}
	c0 := w.conn(fuzzers[0], false)
	var grp string
	if name, f := c0.newGroup(false, map[string]any{"public": "fuzz"}); f != nil && f.code() == 200 {
		grp = name
		g.topics = append(g.topics, name)
		for i := 0; i < 5; i++ {
			c0.pub(name, fmt.Sprintf("seed %d", i), false, nil)
		}
	}
	e.vfQuiesce()

	bystanderOK := func(at int) bool {
		ans := cby.get("me", "desc", nil)
		r.Hit("bystander_roundtrip")
		if len(ans.Meta) == 0 && ans.Ctrl == nil {
			r.Violation("bystander-not-served:longpoll", fmt.Sprintf("a bystander session was not answered after %d long-poll fuzz commands", at), nil)
			return false
		}
		return true
	}

	// directed first: an ordinary long-poll session reads history (several messages in one answer)
	{
		l := c13LPOpen(e, "lp-directed")
		if l == nil {
			r.Violation("longpoll:cannot-open", "long polling session could not be opened", nil)
			return
		}
		l.start(1)
		l.post([]byte(vfJSON(map[string]any{"hi": map[string]any{"id": "h", "ver": "0.22", "ua": "vf/lp-directed"}})))
		l.post([]byte(vfJSON(map[string]any{"login": map[string]any{"id": "l", "scheme": "token", "secret": fuzzers[0].tok}})))
		l.post([]byte(vfJSON(map[string]any{"sub": map[string]any{"id": "s", "topic": grp}})))
		l.post([]byte(vfJSON(map[string]any{"get": map[string]any{"id": "gd", "topic": grp, "what": "data"}})))
		vfWaitCond(3*time.Second, func() bool {
			n := 0
			for _, f := range l.all() {
				if f.Kind == "data" {
					n++
				}
			}
			return n >= 5
		})
		e.vfQuiesce()
		nd, gotCtrl := 0, false
		for _, f := range l.all() {
			if f.Kind == "data" {
				nd++
			}
			if f.Kind == "ctrl" && f.str("id") == "gd" {
				gotCtrl = true
			}
		}
		r.Hit("longpoll_history")
		r.Eval("longpoll:directed-history")
		l.mu.Lock()
		ab := append([]string{}, l.aborted...)
		l.mu.Unlock()
		if nd != 5 || len(ab) > 0 {
			r.Violation("longpoll-history-lost", fmt.Sprintf("{get data} over long polling: %d of 5 stored messages delivered, closing ctrl received=%v, polls aborted by the server: %v", nd, gotCtrl, ab), map[string]any{"frames": frames2raw(l.all())})
		}
		// the session stays attached and keeps polling until the end (a long-poll session cannot be closed by the client)
		defer l.shutdown()
	}

	type sentRec struct {
		l    *c13LP
		id   string
		kind string
		raw  string
	}
	var sent []sentRec
	var clients []*c13LP
	authed := map[*c13LP]bool{}
	nid := 0
	ncmd := r.Pick(400, 2500)
	for i := 0; i < ncmd; i++ {
		if len(clients) < 3 && rng.Intn(8) == 0 || len(clients) == 0 {
			l := c13LPOpen(e, fmt.Sprintf("lp%d", i))
			if l == nil {
				r.Violation("longpoll:cannot-open", "long polling session could not be opened", nil)
				return
			}
			l.start(1 + rng.Intn(2))
			switch rng.Intn(3) {
			case 1:
				l.post([]byte(vfJSON(map[string]any{"hi": map[string]any{"id": "h", "ver": "0.22", "ua": "vf/" + l.name}})))
			case 2:
				u := fuzzers[rng.Intn(len(fuzzers))]
				l.post([]byte(vfJSON(map[string]any{"hi": map[string]any{"id": "h", "ver": "0.22", "ua": "vf/" + l.name}})))
				l.post([]byte(vfJSON(map[string]any{"login": map[string]any{"id": "l", "scheme": "token", "secret": u.tok}})))
				authed[l] = true
			}
			clients = append(clients, l)
		}
		l := clients[rng.Intn(len(clients))]
		if atomic.LoadInt32(&l.gone) != 0 {
			for k, x := range clients {
				if x == l {
					clients = append(clients[:k], clients[k+1:]...)
					break
				}
			}
			continue
		}
		switch k := rng.Intn(20); {
		case k == 0:
			// HTTP-level hostility
			var req *http.Request
			switch rng.Intn(6) {
			case 0:
				req, _ = http.NewRequest("POST", l.url("nosuchsession"), strings.NewReader(`{"hi":{"id":"x","ver":"0.22"}}`))
			case 1:
				req, _ = http.NewRequest("POST", e.httpURL+"/v0/channels/lp?sid="+l.sid, strings.NewReader(`{"hi":{}}`))
			case 2:
				req, _ = http.NewRequest([]string{"PUT", "DELETE", "OPTIONS", "HEAD", "PATCH"}[rng.Intn(5)], l.url(l.sid), strings.NewReader("{}"))
			case 3:
				req, _ = http.NewRequest("POST", l.url(l.sid), bytes.NewReader(bytes.Repeat([]byte("A"), 1<<17)))
			case 4:
				req, _ = http.NewRequest("POST", l.url(l.sid)+"&id=%ff%fe&sid=another", strings.NewReader("x"))
			default:
				req, _ = http.NewRequest("POST", l.url(strings.Repeat("s", 4000)), strings.NewReader("{}"))
			}
			if req != nil {
				if resp, err := l.hc.Do(req); err == nil {
					io.Copy(io.Discard, resp.Body)
					resp.Body.Close()
				}
			}
			r.Hit("longpoll_http_hostile")
			r.Eval("longpoll:http-hostile")
		case k < 3:
			raw := c13Raw[rng.Intn(len(c13Raw))]
			if raw == "" {
				raw = " "
			}
			l.post([]byte(raw))
			r.Hit("longpoll_raw_input")
		default:
			kind, body, extra, _ := g.message(authed[l])
			id := ""
			if kind != "note" && rng.Intn(10) != 0 {
				nid++
				id = fmt.Sprintf("%s-%d", l.name, nid)
				body["id"] = id
			}
			msg := map[string]any{kind: body}
			if extra != nil {
				msg["extra"] = extra
			}
			raw := vfJSON(msg)
			code, err := l.post([]byte(raw))
			r.Hit("longpoll_input")
			r.Eval("longpoll:" + kind + "/" + vfkit.Hash(shapeOf(body)))
			var probe ClientComMessage
			decodable := json.Unmarshal([]byte(raw), &probe) == nil
			obo := false
			if ex, ok := msg["extra"].(map[string]any); ok {
				if o, _ := ex["obo"].(string); o != "" {
					obo = true
				}
			}
			if err == nil && code == 200 && id != "" && decodable && !obo {
				sent = append(sent, sentRec{l, id, kind, raw})
			}
		}
		if i%50 == 49 {
			e.vfQuiesce()
			if !bystanderOK(i) {
				return
			}
			r.Flush(false)
		}
	}
	// let the pollers drain what is queued
	vfWaitCond(5*time.Second, func() bool {
		idle := true
		ss := globals.sessionStore
		ss.lock.Lock()
		for _, s := range ss.sessCache {
			if s.proto == LPOLL && len(s.send) != 0 {
				idle = false
			}
		}
		ss.lock.Unlock()
		return idle
	})
	if !e.vfQuiesce() {
		r.Inconclusive("c13 longpoll: no quiescence at the end: " + vfQWhy)
	}
	bystanderOK(ncmd)
	for _, s := range sent {
		found := false
		for _, f := range s.l.all() {
			if f.B != nil && f.str("id") == s.id {
				found = true
				break
			}
		}
		r.Hit("longpoll_request_answered")
		if !found && atomic.LoadInt32(&s.l.gone) == 0 {
			r.Violation("unanswered:longpoll:"+s.kind, fmt.Sprintf("long-poll request %s got no reply carrying its id", truncate(s.raw, 300)), map[string]any{"request": truncate(s.raw, 2000)})
		}
	}
	for _, l := range clients {
		l.mu.Lock()
		ab := append([]string{}, l.aborted...)
		l.mu.Unlock()
		r.Hit("longpoll_polls_not_aborted")
		if len(ab) > 0 {
			r.Violation("longpoll-poll-aborted", fmt.Sprintf("%d poll requests of session %s were aborted by the server: %v", len(ab), l.name, ab[:min(len(ab), 3)]), nil)
		}
		l.shutdown()
	}
	w.closeAll()
}
