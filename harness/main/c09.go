//go:build verif

package main

import (
	"errors"
	"fmt"
	"sort"
	"testing"

	"github.com/tinode/chat/server/db/vfmem"
	"github.com/tinode/chat/server/store/types"
	"github.com/tinode/chat/server/vfkit"
)

// ---- C09: read/received marks only move forward and stay within bounds; note relaying.

var errC09Injected = errors.New("vf injected failure of the marks update")

type c09State struct {
	lastSeq int
	// per (user) marks as last stored, to check monotonicity within a subscription lifetime
	read map[types.Uid]int
	recv map[types.Uid]int
	live map[types.Uid]bool
	// users whose stored marks are known to be out of order because of the recorded finding
	// (read note beyond the received mark); reported once at the triggering step.
	tainted     map[types.Uid]bool
	allowBeyond bool
	// marks as last reported to the user itself in {meta desc}
	repRead, repRecv map[types.Uid]int
}

func (sc *pubScn) c09Rows() (map[types.Uid]vfmem.SubRow, map[types.Uid]vfmem.SubRow, int) {
	grp, chn, tr := sc.rows()
	seq := 0
	if tr != nil {
		seq = tr.SeqId
	}
	return grp, chn, seq
}

func (sc *pubScn) c09CheckRows(st *c09State, what string, trigger string) {
	r := sc.r
	grp, chn, seq := sc.c09Rows()
	check := func(uid types.Uid, row vfmem.SubRow, label string) {
		if row.DeletedAt != nil {
			delete(st.live, uid)
			delete(st.read, uid)
			delete(st.recv, uid)
			delete(st.repRead, uid)
			delete(st.repRecv, uid)
			return
		}
		r.Hit("stored_marks_bounds")
		if (row.ReadSeqId < 0 || row.ReadSeqId > row.RecvSeqId || row.RecvSeqId > seq) && !st.tainted[uid] {
			if trigger == "read-note-beyond-recv" {
				st.tainted[uid] = true
			}
			sig := "marks-order:stored:" + trigger
			r.Violation(sig, fmt.Sprintf("stored marks of %s%s: read=%d recv=%d topic seq=%d (after %s)", label, sc.roleOf(uid.UserId()), row.ReadSeqId, row.RecvSeqId, seq, what),
				map[string]any{"script": sc.script})
		}
		if st.live[uid] {
			r.Hit("marks_monotonic")
			if row.ReadSeqId < st.read[uid] || row.RecvSeqId < st.recv[uid] {
				sigx := "marks-decreased:" + trigger
				if label != "" {
					sigx += ":chanReader"
				}
				r.Violation(sigx, fmt.Sprintf("marks of %s went backwards: read %d->%d recv %d->%d (after %s)", sc.roleOf(uid.UserId()), st.read[uid], row.ReadSeqId, st.recv[uid], row.RecvSeqId, what),
					map[string]any{"script": sc.script})
			}
		}
		st.live[uid] = true
		st.read[uid], st.recv[uid] = row.ReadSeqId, row.RecvSeqId
	}
	// a subscription whose row is gone altogether (p2p topic deleted after both participants left) has ended as well
	for uid := range st.live {
		_, g := grp[uid]
		_, c := chn[uid]
		if !g && !c {
			delete(st.live, uid)
			delete(st.read, uid)
			delete(st.recv, uid)
			delete(st.repRead, uid)
			delete(st.repRecv, uid)
		}
	}
	for uid, row := range grp {
		check(uid, row, "")
	}
	for uid, row := range chn {
		if _, both := grp[uid]; !both {
			check(uid, row, "channel reader ")
		}
	}
}

// c09Reported: marks in every {meta desc}/{meta sub} satisfy 0 <= read <= recv <= seq.
func (sc *pubScn) c09Reported(a *pubActor, c *vfClient) {
	r := sc.r
	name := sc.nameFor(a)
	if !c.attachState()[name] {
		return
	}
	_, _, seq := sc.c09Rows()
	num := func(m map[string]any, k string) int {
		v, _ := m[k].(float64)
		return int(v)
	}
	ans := c.getX(name, "desc", nil, a.extra())
	if len(ans.Meta) > 0 {
		if d, ok := ans.Meta[0].B["desc"].(map[string]any); ok {
			r.Hit("reported_marks_bounds")
			rd, rc, sq := num(d, "read"), num(d, "recv"), num(d, "seq")
			if sc.tainted != nil && sc.tainted[a.actingUser().uid] {
				return
			}
			// a subscriber without R is not told the topic's seq: only the order is checked then
			_, told := d["seq"] // a subscriber without R is told neither the topic's seq nor any marks
			if st := sc.c09st; st != nil && told && !a.chanSub && st.live[a.actingUser().uid] {
				// "neither mark ever decreases ... in every place they are reported": what the subscriber is told
				// must not be below what has been stored for this subscription already
				r.Hit("reported_marks_not_below_stored")
				u := a.actingUser().uid
				if rd < st.read[u] || rc < st.recv[u] {
					r.Violation("marks-decreased:reported:desc", fmt.Sprintf("{meta desc} for %s reports read=%d recv=%d, stored marks already reached read=%d recv=%d", a.role, rd, rc, st.read[u], st.recv[u]),
						map[string]any{"script": sc.script, "frame": ans.Meta[0].Raw})
				}
				// ... nor below what the same subscriber has been told before
				if !st.tainted[u] {
					if rd < st.repRead[u] || rc < st.repRecv[u] {
						r.Violation("marks-decreased:reported-vs-reported:desc", fmt.Sprintf("{meta desc} for %s reports read=%d recv=%d after it had reported read=%d recv=%d", a.role, rd, rc, st.repRead[u], st.repRecv[u]),
							map[string]any{"script": sc.script, "frame": ans.Meta[0].Raw})
					}
					st.repRead[u], st.repRecv[u] = rd, rc
				}
			}
			if rd < 0 || rd > rc || rc > seq || (sq != seq && sq != 0) {
				r.Violation("marks-order:reported:desc", fmt.Sprintf("{meta desc} for %s: read=%d recv=%d seq=%d (stored seq %d)", a.role, rd, rc, sq, seq), map[string]any{"script": sc.script, "frame": ans.Meta[0].Raw})
			}
		}
	}
	ans = c.getX(name, "sub", nil, a.extra())
	if len(ans.Meta) > 0 {
		if subs, ok := ans.Meta[0].B["sub"].([]any); ok {
			for _, s := range subs {
				m, _ := s.(map[string]any)
				rd, rc := num(m, "read"), num(m, "recv")
				if u, _ := m["user"].(string); sc.tainted != nil && sc.tainted[types.ParseUserId(u)] {
					continue
				}
				r.Hit("reported_marks_bounds")
				if rd < 0 || rd > rc || rc > seq {
					r.Violation("marks-order:reported:sub", fmt.Sprintf("{meta sub} entry: read=%d recv=%d topic seq=%d", rd, rc, seq), map[string]any{"script": sc.script, "frame": ans.Meta[0].Raw})
				}
			}
		}
	}
}

func (sc *pubScn) noteStep(st *c09State, a *pubActor, c *vfClient, stepNo int) {
	r, e, rng := sc.r, sc.w.e, sc.w.rng
	author := a.actingUser()
	tname := sc.nameFor(a)
	grpRows, chnRows, seqNow := sc.c09Rows()
	row, has := grpRows[author.uid]
	if a.chanSub {
		row, has = chnRows[author.uid]
	}
	whats := []string{"read", "recv", "kp", "read", "recv", "bogus", "kpa"}
	what := whats[rng.Intn(len(whats))]
	seqs := []int{-1, 0, 1, seqNow, seqNow + 1, 1 << 30, row.ReadSeqId, row.RecvSeqId, row.RecvSeqId + 1, row.ReadSeqId + 1, row.RecvSeqId - 1, row.RecvSeqId, row.ReadSeqId + 1}
	seq := seqs[rng.Intn(len(seqs))]
	if what == "kp" && rng.Intn(4) > 0 {
		seq = 0
	}
	if sc.noteStepFixed != nil {
		what, seq = sc.noteStepFixed[0].(string), sc.noteStepFixed[1].(int)
	}
	if what == "read" && seq > row.RecvSeqId && seq <= seqNow && !st.allowBeyond {
		// a read note beyond the received mark is the recorded finding (driven once per designated scenario):
		// send the recv note first, as clients do.
		c.send("note", map[string]any{"topic": tname, "what": "recv", "seq": seq}, a.extra())
		e.vfQuiesce()
		sc.log("note recv seq=%d by %s (precedes the read note)", seq, a.role)
		sc.c09CheckRows(st, "recv note", "note-recv")
		grpRows, chnRows, seqNow = sc.c09Rows()
		row, has = grpRows[author.uid]
		if a.chanSub {
			row, has = chnRows[author.uid]
		}
	}
	attach := map[*vfClient]map[string]bool{}
	counts := map[*vfClient]int{}
	for _, cl := range sc.allClients() {
		attach[cl] = cl.attachState()
		counts[cl] = cl.frameCount()
	}
	attached := attach[c][tname]
	mark := vfRec.mark()
	body := map[string]any{"topic": tname, "what": what}
	if seq != 0 {
		body["seq"] = seq
	}
	c.send("note", body, a.extra())
	if !e.vfQuiesce() {
		r.Inconclusive("note step: no quiescence")
		return
	}
	mode := types.ModeNone
	if has && row.DeletedAt == nil {
		mode = row.ModeWant & row.ModeGiven
	}
	// validity per the property
	valid := false
	switch what {
	case "read":
		valid = seq > 0 && seq <= seqNow && seq > row.ReadSeqId && mode.IsReader()
	case "recv":
		valid = seq > 0 && seq <= seqNow && seq > row.RecvSeqId && mode.IsReader()
	case "kp", "kpa":
		valid = seq == 0 && mode.IsWriter()
	}
	if !attached && what != "recv" {
		valid = false
	}
	sc.log("note %s seq=%d by %s(%s) attached=%v mode=%s marks=%d/%d seq=%d valid=%v", what, seq, a.role, c.name, attached, mode, row.ReadSeqId, row.RecvSeqId, seqNow, valid)
	r.Eval(fmt.Sprintf("%s/%s/%s/att=%v/valid=%v/R=%v/W=%v", sc.kind, a.role, what, attached, valid, mode.IsReader(), mode.IsWriter()))
	wit := func(extra map[string]any) map[string]any {
		m := map[string]any{"script": sc.script, "note": body, "author": a.role, "rows": rowsStr(grpRows, chnRows)}
		for k, v := range extra {
			m[k] = v
		}
		return m
	}
	writes := vfRec.writesSince(mark)
	trigger := "note-" + what
	if what == "read" && valid && seq > row.RecvSeqId {
		trigger = "read-note-beyond-recv"
	}
	if !valid {
		r.Hit("invalid_note_dropped")
		for _, ev := range writes {
			sigx := "invalid-note-store-write:" + what + ":" + ev.Op
			if a.chanSub {
				sigx += ":chanReader"
			}
			r.Violation(sigx, fmt.Sprintf("invalid note (%s seq=%d) caused store write %s", what, seq, ev.Op), wit(nil))
		}
		for _, cl := range sc.allClients() {
			for _, nf := range cl.since(counts[cl]) {
				if cl == c && nf.Kind == "ctrl" && !attached {
					continue // "attach first" answer to a note from a session which is not attached: no side effect
				}
				if nf.Kind == "pres" && nf.str("what") == "ua" {
					continue // debounced user-agent announcement of an earlier attachment to 'me' (timer-driven), not an effect of the note
				}
				r.Violation("invalid-note-traffic:"+what+":"+nf.Kind, fmt.Sprintf("invalid note (%s seq=%d by %s) caused a {%s} frame at %s: %s", what, seq, a.role, nf.Kind, cl.name, nf.Raw), wit(nil))
			}
		}
		sc.c09CheckRows(st, "invalid note", trigger)
		return
	}
	// valid note
	if what == "read" || what == "recv" {
		r.Hit("valid_note_moves_mark")
		after, _, _ := sc.c09Rows()
		ra := after[author.uid]
		if a.chanSub {
			_, ch, _ := sc.c09Rows()
			ra = ch[author.uid]
		}
		// The property states when a mark may move, not that every acceptable note must move it (a note from a
		// session which is not attached is dropped when the topic is not loaded): a mark which did move must be
		// exactly the noted one; one which did not is only counted.
		rb0 := grpRows[author.uid]
		if a.chanSub {
			rb0 = chnRows[author.uid]
		}
		switch {
		case st.tainted[author.uid]:
			// the stored marks of this user are already out of order (recorded finding: a read note beyond the
			// received mark); what later notes do to them follows from that state and is not judged again
			r.Hit("note_of_user_with_disordered_marks_observation")
		case what == "read" && ra.ReadSeqId != rb0.ReadSeqId && ra.ReadSeqId != seq:
			r.Violation("valid-note-wrong-mark:read", fmt.Sprintf("read note seq=%d: stored read went %d -> %d", seq, rb0.ReadSeqId, ra.ReadSeqId), wit(nil))
		case what == "recv" && ra.RecvSeqId != rb0.RecvSeqId && ra.RecvSeqId != seq:
			r.Violation("valid-note-wrong-mark:recv", fmt.Sprintf("recv note seq=%d: stored recv went %d -> %d", seq, rb0.RecvSeqId, ra.RecvSeqId), wit(nil))
		case (what == "read" && ra.ReadSeqId == seq) || (what == "recv" && ra.RecvSeqId == seq):
			r.Hit("valid_note_moved_mark")
		default:
			r.Hit("valid_note_not_applied_observation")
		}
		// only the author's row may change
		for uid, rb := range grpRows {
			if uid == author.uid {
				continue
			}
			if x := after[uid]; x.ReadSeqId != rb.ReadSeqId || x.RecvSeqId != rb.RecvSeqId {
				r.Violation("note-moved-foreign-mark", fmt.Sprintf("note by %s changed marks of %s", a.role, sc.roleOf(uid.UserId())), wit(nil))
			}
		}
	} else {
		for _, ev := range writes {
			r.Violation("kp-store-write:"+ev.Op, "typing notification caused a store write", wit(nil))
		}
	}
	// recipients of {info}
	for _, ra := range sc.actors {
		for _, cl := range ra.cs {
			ru := ra.actingUser()
			rname := sc.nameFor(ra)
			eligible := attach[cl][rname] && !ra.chanSub && cl != c && !a.chanSub
			if eligible {
				rr, ok := grpRows[ru.uid]
				eligible = ok && rr.DeletedAt == nil && (rr.ModeWant & rr.ModeGiven).IsReader()
			}
			if eligible && what == "kp" && ru.uid == author.uid {
				eligible = false
			}
			if what == "kpa" && ru.uid == author.uid && cl != c {
				// "recording" variants of the key-press note: the property speaks of typing notes; whether they
				// are echoed to the sender's other sessions is not fixed by it.
				continue
			}
			var infos []*vfFrame
			for _, nf := range cl.since(counts[cl]) {
				if nf.Kind == "info" && nf.str("topic") == rname {
					infos = append(infos, nf)
				}
				// the copy relayed through the user's 'me' topic must not come back to the session which sent the note
				if cl == c && nf.Kind == "info" && nf.str("topic") == "me" && nf.str("src") == rname && nf.str("from") == author.uid.UserId() {
					infos = append(infos, nf)
				}
			}
			if cl == c && sc.onMe {
				r.Hit("origin_on_me_gets_no_copy")
			}
			if eligible {
				// The property says whom a relayed notification may reach and what it must say, not that every
				// acceptable note is relayed (a note which is not applied - e.g. sent by an unattached session
				// while the topic is not loaded - is relayed to nobody): the number of copies is only counted.
				switch len(infos) {
				case 0:
					r.Hit("info_not_relayed_observation")
					continue
				case 1:
					r.Hit("info_reaches_readers")
				default:
					r.Hit("info_relayed_more_than_once_observation")
				}
				f := infos[0]
				if f.str("from") != author.uid.UserId() || f.str("what") != what || (what != "kp" && what != "kpa" && f.num("seq") != seq) {
					r.Violation("info-altered:"+what, fmt.Sprintf("relayed info %s does not match the note (from %s, %s, seq %d)", f.Raw, author.uid.UserId(), what, seq), wit(nil))
				}
			} else {
				r.Hit("info_not_leaked")
				if len(infos) != 0 {
					why := "ineligible"
					switch {
					case cl == c:
						why = "originating-session"
					case ra.chanSub:
						why = "channel-reader"
					case (what == "kp" || what == "kpa") && ru.uid == author.uid:
						why = "typist-own-session"
					case !attach[cl][rname]:
						why = "not-attached"
					}
					r.Violation("info-leaked:"+what+":"+why+":"+ra.role, fmt.Sprintf("session %s (%s) must not receive {info} of this note but got %s", cl.name, ra.role, infos[0].Raw), wit(nil))
				}
			}
		}
	}
	sc.c09CheckRows(st, what+" note", trigger)
}

func c09Scenario(w *vfWorld, r *vfkit.R, idx int) {
	kinds := []string{"grp", "p2p", "chn", "grp"}
	kind := kinds[(idx+r.Batch())%len(kinds)]
	sc := pubSetup(w, r, "C09", kind)
	if sc == nil {
		return
	}
	rng := w.rng
	if idx%2 == 1 {
		// every session also listens on 'me', where notes are relayed to sessions which are not attached to the topic
		for _, a := range sc.actors {
			if a.role == "anon" {
				continue
			}
			for _, c := range a.cs {
				c.sub("me", nil)
			}
		}
		w.e.vfQuiesce()
		sc.onMe = true
	}
	st := &c09State{read: map[types.Uid]int{}, recv: map[types.Uid]int{}, live: map[types.Uid]bool{}, tainted: map[types.Uid]bool{},
		repRead: map[types.Uid]int{}, repRecv: map[types.Uid]int{}}
	st.allowBeyond = idx%5 == 0
	sc.tainted = st.tainted
	sc.c09st = st
	// some messages first
	writers := []*pubActor{}
	for _, a := range sc.actors {
		if a.role == "owner" || a.role == "member" || a.role == "peerA" || a.role == "peerB" {
			writers = append(writers, a)
		}
	}
	for i := 0; i < 3+rng.Intn(4); i++ {
		a := writers[rng.Intn(len(writers))]
		sc.reqX(a, a.cs[0], "pub", map[string]any{"topic": sc.nameFor(a), "content": fmt.Sprintf("m%d", i)})
	}
	w.e.vfQuiesce()
	sc.c09CheckRows(st, "setup", "publish")
	if st.allowBeyond {
		// directed: a reader marks the latest message read without having marked it received (known finding)
		for _, a := range sc.actors {
			if a.role != "member" && a.role != "peerB" && a.role != "owner" && a.role != "peerA" {
				continue
			}
			rows, _, seqNow := sc.c09Rows()
			row, ok := rows[a.actingUser().uid]
			if !ok || row.DeletedAt != nil || !(row.ModeWant & row.ModeGiven).IsReader() || row.RecvSeqId >= seqNow || !a.cs[0].attachState()[sc.nameFor(a)] {
				continue
			}
			sc.noteStepFixed = &[2]any{"read", seqNow}
			sc.noteStep(st, a, a.cs[0], -3)
			sc.noteStepFixed = nil
			r.Hit("read_beyond_recv_directed")
			break
		}
	}
	if kind == "grp" || kind == "p2p" {
		// a reader publishes while the store fails to move the publisher's own marks; what the publisher is told about
		// its marks must hold across a reload
		for _, a := range sc.actors {
			if a.role != "owner" && a.role != "peerA" {
				continue
			}
			c := a.cs[0]
			rows, _, _ := sc.c09Rows()
			row, ok := rows[a.u.uid]
			if !ok || row.DeletedAt != nil || !(row.ModeWant & row.ModeGiven).IsReader() || !(row.ModeWant & row.ModeGiven).IsWriter() || !c.attachState()[sc.nameFor(a)] {
				break
			}
			fired := false
			vfRec.setFault(func(cl *vfmem.Call) error {
				if cl.Op == "SubsUpdate" && cl.Topic == sc.canon && !fired {
					fired = true
					return errC09Injected
				}
				return nil
			})
			f := sc.reqX(a, c, "pub", map[string]any{"topic": sc.nameFor(a), "content": "marks not stored"})
			vfRec.setFault(nil)
			w.e.vfQuiesce()
			sc.log("pub by %s while the update of its own marks fails (fired=%v) -> %s", a.role, fired, codeStr(f))
			sc.c09CheckRows(st, "publish", "publish")
			if fired {
				r.Hit("publisher_marks_update_failed")
				sc.c09Reported(a, c)
				sc.reload()
				sc.c09CheckRows(st, "reload", "reload")
				sc.c09Reported(a, c)
			}
			break
		}
	}
	if kind == "chn" {
		// a channel reader marks messages received, detaches, re-attaches and sends a stale mark
		for _, a := range sc.actors {
			if a.role != "chanReader" {
				continue
			}
			c := a.cs[0]
			_, _, seqNow := sc.c09Rows()
			c.send("note", map[string]any{"topic": sc.chn, "what": "recv", "seq": seqNow}, nil)
			w.e.vfQuiesce()
			sc.c09CheckRows(st, "recv note", "note-recv")
			c.leave(sc.chn, false)
			w.e.vfQuiesce()
			c.sub(sc.chn, nil)
			w.e.vfQuiesce()
			sc.log("chanReader marked recv=%d, left and re-attached", seqNow)
			r.Hit("channel_reader_reattach")
			sc.noteStepFixed = &[2]any{"recv", 1}
			sc.noteStep(st, a, c, -1)
			// the same read mark twice within one attachment (known finding: the second one is written again)
			sc.noteStepFixed = &[2]any{"read", seqNow}
			sc.noteStep(st, a, c, -1)
			sc.noteStep(st, a, c, -1)
			sc.noteStepFixed = nil
		}
	}
	steps := 10 + rng.Intn(12)
	for i := 0; i < steps; i++ {
		a := sc.actors[rng.Intn(len(sc.actors))]
		c := a.cs[rng.Intn(len(a.cs))]
		switch k := rng.Intn(12); {
		case k < 7:
			sc.noteStep(st, a, c, i)
		case k < 9:
			wr := writers[rng.Intn(len(writers))]
			f := sc.reqX(wr, wr.cs[0], "pub", map[string]any{"topic": sc.nameFor(wr), "content": fmt.Sprintf("n%d", i)})
			w.e.vfQuiesce()
			sc.log("pub by %s -> %s", wr.role, codeStr(f))
			sc.c09CheckRows(st, "publish", "publish")
		case k < 10:
			sc.pubMutate()
			sc.c09CheckRows(st, "permission change", "mutate")
		case k < 11:
			sc.c09Reported(a, c)
		default:
			if kind != "sys" && rng.Intn(2) == 0 {
				sc.reload()
				sc.c09CheckRows(st, "reload", "reload")
			}
		}
	}
	if kind == "p2p" {
		// a participant unsubscribes while the other one keeps the topic loaded, then sends marks for messages it
		// has not acknowledged yet: the notes come from a user who is not subscribed any more and must have no effect
		var pa, pb *pubActor
		for _, a := range sc.actors {
			switch a.role {
			case "peerA":
				pa = a
			case "peerB":
				pb = a
			}
		}
		if pa != nil && pb != nil {
			pb.cs[0].sub(sc.nameFor(pb), nil)
			sc.reqX(pb, pb.cs[0], "pub", map[string]any{"topic": sc.nameFor(pb), "content": "last one"})
			w.e.vfQuiesce()
			sc.c09CheckRows(st, "publish", "publish")
			pa.cs[0].leave(sc.nameFor(pa), true)
			w.e.vfQuiesce()
			sc.log("peerA unsubscribed while peerB stays attached")
			sc.c09CheckRows(st, "unsubscribe", "mutate")
			_, _, seqNow := sc.c09Rows()
			r.Hit("p2p_note_after_unsubscribe")
			for _, what := range []string{"recv", "read", "kp"} {
				sc.noteStepFixed = &[2]any{what, seqNow}
				sc.noteStep(st, pa, pa.cs[0], -2)
				sc.noteStepFixed = nil
			}
			// everybody detaches, the topic is unloaded, the participant who unsubscribed subscribes again: the
			// topic is loaded with one subscription re-created (zero marks) and the other one as stored. The
			// other participant then attaches, asks for its marks and sends stale notes.
			for _, a := range sc.actors {
				for _, c := range a.cs {
					if c.attachState()[sc.nameFor(a)] {
						c.leave(sc.nameFor(a), false)
					}
				}
			}
			w.e.vfQuiesce()
			if w.e.vfWaitUnloaded(sc.canon) {
				f1 := pa.cs[0].sub(sc.nameFor(pa), nil)
				w.e.vfQuiesce()
				f2 := pb.cs[0].sub(sc.nameFor(pb), nil)
				w.e.vfQuiesce()
				sc.log("all left, topic unloaded, peerA subscribed again -> %s, peerB attached -> %s", codeStr(f1), codeStr(f2))
				sc.c09CheckRows(st, "re-subscription after unload", "mutate")
				rows, _, _ := sc.c09Rows()
				if rb, ok := rows[pb.actingUser().uid]; ok && rb.DeletedAt == nil && rb.RecvSeqId > 1 && pb.cs[0].attachState()[sc.nameFor(pb)] {
					r.Hit("p2p_reload_with_one_subscription_recreated")
					sc.c09Reported(pb, pb.cs[0])
					for _, n := range [][2]any{{"recv", rb.RecvSeqId - 1}, {"read", rb.ReadSeqId - 1}, {"recv", rb.RecvSeqId}} {
						if n[1].(int) < 1 {
							continue
						}
						sc.noteStepFixed = &[2]any{n[0], n[1]}
						sc.noteStep(st, pb, pb.cs[0], -4)
						sc.noteStepFixed = nil
					}
					sc.c09Reported(pa, pa.cs[0])
				}
			} else {
				r.Inconclusive("c09: p2p topic not unloaded")
			}
		}
	}
	for _, a := range sc.actors {
		sc.c09Reported(a, a.cs[0])
	}
	if idx < 2 {
		r.Sample(map[string]any{"kind": kind, "script": sc.script})
	}
	_ = sort.Strings
}

func TestVfC09(t *testing.T) {
	r := vfkit.New("C09")
	defer r.Finish()
	e := vfBoot(vfConfig{Push: true})
	vfInstallRecorder(e)
	rng := r.Rand(1)
	n := r.Pick(10, 50)
	for i := 0; i < n; i++ {
		w := vfNewWorld(e, r, rng)
		c09Scenario(w, r, i)
		w.closeAll()
		e.vfQuiesce()
		if i%5 == 4 {
			r.Flush(false)
		}
	}
}
