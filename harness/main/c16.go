//go:build verif

package main

import (
	"bytes"
	"encoding/base64"
	"encoding/json"
	"errors"
	"fmt"
	"io"
	"mime/multipart"
	"net/http"
	"net/url"
	"os"
	"path"
	"sort"
	"strings"
	"testing"
	"time"

	"github.com/tinode/chat/server/auth"
	"github.com/tinode/chat/server/db/vfmem"
	"github.com/tinode/chat/server/store"
	"github.com/tinode/chat/server/store/types"
	"github.com/tinode/chat/server/vfkit"
)

// ---- C16: out-of-band files are served only to authorised users and kept while referenced.

type c16Req struct {
	method    string
	upload    bool
	path      string
	keyPlace  string // header query form cookie none
	keyValid  bool
	credPlace string // xauth authz query form cookie sid none
	credKind  string // token basic sid garbage
	credValid bool
	body      []byte
	ctype     string
	// topic, when set, is sent as the "topic" request parameter (the upload endpoint exempts sign-up avatars,
	// topic=newacc, from the credentials check; downloads have no such exemption)
	topic string
}

type c16World struct {
	e     *vfEnv
	r     *vfkit.R
	u     *vfUser
	login string
	pass  string
	sess  *vfClient
	sid   string
	limit int64
}

func urlSafe(s string) string { return strings.NewReplacer("+", "-", "/", "_").Replace(s) }

func (w *c16World) build(q c16Req) *http.Request {
	var body io.Reader
	ct := ""
	form := map[string]string{}
	target := w.e.httpURL + q.path
	u, _ := url.Parse(target)
	qs := u.Query()
	key := w.e.apiKey
	if !q.keyValid {
		key = "AQAAAAABAAD_rAp4DJh05a1HAwFT3A6K" // wrong signature
	}
	hdr := http.Header{}
	var cookies []*http.Cookie
	switch q.keyPlace {
	case "header":
		hdr.Set("X-Tinode-APIKey", key)
	case "query":
		qs.Set("apikey", key)
	case "form":
		form["apikey"] = key
	case "cookie":
		cookies = append(cookies, &http.Cookie{Name: "apikey", Value: key})
	}
	method, secret := "", ""
	switch q.credKind {
	case "token":
		method, secret = "token", w.u.tok
		if !q.credValid {
			raw, _ := base64.StdEncoding.DecodeString(w.u.tok)
			raw[20] ^= 0x55
			secret = base64.StdEncoding.EncodeToString(raw)
		}
	case "basic":
		method = "basic"
		p := w.pass
		if !q.credValid {
			p = "wrong-" + p
		}
		secret = base64.StdEncoding.EncodeToString([]byte(w.login + ":" + p))
	case "garbage":
		method, secret = "token", "!!!not-base64!!!"
	}
	switch q.credPlace {
	case "xauth":
		hdr.Set("X-Tinode-Auth", strings.Title(method)+" "+secret)
	case "authz":
		hdr.Set("Authorization", strings.Title(method)+" "+secret)
	case "query":
		qs.Set("auth", method)
		qs.Set("secret", urlSafe(secret))
	case "form":
		form["auth"], form["secret"] = method, secret
	case "cookie":
		cookies = append(cookies, &http.Cookie{Name: "auth", Value: method}, &http.Cookie{Name: "secret", Value: secret})
	case "sid":
		sid := w.sid
		if !q.credValid {
			sid = "nosuchsessionid"
		}
		form["sid"] = sid
	}
	if q.topic != "" {
		qs.Set("topic", q.topic)
	}
	u.RawQuery = qs.Encode()
	if q.upload && (q.method == "POST" || q.method == "PUT") {
		var buf bytes.Buffer
		mw := multipart.NewWriter(&buf)
		for k, v := range form {
			mw.WriteField(k, v)
		}
		mw.WriteField("id", "req1")
		fw, _ := mw.CreateFormFile("file", "blob.bin")
		fw.Write(q.body)
		mw.Close()
		body = &buf
		ct = mw.FormDataContentType()
	} else if len(form) > 0 {
		vals := url.Values{}
		for k, v := range form {
			vals.Set(k, v)
		}
		if q.method == "GET" || q.method == "HEAD" {
			for k, v := range form {
				qs.Set(k, v)
			}
			u.RawQuery = qs.Encode()
		} else {
			body = strings.NewReader(vals.Encode())
			ct = "application/x-www-form-urlencoded"
		}
	}
	req, _ := http.NewRequest(q.method, u.String(), body)
	for k, v := range hdr {
		req.Header[k] = v
	}
	if ct != "" {
		req.Header.Set("Content-Type", ct)
	}
	for _, c := range cookies {
		req.AddCookie(c)
	}
	return req
}

type c16Snap struct {
	files []string
	links int
	disk  []string
}

func (w *c16World) snap() c16Snap {
	var s c16Snap
	vfmem.A.View(func(db *vfmem.DB) {
		for id, f := range db.Files {
			s.files = append(s.files, fmt.Sprintf("%s:%d:%d", id, f.Status, f.Size))
		}
		s.links = len(db.Links)
	})
	sort.Strings(s.files)
	ents, _ := os.ReadDir(w.e.cfg.UploadDir)
	for _, en := range ents {
		s.disk = append(s.disk, en.Name())
	}
	sort.Strings(s.disk)
	return s
}

func (a c16Snap) eq(b c16Snap) bool {
	return strings.Join(a.files, ",") == strings.Join(b.files, ",") && a.links == b.links && strings.Join(a.disk, ",") == strings.Join(b.disk, ",")
}

func (w *c16World) do(req *http.Request) (int, []byte, http.Header) {
	cl := &http.Client{Timeout: 20 * time.Second, CheckRedirect: func(*http.Request, []*http.Request) error { return http.ErrUseLastResponse }}
	resp, err := cl.Do(req)
	if err != nil {
		return 0, nil, nil
	}
	defer resp.Body.Close()
	b, _ := io.ReadAll(resp.Body)
	return resp.StatusCode, b, resp.Header
}

func (w *c16World) upload(data []byte) (string, string) {
	req := w.build(c16Req{method: "POST", upload: true, path: "/v0/file/u/", keyPlace: "header", keyValid: true, credPlace: "xauth", credKind: "token", credValid: true, body: data})
	code, body, _ := w.do(req)
	if code != 200 {
		return "", ""
	}
	var m map[string]any
	json.Unmarshal(body, &m)
	ctrl, _ := m["ctrl"].(map[string]any)
	params, _ := ctrl["params"].(map[string]any)
	u, _ := params["url"].(string)
	base := path.Base(u)
	id := base
	if i := strings.IndexByte(id, '.'); i >= 0 {
		id = id[:i]
	}
	return id, u
}

func TestVfC16(t *testing.T) {
	r := vfkit.New("C16")
	defer r.Finish()
	const limit = 4096
	e := vfBoot(vfConfig{Media: true, MaxUpload: limit, Push: true})
	vfInstallRecorder(e)
	rng := r.Rand(1)
	wd := vfNewWorld(e, r, rng)
	u := wd.user("fileuser", auth.LevelAuth)
	w := &c16World{e: e, r: r, u: u, login: fmt.Sprintf("fileuser%d", r.Batch()), pass: "file-password", limit: limit}
	if _, err := store.Store.GetLogicalAuthHandler("basic").AddRecord(&auth.Rec{Uid: u.uid, AuthLevel: auth.LevelAuth}, []byte(w.login+":"+w.pass), ""); err != nil {
		t.Fatal(err)
	}
	w.sess = wd.conn(u, false)
	// the live session id: found through the registry by the unique user agent
	e.vfQuiesce()
	globals.sessionStore.lock.Lock()
	for sid, s := range globals.sessionStore.sessCache {
		if s.userAgent == "vf/"+w.sess.name {
			w.sid = sid
		}
	}
	globals.sessionStore.lock.Unlock()

	// (1) authorisation matrix
	keyPlaces := []string{"header", "query", "form", "cookie", "none"}
	credPlaces := []string{"xauth", "authz", "query", "form", "cookie", "sid", "none"}
	credKinds := []string{"token", "basic", "garbage"}
	methods := []string{"POST", "PUT", "GET", "HEAD", "DELETE", "PATCH", "OPTIONS"}
	existingID, existingURL := w.upload([]byte("existing file content"))
	if existingID == "" {
		t.Fatal("cannot upload reference file")
	}
	n := r.Pick(400, 4000)
	for i := 0; i < n; i++ {
		q := c16Req{method: methods[rng.Intn(len(methods))], upload: rng.Intn(2) == 0,
			keyPlace: keyPlaces[rng.Intn(len(keyPlaces))], keyValid: rng.Intn(4) > 0,
			credPlace: credPlaces[rng.Intn(len(credPlaces))], credKind: credKinds[rng.Intn(len(credKinds))], credValid: rng.Intn(3) > 0}
		if rng.Intn(3) == 0 {
			// bias to otherwise valid requests so that single deviations are exercised
			q.keyValid, q.credValid = true, true
			if q.keyPlace == "none" {
				q.keyPlace = "header"
			}
			if q.credPlace == "none" || q.credKind == "garbage" {
				q.credPlace, q.credKind = "xauth", "token"
			}
		}
		if q.credPlace == "sid" {
			q.credKind = "sid"
		}
		if q.upload {
			q.path = "/v0/file/u/"
			sizes := []int{1, 100, limit / 2, limit / 2, limit + 1, limit * 3, limit * 40}
			q.body = bytes.Repeat([]byte{byte('a' + i%26)}, sizes[rng.Intn(len(sizes))])
		} else {
			q.path = existingURL
			if rng.Intn(3) == 0 {
				q.topic = []string{"newacc", "newacc", "me", "new"}[rng.Intn(4)]
			}
		}
		bodyMethod := q.method == "POST" || q.method == "PUT" || q.method == "DELETE" || q.method == "PATCH"
		if (q.keyPlace == "form" || q.credPlace == "form" || q.credPlace == "sid") && !q.upload && bodyMethod {
			// downloads have no body: form placements travel in the query string there
			q.method = "GET"
		}
		before := w.snap()
		code, body, _ := w.do(w.build(q))
		after := w.snap()
		keyOK := q.keyValid && q.keyPlace != "none"
		credOK := q.credValid && q.credPlace != "none" && q.credKind != "garbage"
		implemented := (q.upload && (q.method == "POST" || q.method == "PUT" || q.method == "HEAD" || q.method == "OPTIONS")) ||
			(!q.upload && (q.method == "GET" || q.method == "HEAD" || q.method == "OPTIONS"))
		tooLarge := q.upload && int64(len(q.body)) > limit*3/4 // the limit applies to the whole multipart body, form fields included
		label := fmt.Sprintf("upload=%v/%s/key=%s:%v/cred=%s:%s:%v", q.upload, q.method, q.keyPlace, q.keyValid, q.credPlace, q.credKind, q.credValid)
		if q.topic != "" {
			label += "/topic=" + q.topic
			r.Hit("download_with_topic_parameter")
		}
		r.Eval(label)
		wit := map[string]any{"request": label, "status": code, "body": truncate(string(body), 300)}
		effective := !before.eq(after)
		accepted := code == 200
		if q.method == "OPTIONS" {
			continue
		}
		switch {
		case !implemented:
			r.Hit("unimplemented_method_refused")
			if code < 400 || effective {
				r.Violation("method-not-refused:"+q.method, fmt.Sprintf("%s answered %d (effect: %v)", label, code, effective), wit)
			}
		case !keyOK || !credOK:
			r.Hit("unauthorised_refused")
			if accepted || effective || (q.method == "GET" && !q.upload && bytes.Contains(body, []byte("existing file content"))) {
				what := "key"
				if keyOK {
					what = "credentials:" + q.credPlace + ":" + q.credKind
				}
				if q.topic != "" {
					what += ":topic=" + q.topic
				}
				r.Violation("unauthorised-accepted:"+what, fmt.Sprintf("%s answered %d (effect: %v)", label, code, effective), wit)
			}
		case q.upload && (q.method == "POST" || q.method == "PUT"):
			if int64(len(q.body)) > limit {
				r.Hit("oversize_refused")
				if accepted || effective {
					r.Violation("oversize-upload-accepted:key-in-"+q.keyPlace, fmt.Sprintf("%s with %d bytes (limit %d) answered %d (effect: %v)", label, len(q.body), limit, code, effective), wit)
				}
			} else if !tooLarge && len(q.body) > 0 {
				r.Hit("authorised_upload_accepted")
				if !accepted {
					r.Violation("authorised-upload-refused:key-"+q.keyPlace+":cred-"+q.credPlace, fmt.Sprintf("%s with %d bytes answered %d", label, len(q.body), code), wit)
				}
			}
		case !q.upload && q.method == "GET":
			r.Hit("authorised_download_accepted")
			if !accepted || !bytes.Equal(body, []byte("existing file content")) {
				r.Violation("authorised-download-refused:key-"+q.keyPlace+":cred-"+q.credPlace, fmt.Sprintf("%s answered %d", label, code), wit)
			}
		}
	}
	_ = existingID

	// (2) exact bytes, sniffed type, forced download for active content
	contents := map[string][]byte{
		"html": []byte("<!DOCTYPE html><html><body><script>alert(1)</script></body></html>"),
		"xml":  []byte("<?xml version=\"1.0\"?><a><b/></a>"),
		"text": []byte("just plain text, nothing else"),
		"png":  append([]byte("\x89PNG\r\n\x1a\n"), bytes.Repeat([]byte{0, 1, 2, 3}, 20)...),
		"jpeg": append([]byte("\xff\xd8\xff\xe0"), bytes.Repeat([]byte{9}, 50)...),
		"pdf":  []byte("%PDF-1.4 fake"),
		"bin":  {0, 1, 2, 3, 4, 5, 250, 251, 252},
		"gif":  []byte("GIF89a......"),
		"svg":  []byte("<svg xmlns=\"http://www.w3.org/2000/svg\"><script>alert(1)</script></svg>"),
	}
	ids := map[string]string{}
	for kind, data := range contents {
		id, furl := w.upload(data)
		if id == "" {
			r.Violation("upload-failed:"+kind, "valid upload refused", nil)
			continue
		}
		ids[kind] = id
		code, body, hdr := w.do(w.build(c16Req{method: "GET", path: furl, keyPlace: "header", keyValid: true, credPlace: "xauth", credKind: "token", credValid: true}))
		r.Hit("download_exact_bytes")
		if code != 200 || !bytes.Equal(body, data) {
			r.Violation("download-bytes-differ:"+kind, fmt.Sprintf("download of %s answered %d with %d bytes (uploaded %d)", kind, code, len(body), len(data)), nil)
			continue
		}
		// the type detected when the file was uploaded, as recorded with the upload
		want := ""
		vfmem.A.View(func(db *vfmem.DB) {
			if f := db.Files[types.ParseUid(id)]; f != nil {
				want = f.MimeType
			}
		})
		ct := hdr.Get("Content-Type")
		if ct != want {
			r.Violation("download-content-type:"+kind, fmt.Sprintf("Content-Type %q, detected type of the upload is %q", ct, want), nil)
		}
		active := strings.Contains(ct, "html") || strings.Contains(ct, "xml") || strings.HasPrefix(ct, "text/") || strings.HasPrefix(ct, "application/")
		r.Hit("active_content_forced_download")
		if active && !strings.HasPrefix(hdr.Get("Content-Disposition"), "attachment") {
			r.Violation("active-content-served-inline:"+kind, fmt.Sprintf("%s served with Content-Type %q and Content-Disposition %q", kind, ct, hdr.Get("Content-Disposition")), nil)
		}
		// whatever the client says about the disposition, active content is never served inline
		for _, tail := range []string{"asatt=1", "asatt=true", "asatt=0", "asatt=false", "asatt=F", "asatt=f", "asatt=FALSE", "asatt=junk", "asatt=", "asatt=0&asatt=1", "ASATT=0"} {
			code, body, hdr := w.do(w.build(c16Req{method: "GET", path: furl + "?" + tail, keyPlace: "header", keyValid: true, credPlace: "xauth", credKind: "token", credValid: true}))
			r.Hit("active_content_forced_download")
			r.Eval("content/" + kind + "?" + tail)
			if code != 200 || !bytes.Equal(body, data) {
				r.Violation("download-bytes-differ:"+kind+"?"+tail, fmt.Sprintf("download of %s?%s answered %d with %d bytes (uploaded %d)", kind, tail, code, len(body), len(data)), nil)
				continue
			}
			if active && !strings.HasPrefix(hdr.Get("Content-Disposition"), "attachment") {
				r.Violation("active-content-served-inline:"+kind+"?"+tail, fmt.Sprintf("%s?%s served with Content-Type %q and Content-Disposition %q", kind, tail, hdr.Get("Content-Type"), hdr.Get("Content-Disposition")), nil)
			}
		}
		r.Eval("content/" + kind)
	}
	// (3) URL shapes: a 200 answer may only carry the bytes of the completed upload the cleaned URL names
	secretFile := e.cfg.UploadDir + "/../outside.txt"
	os.WriteFile(secretFile, []byte("OUTSIDE-SECRET"), 0644)
	defer os.Remove(secretFile)
	idp := ids["png"]
	id32 := types.ParseUid(idp).String32()
	shapes := []string{"/v0/file/s/" + idp, "/v0/file/s/" + idp + ".png", "/v0/file/s/../s/" + idp, "/v0/file/s/x/../" + idp, "/v0/file/s//" + idp, "/v0/file/s/" + idp + "/", "/v0/file/s/" + idp + "/x",
		"/v0/file/s/../outside.txt", "/v0/file/s/..%2Foutside.txt", "/v0/file/s/%2e%2e/outside.txt", "/v0/file/s/" + id32, "/v0/file/s/uploads/" + id32, "/v0/file/u/" + idp, "/v0/file/s/", "/v0/file/s/AAAAAAAAAAA",
		"/v0/file/s/" + idp + "%00.png", "/v0/file/s/" + idp + "?asatt=1", "/v0/file/s/./" + idp, "/v0/file/s/‮" + idp, "/v0/file/s/" + strings.ToLower(idp), "/x/v0/file/s/" + idp, "/v0/file/s/" + idp + idp}
	for _, sh := range shapes {
		req := w.build(c16Req{method: "GET", path: sh, keyPlace: "header", keyValid: true, credPlace: "xauth", credKind: "token", credValid: true})
		code, body, _ := w.do(req)
		r.Hit("url_shape")
		r.Eval("shape/" + strings.ReplaceAll(sh, idp, "ID"))
		if code == 200 {
			okBytes := false
			for kind, data := range contents {
				if bytes.Equal(body, data) && ids[kind] != "" {
					// which upload does the cleaned URL name?
					cl := path.Clean(strings.SplitN(sh, "?", 2)[0])
					base := path.Base(cl)
					if strings.HasPrefix(base, ids[kind]) {
						okBytes = true
					}
				}
			}
			if !okBytes {
				r.Violation("url-names-something-else:"+strings.ReplaceAll(sh, idp, "ID"), fmt.Sprintf("GET %s answered 200 with %d bytes which are not the upload the URL names: %q", sh, len(body), truncate(string(body), 60)), nil)
			}
		}
		if bytes.Contains(body, []byte("OUTSIDE-SECRET")) {
			r.Violation("path-traversal:"+sh, "file outside the upload directory served", nil)
		}
	}

	// (3b) uploads which fail in the store: refused, and nothing of them outlives a collection without grace period
	for _, op := range []string{"FileStartUpload", "FileFinishUpload"} {
		for k := 0; k < r.Pick(2, 6); k++ {
			store.Files.DeleteUnused(time.Time{}, 0)
			clean := w.snap()
			fired := false
			vfRec.setFault(func(c *vfmem.Call) error {
				if c.Op == op && !fired {
					fired = true
					return errors.New("vf injected failure at " + op)
				}
				return nil
			})
			data := []byte(fmt.Sprintf("upload which fails at %s #%d", op, k))
			code, body, _ := w.do(w.build(c16Req{method: "POST", upload: true, path: "/v0/file/u/", keyPlace: "header", keyValid: true, credPlace: "xauth", credKind: "token", credValid: true, body: data}))
			vfRec.setFault(nil)
			if !fired {
				r.Inconclusive("c16: injection point " + op + " not reached")
				continue
			}
			r.Hit("failed_upload_leaves_nothing")
			r.Eval(fmt.Sprintf("upload-fault/%s/%d", op, code))
			wit := map[string]any{"fault": op, "status": code, "body": truncate(string(body), 200)}
			if code == 200 {
				r.Violation("failed-upload-accepted:"+op, "upload answered 200 although the store call failed", wit)
			}
			if after := w.snap(); op == "FileStartUpload" && !after.eq(clean) {
				r.Violation("refused-upload-left-trace:"+op, fmt.Sprintf("refused upload left a trace: records %v -> %v, files on disk %v -> %v", clean.files, after.files, clean.disk, after.disk), wit)
			}
			store.Files.DeleteUnused(time.Time{}, 0)
			if after := w.snap(); !after.eq(clean) {
				r.Violation("failed-upload-not-collected:"+op, fmt.Sprintf("after a collection without grace period: records %v -> %v, files on disk %v -> %v", clean.files, after.files, clean.disk, after.disk), wit)
			}
		}
	}

	// (4) links and garbage collection against a reference model
	c16Links(w, wd, r)
}

// c16Links: histories of uploads, publishes with attachment lists, avatar changes, hard deletes,
// topic deletion and GC runs; a model of links predicts exactly which uploads disappear.
func c16Links(w *c16World, wd *vfWorld, r *vfkit.R) {
	e, rng := w.e, wd.rng
	rounds := r.Pick(6, 40)
	for round := 0; round < rounds; round++ {
		// start from a clean slate: collect everything unlinked
		store.Files.DeleteUnused(time.Time{}, 0)
		c := w.sess
		other := wd.user("peer", auth.LevelAuth)
		co := wd.conn(other, false)
		grp, _ := c.newGroup(false, map[string]any{"public": "files"})
		co.sub(grp, nil)
		linked := map[string]map[string]bool{} // file id -> owners
		uploadedAt := map[string]int{}         // file id -> phase
		var script []string
		link := func(id, owner string) {
			if linked[id] == nil {
				linked[id] = map[string]bool{}
			}
			linked[id][owner] = true
		}
		unlinkOwner := func(owner string) {
			for _, m := range linked {
				delete(m, owner)
			}
		}
		phase := 0
		var mid time.Time
		msgSeq := map[int][]string{}
		nsteps := 6 + rng.Intn(8)
		var all []string
		for i := 0; i < nsteps; i++ {
			if i == nsteps/2 {
				time.Sleep(5 * time.Millisecond)
				mid = types.TimeNow()
				time.Sleep(5 * time.Millisecond)
				phase = 1
			}
			up := func() string {
				id, _ := w.upload([]byte(fmt.Sprintf("file-%d-%d-%d", round, i, rng.Intn(1000))))
				uploadedAt[id] = phase
				all = append(all, id)
				return id
			}
			kstep := rng.Intn(8)
			switch i {
			case 0:
				kstep = 3 // every history starts with a topic avatar ...
			case 1:
				kstep = 7 // ... followed by a plain subscriber's private-only {set} which names another upload
			}
			switch kstep {
			case 7: // a subscriber who may not change the topic sets only the own private data, naming an upload in extra
				id := up()
				from := co.frameCount()
				reqID := co.send("set", map[string]any{"topic": grp, "desc": map[string]any{"private": map[string]any{"note": fmt.Sprintf("n%d", i)}}}, map[string]any{"attachments": []string{"/v0/file/s/" + id}})
				f := co.waitCtrl(reqID, from, vfReplyWait)
				e.vfQuiesce()
				r.Hit("private_only_set_links_nothing")
				script = append(script, fmt.Sprintf("subscriber sets private naming upload %s -> %s (links nothing to the topic)", id, codeStr(f)))
			case 0: // never linked
				id := up()
				script = append(script, "upload "+id+" (never linked)")
			case 1, 2: // publish with attachments (possibly mixed with foreign / malformed urls)
				var atts []string
				var mine []string
				for k := 0; k < 1+rng.Intn(3); k++ {
					id := up()
					mine = append(mine, id)
					atts = append(atts, "/v0/file/s/"+id)
				}
				if rng.Intn(2) == 0 {
					atts = append([]string{"https://example.com/picture.jpg"}, atts...)
				}
				if rng.Intn(3) == 0 {
					atts = append(atts, "/v0/file/s/", "not a url")
				}
				from := c.frameCount()
				reqID := c.send("pub", map[string]any{"topic": grp, "content": "with attachments"}, map[string]any{"attachments": atts})
				f := c.waitCtrl(reqID, from, vfReplyWait)
				e.vfQuiesce()
				if f != nil && f.code() == 202 {
					seq := int(f.params()["seq"].(float64))
					msgSeq[seq] = mine
					for _, id := range mine {
						link(id, fmt.Sprintf("msg%d", seq))
					}
					script = append(script, fmt.Sprintf("publish seq %d with attachments %v", seq, atts))
				}
			case 3: // topic avatar
				id := up()
				from := c.frameCount()
				reqID := c.send("set", map[string]any{"topic": grp, "desc": map[string]any{"public": map[string]any{"fn": "x", "photo": map[string]any{"ref": "/v0/file/s/" + id}}}}, map[string]any{"attachments": []string{"/v0/file/s/" + id}})
				f := c.waitCtrl(reqID, from, vfReplyWait)
				e.vfQuiesce()
				if f != nil && f.code() == 200 {
					unlinkOwner("topic")
					link(id, "topic")
					script = append(script, "topic avatar "+id)
				}
			case 4: // own avatar on me
				id := up()
				c.sub("me", nil)
				from := c.frameCount()
				reqID := c.send("set", map[string]any{"topic": "me", "desc": map[string]any{"public": map[string]any{"fn": "me", "photo": map[string]any{"ref": "/v0/file/s/" + id, "n": rng.Intn(1000)}}}}, map[string]any{"attachments": []string{"/v0/file/s/" + id}})
				f := c.waitCtrl(reqID, from, vfReplyWait)
				e.vfQuiesce()
				if f != nil && f.code() == 200 {
					unlinkOwner("me")
					link(id, "me")
					script = append(script, "own avatar "+id)
				}
			case 5: // hard-delete a message with attachments
				for seq := range msgSeq {
					f := c.del(grp, "msg", map[string]any{"delseq": []map[string]any{{"low": seq}}, "hard": true})
					e.vfQuiesce()
					if f != nil && f.code() == 200 {
						unlinkOwner(fmt.Sprintf("msg%d", seq))
						script = append(script, fmt.Sprintf("hard delete seq %d", seq))
					}
					delete(msgSeq, seq)
					break
				}
			case 6: // a failed upload (too large) leaves nothing
				req := w.build(c16Req{method: "POST", upload: true, path: "/v0/file/u/", keyPlace: "header", keyValid: true, credPlace: "xauth", credKind: "token", credValid: true, body: bytes.Repeat([]byte("z"), int(w.limit)*2)})
				w.do(req)
				script = append(script, "oversize upload")
			}
		}
		deleteTopic := rng.Intn(3) == 0
		if deleteTopic {
			f := c.del(grp, "topic", map[string]any{"hard": true})
			e.vfQuiesce()
			if f != nil && f.code() == 200 {
				for seq := range msgSeq {
					unlinkOwner(fmt.Sprintf("msg%d", seq))
				}
				unlinkOwner("topic")
				script = append(script, "delete topic")
			}
		}
		// GC with the cut-off between the two phases: unlinked uploads of phase 0 go, everything else stays
		cutoff := mid
		if rng.Intn(3) == 0 {
			cutoff = time.Time{} // no grace period: everything unlinked goes
			script = append(script, "gc without cut-off")
		} else {
			script = append(script, "gc with cut-off between the phases")
		}
		err := store.Files.DeleteUnused(cutoff, 0)
		if err != nil {
			r.Inconclusive("c16 gc failed: " + err.Error())
			continue
		}
		expectGone := map[string]bool{}
		for _, id := range all {
			if len(linked[id]) == 0 && (cutoff.IsZero() || uploadedAt[id] == 0) {
				expectGone[id] = true
			}
		}
		present := map[string]bool{}
		vfmem.A.View(func(db *vfmem.DB) {
			for id := range db.Files {
				present[id.String()] = true
			}
		})
		disk := map[string]bool{}
		ents, _ := os.ReadDir(e.cfg.UploadDir)
		for _, en := range ents {
			disk[en.Name()] = true
		}
		r.Eval("links/" + vfkit.Hash(scriptShape(script)))
		// stored bytes without a record can never be collected
		for name := range disk {
			known := false
			for id := range present {
				if types.ParseUid(id).String32() == name {
					known = true
				}
			}
			if !known {
				r.Violation("bytes-without-record", "file "+name+" in the upload directory has no upload record", map[string]any{"script": script})
			}
		}
		for _, id := range all {
			r.Hit("gc_exact")
			onDisk := disk[types.ParseUid(id).String32()]
			switch {
			case expectGone[id] && (present[id] || onDisk):
				r.Violation("gc-kept-collectable", fmt.Sprintf("upload %s is unlinked and past the grace period but survived GC (record %v, bytes %v)", id, present[id], onDisk), map[string]any{"script": script})
			case !expectGone[id] && (!present[id] || !onDisk):
				why := "still within the grace period"
				if len(linked[id]) > 0 {
					why = fmt.Sprintf("still linked to %v", keysOf(linked[id]))
				}
				r.Violation("gc-removed-referenced:"+strings.SplitN(why, " ", 3)[1], fmt.Sprintf("upload %s was removed by GC (record %v, bytes %v) although it is %s", id, present[id], onDisk, why), map[string]any{"script": script})
			}
		}
		if round < 2 {
			r.Sample(map[string]any{"script": script})
		}
		co.close()
	}
}

func keysOf(m map[string]bool) []string {
	var out []string
	for k := range m {
		out = append(out, k)
	}
	sort.Strings(out)
	return out
}

func scriptShape(s []string) []string {
	var out []string
	for _, l := range s {
		f := strings.Fields(l)
		if len(f) > 1 {
			out = append(out, f[0]+" "+f[1])
		} else {
			out = append(out, l)
		}
	}
	return out
}
