//go:build verif

package main

import (
	"encoding/json"
	"fmt"
	"os"
	"os/exec"
	"path/filepath"
	"sort"
	"strings"
	"sync"
	"sync/atomic"
	"syscall"
	"testing"
	"time"

	"github.com/anishathalye/porcupine"
	"github.com/tinode/chat/server/auth"
	"github.com/tinode/chat/server/db/vfmem"
	"github.com/tinode/chat/server/store/types"
	"github.com/tinode/chat/server/vfkit"
)

// ---- C01: per-topic message ids unique, gapless, in acceptance order.

type c01Op struct {
	Client  int
	Kind    string // pub | get | desc
	Content string
	Call    int64
	Ret     int64
	Code    int
	Seq     int      // pub: acked seq; desc: reported seq
	List    []string // get: "seq:content" ascending
	Since   int
	Before  int
}

type c01In struct {
	Kind          string
	Content       string
	Since, Before int
}
type c01Out struct {
	Seq  int
	List string
	OK   bool
}

func c01Model() porcupine.Model {
	return porcupine.Model{
		Init: func() any { return "" },
		Step: func(st, in, out any) (bool, any) {
			s := st.(string)
			var log []string
			if s != "" {
				log = strings.Split(s, "\x00")
			}
			i := in.(c01In)
			o := out.(c01Out)
			switch i.Kind {
			case "pub":
				if !o.OK {
					// unanswered / failed publish: may or may not have taken effect is not modelled here; only
					// used for ops known to have no effect.
					return true, st
				}
				if o.Seq != len(log)+1 {
					return false, st
				}
				log = append(log, i.Content)
				return true, strings.Join(log, "\x00")
			case "desc":
				return o.Seq == len(log), st
			case "get":
				var exp []string
				for n, c := range log {
					seq := n + 1
					if seq >= i.Since && (i.Before == 0 || seq < i.Before) {
						exp = append(exp, fmt.Sprintf("%d:%s", seq, c))
					}
				}
				return strings.Join(exp, "|") == o.List, st
			}
			return false, st
		},
		DescribeOperation: func(in, out any) string {
			return fmt.Sprintf("%+v -> %+v", in, out)
		},
	}
}

// c01Topic describes a topic as seen by the scenario.
type c01Topic struct {
	kind  string // grp chn p2p sys
	canon string // store name
}

// nameFor returns the name by which user u addresses the topic.
func (tp *c01Topic) nameFor(u *vfUser, peers [2]*vfUser) string {
	if tp.kind == "p2p" {
		if u == peers[0] {
			return peers[1].uid.UserId()
		}
		return peers[0].uid.UserId()
	}
	return tp.canon
}

func dataList(fs []*vfFrame) []string { return dataListB(fs, 0) }

func dataListB(fs []*vfFrame, base int) []string {
	type sc struct {
		seq int
		c   string
	}
	var l []sc
	for _, f := range fs {
		c, _ := f.B["content"].(string)
		if f.num("seq") <= base {
			continue
		}
		l = append(l, sc{f.num("seq") - base, c})
	}
	sort.Slice(l, func(i, j int) bool { return l[i].seq < l[j].seq })
	var out []string
	for i, x := range l {
		if i > 0 && l[i-1] == x {
			continue // the same message seen both as a live copy and in the history answer
		}
		out = append(out, fmt.Sprintf("%d:%s", x.seq, x.c))
	}
	return out
}

func TestVfC01(t *testing.T) {
	switch os.Getenv("VF_ROLE") {
	case "crash1":
		c01CrashPhase1()
		return
	case "crash2":
		c01CrashPhase2()
		return
	}
	r := vfkit.New("C01")
	defer r.Finish()
	e := vfBoot(vfConfig{Push: true, Media: true})
	rec := vfInstallRecorder(e)
	rng := r.Rand(1)

	if r.Batch() == 0 {
		c01Faults(r, e, rec)
		c01Crashes(r)
		r.Flush(false)
	}
	for i := 0; i < r.Pick(3, 12); i++ {
		c01UnloadRace(r, e, rec, i)
	}
	n := r.Pick(6, 40)
	for i := 0; i < n; i++ {
		w := vfNewWorld(e, r, rng)
		c01Concurrent(w, rec, i)
		w.closeAll()
		e.vfQuiesce()
		if i%4 == 3 {
			r.Flush(false)
		}
	}
	r.Info("quiesce_calls", vfQStats.Calls)
	r.Info("quiesce_timeouts", vfQStats.Timeouts)
}

// c01Concurrent runs one concurrent-publishers scenario and evaluates the oracles.
func c01Concurrent(w *vfWorld, rec *vfRecorder, idx int) {
	r, rng, e := w.r, w.rng, w.e
	kinds := []string{"grp", "grp", "p2p", "chn", "sys"}
	kind := kinds[(idx+r.Batch()*2)%len(kinds)]
	nusers := 2 + rng.Intn(2)
	if kind == "p2p" {
		nusers = 2
	}
	var users []*vfUser
	for i := 0; i < nusers; i++ {
		users = append(users, w.user(fmt.Sprintf("u%d", i), auth.LevelAuth))
	}
	root := w.user("root", auth.LevelRoot)
	tp := &c01Topic{kind: kind}
	peers := [2]*vfUser{users[0], users[1]}

	// sessions: 1-2 per user
	type sess struct {
		c    *vfClient
		u    *vfUser // acting user
		obo  map[string]any
		name string // topic name used by this session
	}
	var ss []*sess
	for _, u := range users {
		for k := 0; k < 1+rng.Intn(2); k++ {
			ss = append(ss, &sess{c: w.conn(u, false), u: u})
		}
	}
	useObo := rng.Intn(2) == 0
	var rootSess *sess
	if useObo || kind == "sys" {
		rootSess = &sess{c: w.conn(root, false), u: root}
		if kind != "sys" {
			rootSess.u = users[1]
			rootSess.obo = map[string]any{"obo": users[1].uid.UserId()}
		}
	}

	// create topic
	switch kind {
	case "grp", "chn":
		name, f := ss[0].c.newGroup(kind == "chn", map[string]any{"public": "t", "defacs": map[string]any{"auth": "JRWPS"}})
		if f == nil || f.code() != 200 {
			r.Inconclusive("c01: topic creation failed: " + frameStr(f))
			return
		}
		tp.canon = name
	case "p2p":
		tp.canon = users[0].uid.P2PName(users[1].uid)
	case "sys":
		tp.canon = "sys"
	}
	base := 0
	if kind == "sys" {
		vfmem.A.View(func(db *vfmem.DB) { base = db.Topics["sys"].SeqId })
	}
	attach := func(s *sess) bool {
		s.name = tp.nameFor(s.u, peers)
		if kind == "sys" {
			if s == rootSess {
				f := s.c.sub("sys", nil)
				return f != nil && f.code() < 300
			}
			return true // plain users publish to sys without attaching
		}
		// a {sub} which arrives while the topic is being loaded is answered 503 ("locked"): retry like a client
		var f *vfFrame
		for try := 0; try < 50; try++ {
			from := s.c.frameCount()
			id := s.c.send("sub", map[string]any{"topic": s.name}, s.obo)
			f = s.c.waitCtrl(id, from, vfReplyWait)
			if f == nil || f.code() != 503 {
				break
			}
			r.InfoAdd("attach_retried_after_503", 1)
			time.Sleep(2 * time.Millisecond)
		}
		if f == nil || f.code() >= 400 {
			r.InfoAdd("attach_refused:"+kind+":"+codeStr(f), 1)
		}
		return f != nil && f.code() < 400
	}
	for i, s := range ss {
		if (kind == "grp" || kind == "chn") && i == 0 {
			s.name = tp.canon
			continue
		}
		if !attach(s) {
			r.Inconclusive("c01: attach failed")
			return
		}
	}
	if rootSess != nil {
		if !attach(rootSess) {
			r.Inconclusive("c01: root attach failed")
			return
		}
		ss = append(ss, rootSess)
	}
	if !e.vfQuiesce() {
		r.Inconclusive("c01: no quiescence after setup")
		return
	}

	var allOps []c01Op
	var opsMu sync.Mutex
	shown := 0 // max seq ever shown to a client (updated at barriers)
	bursts := 1 + rng.Intn(2)
	if kind == "sys" {
		bursts = 1
	}
	if kind == "p2p" {
		bursts = 2
	}
	incarnationStart := rec.mark()
	for burst := 0; burst < bursts; burst++ {
		rec.setDelay(true, rng.Int63())
		var wg sync.WaitGroup
		npub := 3 + rng.Intn(4)
		for ci, s := range ss {
			wg.Add(1)
			isReader := ci%3 == 2 && kind != "sys"
			go func(ci int, s *sess, isReader bool, seed int64) {
				defer wg.Done()
				for k := 0; k < npub; k++ {
					if isReader && k%2 == 1 {
						op := c01Op{Client: ci, Call: e.now()}
						if k%4 == 1 {
							op.Kind = "desc"
							from := s.c.frameCount()
							id := s.c.send("get", map[string]any{"topic": s.name, "what": "desc"}, s.obo)
							f := c01WaitMeta(s.c, id, from)
							op.Ret = e.now()
							if f == nil {
								continue
							}
							if d, ok := f.B["desc"].(map[string]any); ok {
								if v, ok := d["seq"].(float64); ok {
									op.Seq = int(v) - base
								}
							}
						} else {
							op.Kind = "get"
							ans := s.c.getX(s.name, "data", map[string]any{"data": map[string]any{"limit": 100}}, s.obo)
							op.Ret = e.now()
							if ans.Ctrl == nil {
								continue
							}
							op.List = dataListB(ans.Data, base)
						}
						opsMu.Lock()
						allOps = append(allOps, op)
						opsMu.Unlock()
						continue
					}
					content := fmt.Sprintf("%s/%d/%d/%d", s.c.name, idx, burst, k)
					op := c01Op{Client: ci, Kind: "pub", Content: content, Call: e.now()}
					from := s.c.frameCount()
					id := s.c.send("pub", map[string]any{"topic": s.name, "content": content}, s.obo)
					f := s.c.waitCtrl(id, from, vfReplyWait)
					op.Ret = e.now()
					if f != nil {
						op.Code = f.code()
						if p := f.params(); p != nil {
							if v, ok := p["seq"].(float64); ok {
								op.Seq = int(v) - base
							}
						}
					}
					opsMu.Lock()
					allOps = append(allOps, op)
					opsMu.Unlock()
				}
			}(ci, s, isReader, rng.Int63())
		}
		wg.Wait()
		rec.setDelay(false, 0)
		if !e.vfQuiesce() {
			r.Inconclusive("c01: no quiescence after burst")
			return
		}
		for _, op := range allOps {
			if op.Seq > shown {
				shown = op.Seq
			}
		}
		if burst+1 < bursts {
			// leave all, wait for idle unload, re-attach: restart monotonicity across reload.
			var unsubUser *vfUser
			if kind == "p2p" && rng.Intn(3) > 0 {
				// one participant deletes the subscription before the unload and subscribes again afterwards
				unsubUser = users[rng.Intn(2)]
				r.Hit("p2p_unsub_resub_across_reload")
			}
			for _, s := range ss {
				from := s.c.frameCount()
				b := map[string]any{"topic": s.name}
				if unsubUser != nil && s.u == unsubUser && s.obo == nil {
					b["unsub"] = true
					unsubUser = nil // only the first session sends it; the others are evicted by it
				}
				id := s.c.send("leave", b, s.obo)
				s.c.waitCtrl(id, from, vfReplyWait)
				e.vfQuiesce()
			}
			if !e.vfWaitUnloaded(tp.canon) {
				r.Inconclusive("c01: topic not unloaded")
				return
			}
			r.Hit("reload_between_bursts")
			// everybody re-attaches at once while store calls are slowed down: the topic must still be loaded once
			rec.setDelay(true, rng.Int63())
			var awg sync.WaitGroup
			okAll := int32(1)
			for _, s := range ss {
				awg.Add(1)
				go func(s *sess) {
					defer awg.Done()
					if !attach(s) {
						atomic.StoreInt32(&okAll, 0)
					}
				}(s)
			}
			awg.Wait()
			rec.setDelay(false, 0)
			if atomic.LoadInt32(&okAll) == 0 {
				r.Inconclusive("c01: re-attach failed")
				return
			}
			r.Hit("concurrent_reattach_after_unload")
			e.vfQuiesce()
			// a new incarnation: the first number issued must exceed everything shown.
			before := shown
			s := ss[0]
			content := fmt.Sprintf("%s/%d/first-after-reload/%d", s.c.name, idx, burst)
			from := s.c.frameCount()
			callT := e.now()
			id := s.c.send("pub", map[string]any{"topic": s.name, "content": content}, s.obo)
			f := s.c.waitCtrl(id, from, vfReplyWait)
			if f != nil && f.code() == 202 {
				seq := 0
				if v, ok := f.params()["seq"].(float64); ok {
					seq = int(v)
				}
				r.Hit("restart_monotonic")
				if seq <= before {
					r.Violation("reload:seq-not-above-shown", fmt.Sprintf("topic %s (%s): after reload first seq %d <= max shown %d", tp.canon, kind, seq, before),
						map[string]any{"kind": kind, "ops": allOps})
				}
				allOps = append(allOps, c01Op{Client: 0, Kind: "pub", Content: content, Call: callT, Ret: e.now(), Code: 202, Seq: seq})
				if seq > shown {
					shown = seq
				}
			}
			e.vfQuiesce()
		}
	}

	// a connection which went away under the scenario (the harness never closes one here) leaves requests without
	// replies for reasons outside the property: the scenario is not judged, only counted
	for _, s := range ss {
		if s.c.isClosed() {
			r.InfoAdd("scenarios_not_judged_connection_lost", 1)
			r.Eval("skipped/" + kind)
			return
		}
	}
	// ---- oracles
	key := fmt.Sprintf("%s/u%d/s%d/obo%v/b%d", kind, nusers, len(ss), useObo, bursts)
	r.Eval(key + "/" + vfkit.Hash(c01Shape(allOps)))

	// (2) agreement: content -> seq consistent everywhere.
	seqOf := map[string]int{}
	contentOf := map[int]string{}
	for _, op := range allOps {
		if op.Kind == "pub" {
			if op.Code != 202 {
				r.Violation("pub-not-accepted:"+kind, fmt.Sprintf("entitled publish answered %d", op.Code), map[string]any{"op": op})
				continue
			}
			r.Hit("ack_seq")
			if prev, ok := contentOf[op.Seq]; ok && prev != op.Content {
				r.Violation("dup-seq-ack", fmt.Sprintf("seq %d acknowledged for two publishes (%q, %q)", op.Seq, prev, op.Content), map[string]any{"ops": allOps})
			}
			seqOf[op.Content] = op.Seq
			contentOf[op.Seq] = op.Content
		}
	}
	// gapless: the acked seqs are exactly 1..n
	maxSeq := 0
	for s := range contentOf {
		if s > maxSeq {
			maxSeq = s
		}
	}
	if len(contentOf) > 0 {
		r.Hit("gapless_acks")
		for s := 1; s <= maxSeq; s++ {
			if _, ok := contentOf[s]; !ok {
				r.Violation("gap-in-acked-seqs", fmt.Sprintf("topic %s: seq %d never acknowledged although %d was", tp.canon, s, maxSeq), map[string]any{"ops": allOps})
				break
			}
		}
	}
	for ci, s := range ss {
		last := 0
		isReader := ci%3 == 2 && kind != "sys"
		counts := map[int]int{}
		for _, f := range s.c.all() {
			if f.Kind != "data" {
				continue
			}
			c, _ := f.B["content"].(string)
			seq := f.num("seq") - base
			if want, ok := seqOf[c]; ok {
				r.Hit("data_seq_agrees")
				if want != seq {
					r.Violation("data-seq-mismatch", fmt.Sprintf("session %s: message %q delivered with seq %d, acknowledged as %d", s.c.name, c, seq, want), map[string]any{"frame": f.Raw})
				}
			}
			if !isReader {
				counts[seq]++
				r.Hit("live_order")
				if seq <= last {
					r.Violation("live-order", fmt.Sprintf("session %s: data seq %d after %d", s.c.name, seq, last), map[string]any{"frames": frames2raw(s.c.all())})
				}
				last = seq
			}
		}
	}
	// history + desc from every user after quiescence
	for _, s := range ss {
		if kind == "sys" && s != rootSess {
			continue
		}
		ans := s.c.getX(s.name, "data", map[string]any{"data": map[string]any{"limit": 100}}, s.obo)
		if ans.Ctrl == nil {
			r.Inconclusive("c01: final get data unanswered")
			continue
		}
		seen := map[int]bool{}
		for _, f := range ans.Data {
			c, _ := f.B["content"].(string)
			seq := f.num("seq") - base
			if seq <= 0 {
				continue
			}
			r.Hit("history_seq_agrees")
			if seen[seq] {
				r.Violation("history-dup-seq", fmt.Sprintf("history shows seq %d twice", seq), map[string]any{"data": frames2raw(ans.Data)})
			}
			seen[seq] = true
			if want, ok := seqOf[c]; ok && want != seq {
				r.Violation("history-seq-mismatch", fmt.Sprintf("message %q: history seq %d, acknowledged %d", c, seq, want), nil)
			}
			if c2, ok := contentOf[seq]; ok && c2 != c {
				r.Violation("history-content-mismatch", fmt.Sprintf("seq %d: history content %q, acknowledged publish %q", seq, c, c2), nil)
			}
		}
		if len(contentOf) <= 100 {
			for sq := range contentOf {
				if !seen[sq] {
					r.Violation("history-missing", fmt.Sprintf("acknowledged seq %d missing from history of %s", sq, s.c.name), map[string]any{"data": frames2raw(ans.Data)})
					break
				}
			}
		}
		from := s.c.frameCount()
		id := s.c.send("get", map[string]any{"topic": s.name, "what": "desc"}, s.obo)
		if f := c01WaitMeta(s.c, id, from); f != nil {
			if d, ok := f.B["desc"].(map[string]any); ok {
				sq := 0
				if v, ok := d["seq"].(float64); ok {
					sq = int(v) - base
				}
				r.Hit("desc_seq_agrees")
				if sq != maxSeq {
					r.Violation("desc-seq-mismatch", fmt.Sprintf("desc seq %d != last acknowledged %d (%s)", sq, maxSeq, kind), map[string]any{"frame": f.Raw})
				}
			}
		}
	}

	// (1) store sequence per incarnation
	c01StoreSeq(r, rec.since(incarnationStart), tp.canon)

	// (3) acceptance order: linearizability of the client history.
	var pops []porcupine.Operation
	for _, op := range allOps {
		in := c01In{Kind: op.Kind, Content: op.Content}
		out := c01Out{Seq: op.Seq, OK: op.Code == 202}
		if op.Kind == "get" {
			out.List = strings.Join(op.List, "|")
		}
		if op.Kind == "pub" && op.Code != 202 {
			continue
		}
		pops = append(pops, porcupine.Operation{ClientId: op.Client, Input: in, Output: out, Call: op.Call, Return: op.Ret})
	}
	res, _ := porcupine.CheckOperationsVerbose(c01Model(), pops, 20*time.Second)
	switch res {
	case porcupine.Ok:
		r.Hit("linearizable")
	case porcupine.Illegal:
		r.Violation("not-linearizable:"+kind, fmt.Sprintf("client history on %s is not linearizable against the append-only log model", tp.canon), map[string]any{"ops": allOps})
	default:
		r.Inconclusive("c01: linearizability check timed out")
	}
	if idx == 0 {
		r.Sample(map[string]any{"kind": kind, "sessions": len(ss), "ops": c01Shape(allOps)})
	}
	// distinct store-call interleaving
	var il []string
	for _, ev := range rec.since(incarnationStart) {
		if ev.Topic == tp.canon && vfWriteOps[ev.Op] {
			il = append(il, fmt.Sprintf("%s/%s", ev.Op, ev.User))
		}
	}
	r.Eval("il/" + vfkit.Hash(il))
}

func c01Shape(ops []c01Op) []string {
	var out []string
	for _, op := range ops {
		out = append(out, fmt.Sprintf("c%d:%s:%d", op.Client, op.Kind, op.Seq))
	}
	return out
}

// c01StoreSeq: successful MessageSave seqs for the topic are h+1,h+2,... (no repeat, no hole)
// within one server incarnation; a failed save consumes no number.
func c01StoreSeq(r *vfkit.R, evs []vfStoreEv, topic string) {
	last := -1
	for _, ev := range evs {
		if ev.Op != "MessageSave" || ev.Topic != topic || ev.Err != "" {
			continue
		}
		r.Hit("store_seq")
		if last >= 0 && ev.Seq != last+1 {
			r.Violation("store-seq-not-consecutive", fmt.Sprintf("topic %s: MessageSave seq %d after %d", topic, ev.Seq, last), nil)
		}
		last = ev.Seq
	}
}

func c01WaitMeta(c *vfClient, id string, from int) *vfFrame {
	deadline := time.Now().Add(vfReplyWait)
	timer := time.AfterFunc(vfReplyWait, func() { c.mu.Lock(); c.cond.Broadcast(); c.mu.Unlock() })
	defer timer.Stop()
	c.mu.Lock()
	defer c.mu.Unlock()
	i := from
	for {
		for ; i < len(c.frames); i++ {
			f := c.frames[i]
			if (f.Kind == "meta" || f.Kind == "ctrl") && f.str("id") == id {
				return f
			}
		}
		if c.closed || time.Now().After(deadline) {
			return nil
		}
		c.cond.Wait()
	}
}

// ---- fault enumeration: fail each store call of a publish in turn.

func c01Faults(r *vfkit.R, e *vfEnv, rec *vfRecorder) {
	rng := r.Rand(2)
	for _, kind := range []string{"grp", "p2p"} {
		for _, withAtt := range []bool{false, true} {
			for _, authorReader := range []bool{true, false} {
				// learn the store calls of a fault-free publish first
				ops := c01FaultRun(r, e, rec, rng, kind, withAtt, authorReader, "", false)
				if len(ops) == 0 {
					r.Inconclusive("c01 faults: no store writes observed for a publish")
					continue
				}
				for _, failOp := range ops {
					c01FaultRun(r, e, rec, rng, kind, withAtt, authorReader, failOp, false)
				}
				if withAtt {
					// natural failure: attachment naming a well-formed id of a file that does not exist.
					c01FaultRun(r, e, rec, rng, kind, withAtt, authorReader, "", true)
				}
			}
		}
	}
}

// c01FaultRun publishes m1, then m2 with the given store op failing, then m3; returns the
// write ops of the m2 publish (when failOp=="").
func c01FaultRun(r *vfkit.R, e *vfEnv, rec *vfRecorder, rng interface{ Intn(int) int }, kind string, withAtt, authorReader bool, failOp string, bogusAtt bool) []string {
	w := vfNewWorld(e, r, r.Rand(int64(rng.Intn(1<<30))))
	defer func() { w.closeAll(); e.vfQuiesce() }()
	a := w.user("a", auth.LevelAuth)
	b := w.user("b", auth.LevelAuth)
	ca := w.conn(a, false)
	cb := w.conn(b, false)
	var topicA, topicB, canon string
	if kind == "grp" {
		name, f := ca.newGroup(false, map[string]any{"public": "t"})
		if f == nil || f.code() != 200 {
			r.Inconclusive("c01 faults: create failed")
			return nil
		}
		topicA, topicB, canon = name, name, name
		cb.sub(name, nil)
		// the author is the plain member, the owner is the observing peer
		a, b = b, a
		ca, cb = cb, ca
	} else {
		topicA, topicB = b.uid.UserId(), a.uid.UserId()
		canon = a.uid.P2PName(b.uid)
		ca.sub(topicA, nil)
		cb.sub(topicB, nil)
	}
	if !authorReader {
		// author gives up R: want without R
		mode := "JWPA"
		if kind == "grp" {
			mode = "JWP"
		}
		f := ca.set(topicA, map[string]any{"sub": map[string]any{"mode": mode}})
		if f == nil || f.code() >= 300 {
			r.Inconclusive("c01 faults: cannot drop R: " + frameStr(f))
			return nil
		}
	}
	var extra map[string]any
	if withAtt {
		var fid string
		if bogusAtt {
			fid = types.Uid(0x1234567890abcdef).String()
		} else {
			fid = vfUploadFile(e, a, []byte("attachment-bytes"))
		}
		extra = map[string]any{"attachments": []string{"/v0/file/s/" + fid}}
	}
	pub := func(content string) *vfFrame {
		from := ca.frameCount()
		id := ca.send("pub", map[string]any{"topic": topicA, "content": content}, extra)
		return ca.waitCtrl(id, from, vfReplyWait)
	}
	f1 := pub("m1")
	if f1 == nil || f1.code() != 202 {
		if bogusAtt {
			// handled below as natural failure of the first publish too
		} else {
			r.Inconclusive("c01 faults: m1 not accepted: " + frameStr(f1))
			return nil
		}
	}
	e.vfQuiesce()
	mark := rec.mark()
	fired := false
	if failOp != "" {
		rec.setFault(func(c *vfmem.Call) error {
			if !fired && c.Op == failOp && c.Topic == canon || (!fired && c.Op == failOp && failOp == "FileLinkAttachments") {
				fired = true
				return fmt.Errorf("vf injected failure at %s", c.Op)
			}
			return nil
		})
	}
	f2 := pub("m2")
	rec.setFault(nil)
	e.vfQuiesce()
	var ops []string
	for _, ev := range rec.writesSince(mark) {
		if ev.Topic == canon || ev.Op == "FileLinkAttachments" {
			ops = append(ops, ev.Op)
		}
	}
	if failOp == "" && !bogusAtt {
		return ops
	}
	label := fmt.Sprintf("%s/att=%v/reader=%v/fail@%s", kind, withAtt, authorReader, failOp)
	if bogusAtt {
		label = fmt.Sprintf("%s/reader=%v/attachment-of-nonexistent-file", kind, authorReader)
	}
	r.Eval("fault/" + label)
	if failOp != "" && !fired {
		r.Inconclusive("c01 faults: injection point not reached: " + label)
		return nil
	}
	r.Hit("fault_point")
	reloaded := false
	if f2 != nil && f2.code() == 202 && failOp != "" {
		// acknowledged although a store call failed: the number is taken for good, also when the topic is unloaded
		// and loaded again before anything else is published
		ca.leave(topicA, false)
		cb.leave(topicB, false)
		e.vfQuiesce()
		if e.vfWaitUnloaded(canon) {
			ca.sub(topicA, nil)
			cb.sub(topicB, nil)
			e.vfQuiesce()
			reloaded = true
			r.Hit("fault_tolerated_then_reload")
		}
	}
	f3 := pub("m3")
	e.vfQuiesce()
	ans := cb.get(topicB, "data", map[string]any{"data": map[string]any{"limit": 100}})
	hist := dataList(ans.Data)
	wit := map[string]any{"case": label, "m1": frameStr(f1), "m2": frameStr(f2), "m3": frameStr(f3), "history_seen_by_peer": hist, "store_ops_of_m2": ops}
	code1 := 0
	if f1 != nil {
		code1 = f1.code()
	}
	seq1 := 0
	if f1 != nil && f1.params() != nil {
		if v, ok := f1.params()["seq"].(float64); ok {
			seq1 = int(v)
		}
	}
	if bogusAtt {
		// first publish with the bogus attachment: either rejected with no effect, or accepted.
		if code1 >= 300 {
			for _, h := range hist {
				if strings.HasSuffix(h, ":m1") {
					r.Violation("failed-publish-visible:"+label, "publish answered with an error but its message is in the history", wit)
				}
			}
		}
	}
	if f2 == nil {
		r.Violation("fault-unanswered:"+label, "publish with a failing store call was not answered", wit)
		return nil
	}
	if f2.code() == 202 {
		r.Hit("fault_tolerated_publish_accepted")
		// accepted despite fault (e.g. SubsUpdate failure is only logged): must be in history with acked seq
		found := false
		for _, h := range hist {
			if strings.HasSuffix(h, ":m2") {
				found = true
			}
		}
		if !found {
			r.Violation("accepted-but-missing:"+label, "publish acknowledged under store fault but absent from history", wit)
		}
		seq2, seq3 := 0, 0
		if v, ok := f2.params()["seq"].(float64); ok {
			seq2 = int(v)
		}
		if f3 != nil && f3.code() == 202 {
			if v, ok := f3.params()["seq"].(float64); ok {
				seq3 = int(v)
			}
			if seq3 <= seq2 {
				wit["reloaded_between_m2_and_m3"] = reloaded
				r.Violation("acknowledged-number-reissued:"+label, fmt.Sprintf("m2 was acknowledged as %d under a store fault; the next publish (topic reloaded in between: %v) was acknowledged as %d", seq2, reloaded, seq3), wit)
			}
		} else {
			// numbering continues above every number shown: the next publish of an entitled author must go through
			wit["reloaded_between_m2_and_m3"] = reloaded
			r.Violation("publish-refused-after-acknowledged-one:"+label, fmt.Sprintf("m2 was acknowledged as %d under a store fault; the next publish (topic reloaded in between: %v) is not accepted: %s", seq2, reloaded, frameStr(f3)), wit)
		}
	} else {
		r.Hit("failed_publish_consumes_no_number")
		for _, h := range hist {
			if strings.HasSuffix(h, ":m2") {
				r.Violation("failed-publish-visible:"+label, "publish answered with an error but its message is in the history", wit)
			}
		}
		if f3 == nil || f3.code() != 202 {
			r.Violation("topic-wedged-after-failed-publish:"+label, fmt.Sprintf("publish after a failed one is not accepted: %s", frameStr(f3)), wit)
		} else if !bogusAtt {
			seq3 := 0
			if v, ok := f3.params()["seq"].(float64); ok {
				seq3 = int(v)
			}
			if seq3 != seq1+1 {
				r.Violation("failed-publish-consumed-number:"+label, fmt.Sprintf("m1 seq %d, failed m2, m3 seq %d", seq1, seq3), wit)
			}
		}
	}
	// uniqueness in history in any case
	seen := map[string]bool{}
	for _, h := range hist {
		sq := h[:strings.Index(h, ":")]
		if seen[sq] {
			r.Violation("history-dup-seq:"+label, "history shows a seq twice", wit)
		}
		seen[sq] = true
	}
	return nil
}

// ---- crash enumeration (real SIGKILL, restart from snapshot in a new process).

type c01CrashObs struct {
	Acked   map[string]int `json:"acked"` // content -> seq acked
	Shown   int            `json:"shown"` // max seq shown in any frame
	History []string       `json:"history"`
	NewSeq  int            `json:"new_seq"`
	NewCode int            `json:"new_code"`
	Desc    int            `json:"desc"`
	Users   []string       `json:"users"`
	Toks    []string       `json:"toks"`
	Topic   string         `json:"topic"`
}

func c01Crashes(r *vfkit.R) {
	self, _ := os.Executable()
	points := []string{"TopicUpdateOnMessage", "MessageSave", "SubsUpdate", "FileLinkAttachments"}
	for _, kind := range []string{"grp", "p2p"} {
		for _, op := range points {
			for _, when := range []string{"before", "after"} {
				label := fmt.Sprintf("%s/%s-%s", kind, when, op)
				dir := filepath.Join(r.OutDir, "crash-"+strings.ReplaceAll(label, "/", "_"))
				os.MkdirAll(dir, 0755)
				run := func(role string) (int, string) {
					cmd := exec.Command(self, "-test.run", "^TestVfC01$", "-test.timeout", "0")
					cmd.Env = append(os.Environ(), "VF_ROLE="+role, "VF_CRASHDIR="+dir, "VF_CRASHOP="+op, "VF_CRASHWHEN="+when,
						"VF_CRASHKIND="+kind, "VF_EVLOG="+filepath.Join(dir, role+".jsonl"), "VF_OUT="+dir)
					out, err := cmd.CombinedOutput()
					code := 0
					if err != nil {
						code = 1
						if ee, ok := err.(*exec.ExitError); ok {
							if ws, ok := ee.Sys().(syscall.WaitStatus); ok && ws.Signaled() && ws.Signal() == syscall.SIGKILL {
								code = 137
							}
						}
					}
					return code, string(out)
				}
				code, out := run("crash1")
				if code != 137 {
					r.Inconclusive(fmt.Sprintf("c01 crash %s: phase 1 did not reach the crash point (exit %d): %s", label, code, tailStr(out, 400)))
					continue
				}
				// observations of phase 1 come from its event log (what clients had seen before the kill)
				obs1 := c01ParseCrashLog(filepath.Join(dir, "crash1.jsonl"))
				code, out = run("crash2")
				if code != 0 {
					r.Violation("crash:restart-failed:"+label, "server could not restart / serve after crash: "+tailStr(out, 600), nil)
					continue
				}
				var obs2 c01CrashObs
				b, _ := os.ReadFile(filepath.Join(dir, "obs2.json"))
				json.Unmarshal(b, &obs2)
				r.Eval("crash/" + label)
				r.Hit("crash_point")
				wit := map[string]any{"case": label, "acked_before_crash": obs1.Acked, "max_seq_shown_before_crash": obs1.Shown, "after_restart": obs2}
				if obs2.NewCode != 202 {
					r.Violation("crash:publish-refused-after-restart:"+label, fmt.Sprintf("publish after restart answered %d", obs2.NewCode), wit)
					continue
				}
				if obs2.NewSeq <= obs1.Shown {
					r.Violation("crash:seq-reused:"+label, fmt.Sprintf("first seq after restart %d <= max seq shown before crash %d", obs2.NewSeq, obs1.Shown), wit)
				}
				seen := map[string]bool{}
				for _, h := range obs2.History {
					i := strings.Index(h, ":")
					if seen[h[:i]] {
						r.Violation("crash:history-dup:"+label, "duplicate seq in history after restart", wit)
					}
					seen[h[:i]] = true
					if sq, ok := obs1.Acked[h[i+1:]]; ok && fmt.Sprint(sq) != h[:i] {
						r.Violation("crash:acked-seq-changed:"+label, "message acknowledged before the crash has a different seq after restart", wit)
					}
				}
				// acknowledged => durable
				for c, sq := range obs1.Acked {
					if !seen[fmt.Sprint(sq)] {
						r.Violation("crash:acked-lost:"+label, fmt.Sprintf("message %q acknowledged with seq %d before crash is missing after restart", c, sq), wit)
					}
				}
				os.RemoveAll(dir)
			}
		}
	}
}

func tailStr(s string, n int) string {
	if len(s) > n {
		return s[len(s)-n:]
	}
	return s
}

func c01ParseCrashLog(p string) c01CrashObs {
	obs := c01CrashObs{Acked: map[string]int{}}
	b, _ := os.ReadFile(p)
	sent := map[string]string{} // id -> content
	for _, line := range strings.Split(string(b), "\n") {
		if line == "" {
			continue
		}
		var rec map[string]any
		if json.Unmarshal([]byte(line), &rec) != nil {
			continue
		}
		switch rec["k"] {
		case "send":
			var m map[string]any
			raw, _ := rec["raw"].(string)
			if json.Unmarshal([]byte(raw), &m) == nil {
				if p, ok := m["pub"].(map[string]any); ok {
					id, _ := p["id"].(string)
					c, _ := p["content"].(string)
					sent[id] = c
				}
			}
		case "recv":
			f, _ := rec["f"].(map[string]any)
			if ctrl, ok := f["ctrl"].(map[string]any); ok {
				if code, _ := ctrl["code"].(float64); code == 202 {
					id, _ := ctrl["id"].(string)
					if params, ok := ctrl["params"].(map[string]any); ok {
						if sq, ok := params["seq"].(float64); ok {
							if c, ok := sent[id]; ok {
								obs.Acked[c] = int(sq)
							}
							if int(sq) > obs.Shown {
								obs.Shown = int(sq)
							}
						}
					}
				}
			}
			if d, ok := f["data"].(map[string]any); ok {
				if sq, ok := d["seq"].(float64); ok && int(sq) > obs.Shown {
					obs.Shown = int(sq)
				}
			}
			if m, ok := f["meta"].(map[string]any); ok {
				if d, ok := m["desc"].(map[string]any); ok {
					if sq, ok := d["seq"].(float64); ok && int(sq) > obs.Shown {
						obs.Shown = int(sq)
					}
				}
			}
		}
	}
	return obs
}

type c01CrashSetup struct {
	UidA, UidB string
	TokA, TokB string
	TopicA     string
	TopicB     string
	Canon      string
	Extra      map[string]any
}

func c01CrashPhase1() {
	dir := os.Getenv("VF_CRASHDIR")
	op, when, kind := os.Getenv("VF_CRASHOP"), os.Getenv("VF_CRASHWHEN"), os.Getenv("VF_CRASHKIND")
	e := vfBoot(vfConfig{Push: true, Media: true, UploadDir: filepath.Join(dir, "uploads")})
	r := vfkit.New("C01x")
	w := vfNewWorld(e, r, r.Rand(3))
	a := w.user("a", auth.LevelAuth)
	b := w.user("b", auth.LevelAuth)
	ca := w.conn(a, false)
	cb := w.conn(b, false)
	st := c01CrashSetup{UidA: a.uid.String(), UidB: b.uid.String(), TokA: a.tok, TokB: b.tok}
	if kind == "grp" {
		name, _ := ca.newGroup(false, map[string]any{"public": "t"})
		st.TopicA, st.TopicB, st.Canon = name, name, name
		cb.sub(name, nil)
	} else {
		st.TopicA, st.TopicB, st.Canon = b.uid.UserId(), a.uid.UserId(), a.uid.P2PName(b.uid)
		ca.sub(st.TopicA, nil)
		cb.sub(st.TopicB, nil)
	}
	fid := vfUploadFile(e, a, []byte("attachment"))
	st.Extra = map[string]any{"attachments": []string{"/v0/file/s/" + fid}}
	sb, _ := json.Marshal(st)
	os.WriteFile(filepath.Join(dir, "setup.json"), sb, 0644)
	pub := func(c string) *vfFrame {
		from := ca.frameCount()
		id := ca.send("pub", map[string]any{"topic": st.TopicA, "content": c}, st.Extra)
		return ca.waitCtrl(id, from, 5*time.Second)
	}
	pub("m1")
	pub("m2")
	e.vfQuiesce()
	armed := true
	kill := func(db *vfmem.DB) {
		vfmem.WriteSnapshotLocked(db, filepath.Join(dir, "snapshot.json"))
		syscall.Kill(os.Getpid(), syscall.SIGKILL)
		select {}
	}
	if when == "before" {
		vfmem.A.SetIntercept(func(c *vfmem.Call) error {
			if armed && c.Op == op {
				armed = false
				vfmem.A.SnapshotToFile(filepath.Join(dir, "snapshot.json"))
				syscall.Kill(os.Getpid(), syscall.SIGKILL)
				select {}
			}
			return nil
		})
	} else {
		vfmem.A.SetObserve(func(c *vfmem.Call, db *vfmem.DB) {
			if armed && c.Op == op {
				armed = false
				kill(db)
			}
		})
	}
	pub("m3")
	// not reached if the crash point was hit
	os.Exit(3)
}

func c01CrashPhase2() {
	dir := os.Getenv("VF_CRASHDIR")
	var st c01CrashSetup
	b, _ := os.ReadFile(filepath.Join(dir, "setup.json"))
	json.Unmarshal(b, &st)
	e := vfBoot(vfConfig{Push: true, Media: true, Restore: filepath.Join(dir, "snapshot.json"), UploadDir: filepath.Join(dir, "uploads")})
	ca := e.connect("a2", types.ParseUid(st.UidA), st.TokA, false)
	cb := e.connect("b2", types.ParseUid(st.UidB), st.TokB, false)
	obs := c01CrashObs{Topic: st.Canon}
	fa := ca.sub(st.TopicA, nil)
	fb := cb.sub(st.TopicB, nil)
	if fa == nil || fa.code() >= 300 || fb == nil || fb.code() >= 300 {
		fmt.Println("attach after restart failed:", frameStr(fa), frameStr(fb))
		os.Exit(4)
	}
	f := ca.pub(st.TopicA, "after-restart", false, nil)
	if f != nil {
		obs.NewCode = f.code()
		if p := f.params(); p != nil {
			if v, ok := p["seq"].(float64); ok {
				obs.NewSeq = int(v)
			}
		}
	}
	e.vfQuiesce()
	ans := cb.get(st.TopicB, "data", map[string]any{"data": map[string]any{"limit": 100}})
	obs.History = dataList(ans.Data)
	ob, _ := json.Marshal(obs)
	os.WriteFile(filepath.Join(dir, "obs2.json"), ob, 0644)
	os.Exit(0)
}
