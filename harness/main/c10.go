//go:build verif

package main

import (
	"fmt"
	"sort"
	"strings"
	"testing"
	"time"

	"github.com/tinode/chat/server/auth"
	"github.com/tinode/chat/server/db/vfmem"
	"github.com/tinode/chat/server/store/types"
	"github.com/tinode/chat/server/vfkit"
)

// ---- C10: presence converges to the truth and never leaks.

type c10Sess struct {
	c      *vfClient
	u      *c10User
	closed bool
	// what this session has been told about each subject (user id or grp name) on 'me'
	told      map[string]bool
	toldKnown map[string]bool
	scanned   int // frames already folded
}

type c10User struct {
	u  *vfUser
	ss []*c10Sess
	i  int
}

type c10Scn struct {
	w     *vfWorld
	r     *vfkit.R
	users []*c10User
	grp   string
	log   []string
	steps int
}

func (sc *c10Scn) logf(f string, a ...any) { sc.log = append(sc.log, fmt.Sprintf(f, a...)) }

func (sc *c10Scn) p2p(a, b *c10User) string { return a.u.uid.P2PName(b.u.uid) }

func (sc *c10Scn) wit(extra map[string]any) map[string]any {
	m := map[string]any{"script": sc.log}
	for k, v := range extra {
		m[k] = v
	}
	return m
}

// attachedTo reports whether the session is attached to the topic it addresses as name.
func (s *c10Sess) attachedTo(name string) bool {
	if s.closed || s.c.isClosed() {
		return false
	}
	return s.c.attachState()[name]
}

func (sc *c10Scn) userOnline(u *c10User) bool {
	for _, s := range u.ss {
		if s.attachedTo("me") {
			return true
		}
	}
	return false
}

func (sc *c10Scn) grpOnline() bool {
	for _, u := range sc.users {
		for _, s := range u.ss {
			if s.attachedTo(sc.grp) {
				return true
			}
		}
	}
	return false
}

func (sc *c10Scn) row(topic string, u *c10User) (vfmem.SubRow, bool) {
	var row vfmem.SubRow
	ok := false
	vfmem.A.View(func(db *vfmem.DB) {
		if r := db.FindSub(topic, u.u.uid); r != nil && r.DeletedAt == nil {
			row, ok = r.Copy(), true
		}
	})
	return row, ok
}

func (sc *c10Scn) hasP(topic string, u *c10User) bool {
	row, ok := sc.row(topic, u)
	return ok && (row.ModeWant & row.ModeGiven).IsPresencer()
}

// topicFor resolves a pres/info frame received by user u to the canonical topic it concerns.
func (sc *c10Scn) topicFor(u *c10User, f *vfFrame) string {
	name := f.str("topic")
	if name == "me" {
		name = f.str("src")
	}
	if strings.HasPrefix(name, "usr") {
		peer := types.ParseUserId(name)
		if peer == u.u.uid || peer.IsZero() {
			return ""
		}
		return u.u.uid.P2PName(peer)
	}
	if strings.HasPrefix(name, "grp") {
		return name
	}
	return ""
}

// settle: quiescence + every topic without attached sessions unloaded + quiescence.
func (sc *c10Scn) settle() bool {
	e := sc.w.e
	if !e.vfQuiesce() {
		return false
	}
	var idle []string
	for _, u := range sc.users {
		if !sc.userOnline(u) {
			idle = append(idle, u.u.uid.UserId())
		}
	}
	for i, a := range sc.users {
		for _, b := range sc.users[i+1:] {
			name := sc.p2p(a, b)
			on := false
			for _, s := range a.ss {
				on = on || s.attachedTo(b.u.uid.UserId())
			}
			for _, s := range b.ss {
				on = on || s.attachedTo(a.u.uid.UserId())
			}
			if !on {
				idle = append(idle, name)
			}
		}
	}
	if !sc.grpOnline() {
		idle = append(idle, sc.grp)
	}
	if !e.vfWaitUnloaded(idle...) {
		// bounded progress: at logical quiescence a topic without attached sessions is unloaded by its (time-scaled,
		// 120 ms) idle timer; 20 s later it is still loaded. If the server agrees that no session is attached, no
		// timer is pending for it: the topic will stay loaded, and reported online, until somebody attaches again.
		for _, name := range idle {
			if t := globals.hub.topicGet(name); t != nil && len(t.sessions) == 0 {
				sc.r.Violation(fmt.Sprintf("idle-topic-never-unloaded:cat%d", int(topicCat(name))), fmt.Sprintf("topic %s has no attached session but was not unloaded within 20 s of logical quiescence (idle timer scaled to 120 ms)", name), map[string]any{"script": sc.log})
			}
		}
		return false
	}
	sc.r.Hit("idle_topics_unloaded")
	// deferred presence timers are scaled to 150ms
	time.Sleep(20 * time.Millisecond)
	return e.vfQuiesce()
}

// fold new frames of every session: presence knowledge + leak checks against rows before/after the step.
func (sc *c10Scn) fold(rowsBefore map[string]bool) {
	r := sc.r
	for _, u := range sc.users {
		for _, s := range u.ss {
			frames := s.c.since(s.scanned)
			s.scanned += len(frames)
			for _, f := range frames {
				if f.Kind != "pres" && f.Kind != "info" {
					continue
				}
				what := f.str("what")
				topic := sc.topicFor(u, f)
				if f.Kind == "pres" && f.str("topic") == "me" && (what == "on" || what == "off") {
					src := f.str("src")
					s.told[src] = what == "on"
					s.toldKnown[src] = true
				}
				if f.Kind == "pres" && f.str("topic") == "me" && what == "gone" {
					delete(s.told, f.str("src"))
					delete(s.toldKnown, f.str("src"))
				}
				if topic == "" {
					continue
				}
				if f.Kind == "pres" && (what == "acs" || what == "gone" || what == "term") {
					continue
				}
				// entitled if the user's row on that topic had P (and R for info) before or after the step
				key := topic + "|" + u.u.uid.String()
				pNow := sc.hasP(topic, u)
				rOK := true
				pOK := pNow || rowsBefore[key]
				if f.Kind == "info" {
					row, ok := sc.row(topic, u)
					rOK = (ok && (row.ModeWant & row.ModeGiven).IsReader()) || rowsBefore[key+"|R"]
					if f.str("topic") != "me" {
						// receipts relayed inside the topic to attached sessions are governed by R (C09);
						// P governs what is forwarded through 'me'
						pOK = true
					}
				}
				r.Hit("no_leak_checked")
				if !pOK || !rOK {
					row, ok := sc.row(topic, u)
					state := "no subscription"
					if ok {
						state = fmt.Sprintf("want=%s given=%s", row.ModeWant, row.ModeGiven)
					}
					r.Violation("presence-leak:"+f.Kind+":"+what, fmt.Sprintf("user %d (%s) received %s about %s: %s", u.i, state, f.Kind, topic, f.Raw), sc.wit(nil))
				}
			}
		}
	}
}

func (sc *c10Scn) rowsP() map[string]bool {
	out := map[string]bool{}
	vfmem.A.View(func(db *vfmem.DB) {
		for _, s := range db.Subs {
			if s.DeletedAt != nil {
				continue
			}
			m := s.ModeWant & s.ModeGiven
			if m.IsPresencer() {
				out[s.Topic+"|"+s.User.String()] = true
			}
			if m.IsReader() {
				out[s.Topic+"|"+s.User.String()+"|R"] = true
			}
		}
	})
	return out
}

// checkSettled evaluates convergence and accounting at a settled point.
func (sc *c10Scn) checkSettled() {
	r := sc.r
	// (1) convergence on 'me'
	for _, o := range sc.users {
		for _, s := range o.ss {
			if !s.attachedTo("me") {
				s.told, s.toldKnown = map[string]bool{}, map[string]bool{}
				continue
			}
			// fresh {get sub} on me: online flags
			ans := s.c.get("me", "sub", nil)
			flags := map[string]bool{}
			listed := map[string]bool{}
			if len(ans.Meta) > 0 {
				if subs, ok := ans.Meta[0].B["sub"].([]any); ok {
					for _, x := range subs {
						m, _ := x.(map[string]any)
						tn, _ := m["topic"].(string)
						on, _ := m["online"].(bool)
						flags[tn] = on
						listed[tn] = true
					}
				}
			}
			for _, subj := range sc.users {
				if subj == o {
					continue
				}
				p := sc.p2p(o, subj)
				if !sc.hasP(p, o) || !sc.hasP(p, subj) {
					continue
				}
				truth := sc.userOnline(subj)
				id := subj.u.uid.UserId()
				if listed[id] {
					r.Hit("converged_p2p_flag")
					if flags[id] != truth {
						r.Violation(fmt.Sprintf("not-converged:p2p:flag:told-%v", flags[id]), fmt.Sprintf("user %d is told by {meta sub} that user %d online=%v, truth %v", o.i, subj.i, flags[id], truth), sc.wit(nil))
					}
				}
				if s.toldKnown[id] {
					r.Hit("converged_p2p_events")
					if s.told[id] != truth {
						r.Violation(fmt.Sprintf("not-converged:p2p:events:told-%v", s.told[id]), fmt.Sprintf("the last {pres on|off} user %d's session %s received about user %d says online=%v, truth %v", o.i, s.c.name, subj.i, s.told[id], truth), sc.wit(nil))
					}
				}
			}
			if sc.hasP(sc.grp, o) {
				truth := sc.grpOnline()
				if listed[sc.grp] {
					r.Hit("converged_grp_flag")
					if flags[sc.grp] != truth {
						r.Violation(fmt.Sprintf("not-converged:grp:flag:told-%v", flags[sc.grp]), fmt.Sprintf("user %d is told by {meta sub} the group online=%v, truth %v", o.i, flags[sc.grp], truth), sc.wit(nil))
					}
				}
				if s.toldKnown[sc.grp] {
					r.Hit("converged_grp_events")
					if s.told[sc.grp] != truth {
						r.Violation(fmt.Sprintf("not-converged:grp:events:told-%v", s.told[sc.grp]), fmt.Sprintf("the last {pres on|off} session %s received about the group says online=%v, truth %v", s.c.name, s.told[sc.grp], truth), sc.wit(nil))
					}
				}
			}
		}
	}
	// (3) accounting inside loaded topics
	check := func(name string, addr func(u *c10User) string) {
		t := globals.hub.topicGet(name)
		if t == nil {
			return
		}
		for _, u := range sc.users {
			n := 0
			for _, s := range u.ss {
				if s.attachedTo(addr(u)) {
					n++
				}
			}
			pud, ok := t.perUser[u.u.uid]
			if !ok {
				if n > 0 {
					r.Violation("online-count:missing-user", fmt.Sprintf("topic %s has no per-user record of user %d who has %d attached sessions", name, u.i, n), sc.wit(nil))
				}
				continue
			}
			r.Hit("online_count")
			if pud.online != n || pud.online < 0 {
				r.Violation(fmt.Sprintf("online-count:%s:cached-%d-attached-%d", name[:3], pud.online, n), fmt.Sprintf("topic %s counts %d online sessions of user %d, %d are attached", name, pud.online, u.i, n), sc.wit(nil))
			}
		}
	}
	check(sc.grp, func(*c10User) string { return sc.grp })
	for i, a := range sc.users {
		for _, b := range sc.users[i+1:] {
			a, b := a, b
			check(sc.p2p(a, b), func(u *c10User) string {
				if u == a {
					return b.u.uid.UserId()
				}
				if u == b {
					return a.u.uid.UserId()
				}
				return "-"
			})
		}
	}
	// online flags in {meta sub} of the group agree with attached sessions
	for _, u := range sc.users {
		for _, s := range u.ss {
			if !s.attachedTo(sc.grp) {
				continue
			}
			ans := s.c.get(sc.grp, "sub", nil)
			if len(ans.Meta) == 0 {
				continue
			}
			subs, _ := ans.Meta[0].B["sub"].([]any)
			for _, x := range subs {
				m, _ := x.(map[string]any)
				id, _ := m["user"].(string)
				on, _ := m["online"].(bool)
				for _, v := range sc.users {
					if v.u.uid.UserId() != id {
						continue
					}
					n := 0
					for _, vs := range v.ss {
						if vs.attachedTo(sc.grp) {
							n++
						}
					}
					// online flags are shown only to a requester holding P
					if !sc.hasP(sc.grp, u) {
						continue
					}
					r.Hit("meta_sub_online_flag")
					if on != (n > 0) {
						r.Violation(fmt.Sprintf("meta-sub-online:%v-attached-%d", on, n), fmt.Sprintf("{meta sub} of the group says user %d online=%v, %d sessions attached", v.i, on, n), sc.wit(nil))
					}
				}
			}
			break
		}
	}
}

func (sc *c10Scn) newSess(u *c10User, bkg bool) *c10Sess {
	s := &c10Sess{c: sc.w.conn(u.u, bkg), u: u, told: map[string]bool{}, toldKnown: map[string]bool{}}
	u.ss = append(u.ss, s)
	return s
}

func c10Scenario(w *vfWorld, r *vfkit.R, idx int) {
	rng, e := w.rng, w.e
	sc := &c10Scn{w: w, r: r}
	n := 3 + rng.Intn(2)
	for i := 0; i < n; i++ {
		u := &c10User{u: w.user(fmt.Sprintf("u%d", i), auth.LevelAuth), i: i}
		sc.users = append(sc.users, u)
		sc.newSess(u, false)
	}
	// everybody on 'me'; group created by u0 and joined by all; all p2p pairs established
	for _, u := range sc.users {
		u.ss[0].c.sub("me", nil)
	}
	name, f := sc.users[0].ss[0].c.newGroup(false, map[string]any{"public": "g"})
	if f == nil || f.code() != 200 {
		r.Inconclusive("c10: create failed")
		return
	}
	sc.grp = name
	for _, u := range sc.users[1:] {
		u.ss[0].c.sub(name, nil)
	}
	for i, a := range sc.users {
		for _, b := range sc.users[i+1:] {
			a.ss[0].c.sub(b.u.uid.UserId(), nil)
			b.ss[0].c.sub(a.u.uid.UserId(), nil)
		}
	}
	if !sc.settle() {
		r.Inconclusive("c10: setup did not settle")
		return
	}
	sc.fold(sc.rowsP())
	sc.checkSettled()
	sc.fold(sc.rowsP())

	step := func(fn func()) {
		before := sc.rowsP()
		fn()
		e.vfQuiesce()
		sc.fold(before)
	}
	settled := func(what string) bool {
		before := sc.rowsP()
		if !sc.settle() {
			r.Inconclusive("c10: did not settle " + what)
			return false
		}
		sc.fold(before)
		sc.logf("-- settled")
		sc.checkSettled()
		sc.fold(sc.rowsP())
		r.Hit("settled_points")
		return true
	}
	if idx%2 == 0 {
		// directed: a contact (re)connects while it is muted, then is un-muted: the user must be told 'online'
		u, v := sc.users[1], sc.users[2]
		vn := v.u.uid.UserId()
		step(func() {
			f := u.ss[0].c.set(vn, map[string]any{"sub": map[string]any{"mode": "JRWA"}})
			sc.logf("user %d (%s) sets own mode on user %d to JRWA -> %s", u.i, u.ss[0].c.name, v.i, codeStr(f))
		})
		step(func() {
			v.ss[0].closed = true
			v.ss[0].c.close()
			sc.logf("%s disconnects", v.ss[0].c.name)
		})
		if !settled("after the muted contact went away") {
			return
		}
		step(func() {
			s := sc.newSess(v, false)
			s.c.sub("me", nil)
			sc.logf("user %d opens session %s and attaches me (while muted by user %d)", v.i, s.c.name, u.i)
		})
		step(func() {
			f := u.ss[0].c.set(vn, map[string]any{"sub": map[string]any{"mode": "JRWPA"}})
			sc.logf("user %d (%s) sets own mode on user %d to JRWPA -> %s", u.i, u.ss[0].c.name, v.i, codeStr(f))
		})
		r.Hit("contact_connected_while_muted")
		if !settled("after un-muting") {
			return
		}
	} else {
		// directed: the last session leaves the group and, before the idle group is unloaded, a subscription
		// attempt is refused: the group must still be unloaded and reported offline
		step(func() {
			for _, u := range sc.users {
				for _, s := range u.ss {
					if s.attachedTo(sc.grp) {
						s.c.leave(sc.grp, false)
					}
				}
			}
			f := sc.users[1].ss[0].c.sub(types.GrpToChn(sc.grp), nil)
			sc.logf("everybody leaves the group; %s attaches the group by its channel name -> %s", sc.users[1].ss[0].c.name, codeStr(f))
			if f != nil && f.code() >= 400 {
				r.Hit("refused_sub_in_idle_window")
			}
		})
		if !settled("after a refused subscription to the idle group") {
			return
		}
	}

	// directed: a second join request of a session which is already attached reaches the topic itself (the session
	// normally filters it; the topic has its own guard for requests which slipped through while it was being
	// set up). Delivered straight to the topic's queue; the session must still be counted once.
	{
		u := sc.users[len(sc.users)-1]
		s := u.ss[0]
		var srv *Session
		globals.sessionStore.lock.Lock()
		for _, x := range globals.sessionStore.sessCache {
			if x.userAgent == "vf/"+s.c.name {
				srv = x
			}
		}
		globals.sessionStore.lock.Unlock()
		if !s.attachedTo(sc.grp) {
			step(func() {
				f := s.c.sub(sc.grp, nil)
				sc.logf("%s attaches group -> %s", s.c.name, codeStr(f))
			})
		}
		if t := globals.hub.topicGet(sc.grp); srv != nil && t != nil && s.attachedTo(sc.grp) {
			step(func() {
				srv.inflightReqs.Add(1)
				t.reg <- &ClientComMessage{Sub: &MsgClientSub{Id: "dup-join", Topic: sc.grp}, Id: "dup-join", Original: sc.grp, RcptTo: sc.grp,
					AsUser: u.u.uid.UserId(), AuthLvl: int(auth.LevelAuth), Timestamp: types.TimeNow(), sess: srv, init: true}
				sc.logf("a duplicate join of %s (already attached to the group) is delivered to the topic", s.c.name)
			})
			r.Hit("duplicate_join_counted_once")
			step(func() {
				s.c.leave(sc.grp, false)
				sc.logf("%s leaves group", s.c.name)
			})
			if !settled("after a duplicate join and a leave") {
				return
			}
			step(func() {
				f := s.c.sub(sc.grp, nil)
				sc.logf("%s attaches group -> %s", s.c.name, codeStr(f))
			})
		}
	}

	// directed: a p2p participant unsubscribes while the other one keeps the topic loaded and goes on publishing:
	// nothing about the topic may reach the removed user any more
	{
		a, b := sc.users[0], sc.users[1]
		an, bn := a.u.uid.UserId(), b.u.uid.UserId()
		if !a.ss[0].attachedTo(bn) {
			step(func() { a.ss[0].c.sub(bn, nil); sc.logf("%s attaches p2p with user %d", a.ss[0].c.name, b.i) })
		}
		if !b.ss[0].attachedTo(an) {
			step(func() { b.ss[0].c.sub(an, nil); sc.logf("%s attaches p2p with user %d", b.ss[0].c.name, a.i) })
		}
		step(func() {
			f := b.ss[0].c.leave(an, true)
			sc.logf("%s unsubscribes from p2p with user %d -> %s", b.ss[0].c.name, a.i, codeStr(f))
		})
		step(func() {
			f := a.ss[0].c.pub(bn, "to the one who left", false, nil)
			sc.logf("%s publishes to p2p with user %d -> %s", a.ss[0].c.name, b.i, codeStr(f))
			a.ss[0].c.note(bn, "kp", 0, nil)
		})
		r.Hit("removed_p2p_participant_hears_nothing")
		step(func() {
			f := b.ss[0].c.sub(an, nil)
			sc.logf("%s attaches p2p with user %d -> %s", b.ss[0].c.name, a.i, codeStr(f))
		})
		if !settled("after a p2p unsubscription and re-subscription") {
			return
		}
	}

	steps := 10 + rng.Intn(10)
	for i := 0; i < steps; i++ {
		u := sc.users[rng.Intn(len(sc.users))]
		var live []*c10Sess
		for _, s := range u.ss {
			if !s.closed {
				live = append(live, s)
			}
		}
		before := sc.rowsP()
		k := rng.Intn(20)
		switch {
		case len(live) == 0 || (k < 2 && len(live) < 3):
			s := sc.newSess(u, rng.Intn(3) == 0)
			sc.logf("user %d opens session %s", u.i, s.c.name)
		case k < 5:
			s := live[rng.Intn(len(live))]
			// a session which was away from 'me' has missed notifications: it re-syncs from {meta sub}
			if s.attachedTo("me") {
				s.c.leave("me", false)
				sc.logf("%s leaves me", s.c.name)
			} else {
				s.c.sub("me", nil)
				sc.logf("%s attaches me", s.c.name)
			}
			e.vfQuiesce()
			sc.fold(before)
			s.told, s.toldKnown = map[string]bool{}, map[string]bool{}
		case k < 8:
			s := live[rng.Intn(len(live))]
			if s.attachedTo(sc.grp) {
				s.c.leave(sc.grp, false)
				sc.logf("%s leaves group", s.c.name)
			} else {
				f := s.c.sub(sc.grp, nil)
				sc.logf("%s attaches group -> %s", s.c.name, codeStr(f))
			}
		case k < 11:
			s := live[rng.Intn(len(live))]
			peer := sc.users[rng.Intn(len(sc.users))]
			if peer == u {
				continue
			}
			pn := peer.u.uid.UserId()
			if s.attachedTo(pn) {
				s.c.leave(pn, false)
				sc.logf("%s leaves p2p with user %d", s.c.name, peer.i)
			} else {
				f := s.c.sub(pn, nil)
				sc.logf("%s attaches p2p with user %d -> %s", s.c.name, peer.i, codeStr(f))
			}
		case k < 13:
			s := live[rng.Intn(len(live))]
			s.closed = true
			s.c.close()
			sc.logf("%s disconnects", s.c.name)
		case k < 15:
			// mute / unmute a p2p contact or the group
			s := live[rng.Intn(len(live))]
			peer := sc.users[rng.Intn(len(sc.users))]
			target, mode := sc.grp, "JRWS"
			label := "group"
			if peer != u && rng.Intn(2) == 0 {
				target, mode, label = peer.u.uid.UserId(), "JRWA", fmt.Sprintf("user %d", peer.i)
			}
			topic := target
			if label != "group" {
				topic = sc.p2p(u, peer)
			}
			if !sc.hasP(topic, u) {
				mode = strings.Replace(mode, "W", "WP", 1)
			}
			if u == sc.users[0] && label == "group" {
				mode += "DO"
				if !strings.Contains(mode, "A") {
					mode = strings.Replace(mode, "S", "AS", 1)
				}
			}
			f := s.c.set(target, map[string]any{"sub": map[string]any{"mode": mode}})
			sc.logf("user %d (%s) sets own mode on %s to %s -> %s", u.i, s.c.name, label, mode, codeStr(f))
		case k < 16 && u != sc.users[0]:
			// owner bans / un-bans the user in the group
			own := sc.users[0]
			var os *c10Sess
			for _, s := range own.ss {
				if !s.closed {
					os = s
				}
			}
			if os == nil {
				continue
			}
			row, ok := sc.row(sc.grp, u)
			mode := "RWPS"
			if ok && !row.ModeGiven.IsJoiner() {
				mode = "JRWPS"
			}
			f := os.c.set(sc.grp, map[string]any{"sub": map[string]any{"user": u.u.uid.UserId(), "mode": mode}})
			sc.logf("owner sets given of user %d to %s -> %s", u.i, mode, codeStr(f))
		case k < 18:
			s := live[rng.Intn(len(live))]
			if s.attachedTo(sc.grp) {
				f := s.c.pub(sc.grp, fmt.Sprintf("m%d", i), false, nil)
				sc.logf("%s publishes to group -> %s", s.c.name, codeStr(f))
				s.c.note(sc.grp, "kp", 0, nil)
			}
		default:
			s := live[rng.Intn(len(live))]
			if s.attachedTo(sc.grp) {
				s.c.note(sc.grp, "read", 1, nil)
				sc.logf("%s sends read note", s.c.name)
			}
		}
		e.vfQuiesce()
		sc.fold(before)
		if rng.Intn(3) == 0 || i == steps-1 {
			if !sc.settle() {
				r.Inconclusive("c10: did not settle")
				return
			}
			sc.fold(before)
			sc.logf("-- settled")
			sc.checkSettled()
			sc.fold(sc.rowsP())
			r.Hit("settled_points")
		}
		sc.steps++
	}
	// directed tail: the only sessions attached to the group belong to a member who gives up J: the eviction empties
	// the group, which must go offline like after a leave
	{
		own := sc.users[0]
		var os, ms *c10Sess
		for _, s := range own.ss {
			if !s.closed && !s.c.isClosed() {
				os = s
			}
		}
		mem := sc.users[1]
		for _, s := range mem.ss {
			if !s.closed && !s.c.isClosed() {
				ms = s
			}
		}
		if os != nil && ms != nil {
			before := sc.rowsP()
			for _, u := range sc.users {
				for _, s := range u.ss {
					if s.attachedTo(sc.grp) && s != ms {
						s.c.leave(sc.grp, false)
					}
				}
			}
			if row, ok := sc.row(sc.grp, mem); ok && !row.ModeGiven.IsJoiner() {
				os.c.set(sc.grp, map[string]any{"sub": map[string]any{"user": mem.u.uid.UserId(), "mode": "JRWPS"}})
			}
			if !ms.attachedTo(sc.grp) {
				fs := ms.c.sub(sc.grp, nil)
				sc.logf("user %d (%s) attaches group -> %s", mem.i, ms.c.name, codeStr(fs))
			}
			e.vfQuiesce()
			f := ms.c.set(sc.grp, map[string]any{"sub": map[string]any{"mode": "RWPS"}})
			sc.logf("user %d, the only user attached to the group, gives up J (bans itself) -> %s", mem.i, codeStr(f))
			e.vfQuiesce()
			sc.fold(before)
			r.Hit("last_session_evicted")
			if sc.settle() {
				sc.fold(before)
				sc.logf("-- settled")
				sc.checkSettled()
				sc.fold(sc.rowsP())
				r.Hit("settled_points")
			} else {
				r.Inconclusive("c10: did not settle after the eviction of the last attached session")
			}
		}
	}
	var shape []string
	for _, l := range sc.log {
		f := strings.Fields(l)
		if len(f) > 1 {
			shape = append(shape, f[1])
		}
	}
	sort.Strings(shape)
	r.Eval(fmt.Sprintf("u%d/%s", n, vfkit.Hash(sc.log)))
	if idx < 2 {
		r.Sample(map[string]any{"script": sc.log})
	}
}

func TestVfC10(t *testing.T) {
	r := vfkit.New("C10")
	defer r.Finish()
	e := vfBoot(vfConfig{Push: true})
	vfInstallRecorder(e)
	rng := r.Rand(1)
	n := r.Pick(6, 30)
	for i := 0; i < n; i++ {
		w := vfNewWorld(e, r, rng)
		c10Scenario(w, r, i)
		w.closeAll()
		e.vfQuiesce()
		if i%3 == 2 {
			r.Flush(false)
		}
	}
}
