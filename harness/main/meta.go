//go:build verif

package main

import (
	"encoding/json"
	"fmt"
	"sort"
	"strings"

	"github.com/tinode/chat/server/auth"
	"github.com/tinode/chat/server/db/vfmem"
	"github.com/tinode/chat/server/store/types"
	"github.com/tinode/chat/server/vfkit"
)

// ---- metadata scenario engine shared by C06 (ownership), C07 (permission changes),
// C08 (cache vs store) and the wire clauses of C05.

type metaActor struct {
	u    *vfUser
	role string
	c    *vfClient // main session
	c2   *vfClient // optional second session (attached to 'me' only) tracking {pres acs}
}

type metaRows struct {
	subs  map[types.Uid]vfmem.SubRow
	topic *vfmem.TopicRow
	msgs  string // digest of message rows and deletion log
}

type metaStep struct {
	N       int
	Kind    string
	Actor   string
	Target  string
	Arg     string
	Code    int
	Reply   string
	before  metaRows
	after   metaRows
	actorU  types.Uid
	targetU types.Uid
}

type metaScn struct {
	w      *vfWorld
	r      *vfkit.R
	focus  string
	kind   string // grp | p2p
	canon  string
	actors []*metaActor
	steps  []*metaStep
	// C06 bookkeeping
	owner    types.Uid
	offeredO map[types.Uid]bool // owner granted O in 'given' to this user
	deleted  bool
	broken   bool // an invariant violation was already reported for this scenario
	maxSubs  int
	// staleOffer: subscribers whose grant still carries an ownership offer made by a former owner
	staleOffer map[types.Uid]bool
	// pub/del bookkeeping for C08 probes
	lastSeq int
	// quietOwner: the owner stays attached and owner for the whole scenario and the topic is never reloaded
	// (precondition of the owner-session and proxy-topic replay clauses of C05)
	quietOwner bool
}

func (sc *metaScn) script() []string {
	var out []string
	for _, s := range sc.steps {
		out = append(out, fmt.Sprintf("%d %s %s target=%s arg=%s -> %d", s.N, s.Actor, s.Kind, s.Target, s.Arg, s.Code))
	}
	return out
}

func (sc *metaScn) rowsNow() metaRows {
	mr := metaRows{subs: map[types.Uid]vfmem.SubRow{}}
	vfmem.A.View(func(db *vfmem.DB) {
		for _, s := range db.SubsOf(sc.canon) {
			mr.subs[s.User] = s.Copy()
		}
		if tr := db.Topics[sc.canon]; tr != nil {
			cp := *tr
			cp.Tags = append([]string{}, tr.Tags...)
			mr.topic = &cp
		}
		var sb strings.Builder
		for _, m := range db.Msgs[sc.canon] {
			fmt.Fprintf(&sb, "%d:%d:%v;", m.SeqId, m.DelId, m.Content != nil)
		}
		for _, d := range db.DelLog {
			if d.Topic == sc.canon {
				fmt.Fprintf(&sb, "L%d:%s:%d-%d;", d.DelId, d.DeletedFor, d.Low, d.Hi)
			}
		}
		mr.msgs = sb.String()
	})
	return mr
}

func rowStr(r vfmem.SubRow) string {
	return fmt.Sprintf("want=%s given=%s deleted=%v read=%d recv=%d del=%d private=%s", r.ModeWant, r.ModeGiven, r.DeletedAt != nil, r.ReadSeqId, r.RecvSeqId, r.DelId, string(r.Private))
}

func (sc *metaScn) rowsDump(mr metaRows) []string {
	var out []string
	for uid, r := range mr.subs {
		out = append(out, sc.roleOf(uid)+" "+rowStr(r))
	}
	sort.Strings(out)
	if mr.topic != nil {
		out = append(out, fmt.Sprintf("topic owner=%s access=%s/%s seq=%d del=%d public=%s tags=%v state=%v", sc.roleOf(mr.topic.Owner), mr.topic.Access.Auth, mr.topic.Access.Anon,
			mr.topic.SeqId, mr.topic.DelId, string(mr.topic.Public), mr.topic.Tags, mr.topic.State))
	} else {
		out = append(out, "topic row absent")
	}
	return out
}

func (sc *metaScn) roleOf(uid types.Uid) string {
	for _, a := range sc.actors {
		if a.u.uid == uid {
			return a.role
		}
	}
	if uid.IsZero() {
		return "-"
	}
	return uid.UserId()
}

func (sc *metaScn) actor(role string) *metaActor {
	for _, a := range sc.actors {
		if a.role == role {
			return a
		}
	}
	return nil
}

func (sc *metaScn) nameFor(a *metaActor) string {
	if sc.kind == "p2p" {
		for _, o := range sc.actors {
			if (o.role == "peerA" || o.role == "peerB") && o != a && (a.role == "peerA" || a.role == "peerB") {
				return o.u.uid.UserId()
			}
		}
		return sc.canon // literal p2p name for third parties
	}
	return sc.canon
}

func (sc *metaScn) wit(st *metaStep, extra map[string]any) map[string]any {
	m := map[string]any{"script": sc.script(), "kind": sc.kind}
	if st != nil {
		m["step"] = fmt.Sprintf("%s %s target=%s arg=%s", st.Actor, st.Kind, st.Target, st.Arg)
		m["reply"] = st.Reply
		m["rows_before"] = sc.rowsDump(st.before)
		m["rows_after"] = sc.rowsDump(st.after)
	}
	for k, v := range extra {
		m[k] = v
	}
	return m
}

var metaModes = []string{"JRWPS", "JRWPAS", "JRWPASD", "JRWPASDO", "JRWS", "JWPS", "JRPS", "RWPS", "N", "JRWPSD", "JP", "JRWPA", "O", "JRWPSO", "", "jrwps", "JRWPX", "+D", "-P", "+O", "-J"}

func (sc *metaScn) randMode() string { return metaModes[sc.w.rng.Intn(len(metaModes))] }

// do performs one request by actor a and records the step with rows before/after at quiescence.
func (sc *metaScn) do(a *metaActor, kind string, target *metaActor, arg string) *metaStep {
	e := sc.w.e
	st := &metaStep{N: len(sc.steps), Kind: kind, Actor: a.role, Arg: arg, actorU: a.u.uid}
	if target != nil {
		st.Target = target.role
		st.targetU = target.u.uid
	}
	st.before = sc.rowsNow()
	name := sc.nameFor(a)
	var f *vfFrame
	switch kind {
	case "sub":
		b := map[string]any{}
		if arg != "" {
			b["set"] = map[string]any{"sub": map[string]any{"mode": arg}}
		}
		f = a.c.sub(name, b)
	case "setSelf":
		f = a.c.set(name, map[string]any{"sub": map[string]any{"mode": arg}})
	case "setOther":
		sub := map[string]any{"user": target.u.uid.UserId()}
		if arg != "" {
			sub["mode"] = arg
		}
		f = a.c.set(name, map[string]any{"sub": sub})
	case "leave":
		f = a.c.leave(name, false)
	case "unsub":
		f = a.c.leave(name, true)
	case "unsubChn":
		// the same request addressed by the channel spelling of the group
		f = a.c.leave(types.GrpToChn(name), true)
	case "leaveChn":
		f = a.c.leave(types.GrpToChn(name), false)
	case "delSub":
		f = a.c.del(name, "sub", map[string]any{"user": target.u.uid.UserId()})
	case "delTopic":
		f = a.c.del(name, "topic", map[string]any{"hard": true})
	case "setPublic":
		f = a.c.set(name, map[string]any{"desc": map[string]any{"public": map[string]any{"fn": arg}}})
	case "setTrusted":
		f = a.c.set(name, map[string]any{"desc": map[string]any{"trusted": map[string]any{"staff": true, "x": arg}}})
	case "setPrivate":
		f = a.c.set(name, map[string]any{"desc": map[string]any{"private": map[string]any{"note": arg}}})
	case "setDefacs":
		f = a.c.set(name, map[string]any{"desc": map[string]any{"defacs": map[string]any{"auth": arg, "anon": "N"}}})
	case "setTags":
		f = a.c.set(name, map[string]any{"tags": strings.Split(arg, ",")})
	case "pub":
		f = a.c.pub(name, arg, true, nil)
		if f != nil && f.code() == 202 {
			if v, ok := f.params()["seq"].(float64); ok {
				sc.lastSeq = int(v)
			}
		}
	case "delMsg":
		var lo int
		fmt.Sscanf(arg, "%d", &lo)
		f = a.c.del(name, "msg", map[string]any{"delseq": []map[string]any{{"low": lo}}, "hard": sc.w.rng.Intn(2) == 0})
	case "noteRead", "noteRecv":
		var sq int
		fmt.Sscanf(arg, "%d", &sq)
		what := "read"
		if kind == "noteRecv" {
			what = "recv"
		}
		a.c.note(name, what, sq, nil)
	}
	e.vfQuiesce()
	if f != nil {
		st.Code = f.code()
		st.Reply = f.Raw
	}
	st.after = sc.rowsNow()
	sc.steps = append(sc.steps, st)
	return st
}

func metaRowsEqual(a, b metaRows) (bool, string) {
	if len(a.subs) != len(b.subs) {
		return false, "number of subscription rows"
	}
	for uid, ra := range a.subs {
		rb, ok := b.subs[uid]
		if !ok {
			return false, "row removed"
		}
		if ra.ModeWant != rb.ModeWant || ra.ModeGiven != rb.ModeGiven || (ra.DeletedAt == nil) != (rb.DeletedAt == nil) ||
			string(ra.Private) != string(rb.Private) || ra.ReadSeqId != rb.ReadSeqId || ra.RecvSeqId != rb.RecvSeqId || ra.DelId != rb.DelId {
			return false, "subscription row of " + uid.UserId()
		}
	}
	if (a.topic == nil) != (b.topic == nil) {
		return false, "topic row existence"
	}
	if a.msgs != b.msgs {
		return false, "message rows / deletion log"
	}
	if a.topic != nil {
		ta, tb := a.topic, b.topic
		if ta.Owner != tb.Owner || ta.Access != tb.Access || string(ta.Public) != string(tb.Public) || string(ta.Trusted) != string(tb.Trusted) ||
			strings.Join(ta.Tags, ",") != strings.Join(tb.Tags, ",") || ta.SeqId != tb.SeqId || ta.DelId != tb.DelId || ta.State != tb.State {
			return false, "topic row"
		}
	}
	return true, ""
}

// metaNextDefacs, when set, is the default access requested for the next group created by metaSetup.
var metaNextDefacs map[string]any

// metaNextChan, when set, makes the next group created by metaSetup channel-enabled.
var metaNextChan bool

// metaSetup creates the topic and actors.
func metaSetup(w *vfWorld, r *vfkit.R, focus, kind string) *metaScn {
	sc := &metaScn{w: w, r: r, focus: focus, kind: kind, offeredO: map[types.Uid]bool{}, maxSubs: globals.maxSubscriberCount}
	mk := func(role string, lvl auth.Level) *metaActor {
		u := w.user(role, lvl)
		a := &metaActor{u: u, role: role, c: w.conn(u, false)}
		sc.actors = append(sc.actors, a)
		return a
	}
	if kind == "grp" {
		o := mk("owner", auth.LevelAuth)
		desc := map[string]any{"public": map[string]any{"fn": "t"}, "private": map[string]any{"note": "own"}}
		if metaNextDefacs != nil {
			desc["defacs"] = metaNextDefacs
		}
		name, f := o.c.newGroup(metaNextChan, desc)
		if f == nil || f.code() != 200 {
			r.Inconclusive("meta setup: create failed")
			return nil
		}
		sc.canon = name
		sc.owner = o.u.uid
		for _, role := range []string{"admin", "member", "candidate", "sharer", "stranger"} {
			mk(role, auth.LevelAuth)
		}
		// a second session of the candidate and of the member on 'me' to follow {pres acs}
		for _, role := range []string{"candidate", "member", "owner"} {
			a := sc.actor(role)
			a.c2 = w.conn(a.u, false)
			a.c2.sub("me", nil)
		}
	} else {
		a, b := mk("peerA", auth.LevelAuth), mk("peerB", auth.LevelAuth)
		mk("third", auth.LevelAuth)
		sc.canon = a.u.uid.P2PName(b.u.uid)
		for _, x := range []*metaActor{a, b} {
			x.c2 = w.conn(x.u, false)
			x.c2.sub("me", nil)
		}
	}
	w.e.vfQuiesce()
	return sc
}

// metaRandomStep draws and performs one step.
func (sc *metaScn) metaRandomStep() *metaStep {
	rng := sc.w.rng
	a := sc.actors[rng.Intn(len(sc.actors))]
	t := sc.actors[rng.Intn(len(sc.actors))]
	if sc.quietOwner {
		for a.role == "owner" {
			// the owner only watches in these scenarios
			a = sc.actors[rng.Intn(len(sc.actors))]
		}
	}
	if sc.kind == "p2p" {
		switch rng.Intn(10) {
		case 0, 1:
			return sc.do(a, "sub", nil, sc.randMode())
		case 2, 3:
			return sc.do(a, "setSelf", nil, sc.randMode())
		case 4:
			return sc.do(a, "setOther", t, sc.randMode())
		case 5:
			return sc.do(a, "leave", nil, "")
		case 6:
			return sc.do(a, "unsub", nil, "")
		case 7:
			return sc.do(a, "delSub", t, "")
		case 8:
			return sc.do(a, "setPrivate", nil, fmt.Sprintf("p%d", rng.Intn(100)))
		default:
			return sc.do(a, "pub", nil, fmt.Sprintf("m%d", len(sc.steps)))
		}
	}
	switch k := rng.Intn(24); {
	case k < 4:
		m := ""
		if rng.Intn(2) == 0 {
			m = sc.randMode()
		}
		return sc.do(a, "sub", nil, m)
	case k < 7:
		return sc.do(a, "setSelf", nil, sc.randMode())
	case k < 11:
		m := sc.randMode()
		if rng.Intn(4) == 0 {
			m = ""
		}
		return sc.do(a, "setOther", t, m)
	case k < 12:
		return sc.do(a, "leave", nil, "")
	case k < 13:
		return sc.do(a, "unsub", nil, "")
	case k < 15:
		return sc.do(a, "delSub", t, "")
	case k < 16:
		if rng.Intn(4) == 0 {
			return sc.do(a, "delTopic", nil, "")
		}
		return sc.do(a, "setPrivate", nil, fmt.Sprintf("p%d", rng.Intn(100)))
	case k < 17:
		return sc.do(a, "setPublic", nil, fmt.Sprintf("pub%d", rng.Intn(100)))
	case k < 18:
		return sc.do(a, "setDefacs", nil, []string{"JRWPS", "JRWP", "N", "JRWPAS", "RWPS"}[rng.Intn(5)])
	case k < 19:
		return sc.do(a, "setTags", nil, []string{"alpha,beta", "travel", "flowers,plants", "x1,y2,z3"}[rng.Intn(4)])
	case k < 20:
		return sc.do(a, "setTrusted", nil, fmt.Sprintf("t%d", rng.Intn(10)))
	case k < 22:
		return sc.do(a, "pub", nil, fmt.Sprintf("m%d", len(sc.steps)))
	case k < 23:
		if sc.lastSeq > 0 {
			// NB: a {note read} beyond the received mark is a known finding of C08/C09 (cache drags recv, the store
			// does not); it is driven by a directed scenario only, here recv always goes first.
			sq := fmt.Sprint(1 + rng.Intn(sc.lastSeq))
			st := sc.do(a, "noteRecv", nil, sq)
			if rng.Intn(2) == 0 {
				sc.after(st)
				return sc.do(a, "noteRead", nil, sq)
			}
			return st
		}
		return sc.do(a, "pub", nil, fmt.Sprintf("m%d", len(sc.steps)))
	default:
		if sc.lastSeq > 0 {
			return sc.do(a, "delMsg", nil, fmt.Sprint(1+rng.Intn(sc.lastSeq)))
		}
		return sc.do(a, "setPrivate", nil, "q")
	}
}

// metaReload: everybody attached leaves, topic unloads on idle timeout, they re-attach.
func (sc *metaScn) metaReload() bool {
	e := sc.w.e
	var was []*metaActor
	for _, a := range sc.actors {
		if a.c.attachState()[sc.nameFor(a)] {
			was = append(was, a)
			a.c.leave(sc.nameFor(a), false)
		}
	}
	e.vfQuiesce()
	if !e.vfWaitUnloaded(sc.canon) {
		diag := ""
		if t := globals.hub.topicGet(sc.canon); t != nil {
			for s := range t.sessions {
				diag += fmt.Sprintf(" session(ua=%s uid=%s)", s.userAgent, s.uid.UserId())
			}
			diag += fmt.Sprintf(" status=%d", t.status)
		}
		var scr []string
		for _, st := range sc.steps {
			scr = append(scr, fmt.Sprintf("%s/%s/%s/%d", st.Actor, st.Kind, st.Arg, st.Code))
		}
		sc.r.Inconclusive("meta reload: topic " + sc.canon + " not unloaded:" + diag + " steps=" + strings.Join(scr, " "))
		return false
	}
	for _, a := range was {
		a.c.sub(sc.nameFor(a), nil)
	}
	e.vfQuiesce()
	st := &metaStep{N: len(sc.steps), Kind: "reload", Actor: "-"}
	st.before = sc.rowsNow()
	st.after = st.before
	sc.steps = append(sc.steps, st)
	return true
}

// whileUnloaded detaches every attached actor, waits for the idle unload, runs f (requests from unattached
// sessions then take the hub's offline path), and re-attaches those who were attached.
func (sc *metaScn) whileUnloaded(f func()) bool {
	e := sc.w.e
	var was []*metaActor
	for _, a := range sc.actors {
		if a.c.attachState()[sc.nameFor(a)] {
			was = append(was, a)
			a.c.leave(sc.nameFor(a), false)
		}
	}
	e.vfQuiesce()
	if !e.vfWaitUnloaded(sc.canon) {
		sc.r.Inconclusive("meta: topic " + sc.canon + " not unloaded for an offline step")
		return false
	}
	f()
	for _, a := range was {
		a.c.sub(sc.nameFor(a), nil)
	}
	e.vfQuiesce()
	st := &metaStep{N: len(sc.steps), Kind: "reload", Actor: "-"}
	st.before = sc.rowsNow()
	st.after = st.before
	sc.steps = append(sc.steps, st)
	return true
}

func acsOf(m map[string]any) (want, given, mode string, ok bool) {
	a, isMap := m["acs"].(map[string]any)
	if !isMap {
		return
	}
	want, _ = a["want"].(string)
	given, _ = a["given"].(string)
	mode, _ = a["mode"].(string)
	return want, given, mode, true
}

// c05WireIntersection: every acs object on the wire satisfies mode = want & given.
func c05WireIntersection(r *vfkit.R, clients []*vfClient) {
	check := func(c *vfClient, f *vfFrame, m map[string]any) {
		want, given, mode, ok := acsOf(m)
		if !ok {
			return
		}
		var w, g, md types.AccessMode
		if want != "" && w.UnmarshalText([]byte(want)) != nil {
			return
		}
		if given != "" && g.UnmarshalText([]byte(given)) != nil {
			return
		}
		if mode == "" {
			return
		}
		if md.UnmarshalText([]byte(mode)) != nil {
			r.Violation("wire-acs-unparsable", "acs mode on the wire cannot be parsed: "+f.Raw, nil)
			return
		}
		if want == "" || given == "" {
			return
		}
		r.Hit("wire_acs_intersection")
		if md != w&g {
			r.Violation("wire-acs-not-intersection", fmt.Sprintf("acs on the wire: want=%s given=%s mode=%s at %s", want, given, mode, c.name), map[string]any{"frame": f.Raw})
		}
	}
	for _, c := range clients {
		for _, f := range c.all() {
			switch f.Kind {
			case "ctrl":
				if p := f.params(); p != nil {
					check(c, f, p)
				}
			case "meta":
				if d, ok := f.B["desc"].(map[string]any); ok {
					check(c, f, d)
				}
				if subs, ok := f.B["sub"].([]any); ok {
					for _, s := range subs {
						if sm, ok := s.(map[string]any); ok {
							check(c, f, sm)
						}
					}
				}
			}
		}
	}
}

func jsonStr(v any) string {
	b, _ := json.Marshal(v)
	return string(b)
}

// c05Replay (C05 notification-replay clause): parties that track permissions from change
// notifications must end up with the permissions the authoritative topic holds.
// (d1) a user's second session attached to 'me' folds {pres what=acs src=<topic>} about itself;
// (d2) the owner's session attached to the topic folds {pres what=acs src=<user>} about others plus the
//
//	acs reported in the replies to its own requests; the same notifications are fed to a bare proxy
//	Topic through the real updateAcsFromPresMsg.
func (sc *metaScn) c05Replay() {
	r := sc.r
	if sc.kind != "grp" || sc.deleted {
		return
	}
	final := sc.rowsNow()
	fold := func(m *types.AccessMode, s string) bool {
		if s == "" {
			return true
		}
		return m.ApplyMutation(s) == nil
	}
	for _, a := range sc.actors {
		if a.c2 == nil {
			continue
		}
		var want, given types.AccessMode
		known := false
		if a.role == "owner" {
			want, given, known = types.ModeCFull, types.ModeCFull, true
		}
		ok := true
		var seen []string
		for _, f := range a.c2.all() {
			if f.Kind != "pres" || f.str("topic") != "me" || f.str("src") != sc.canon {
				continue
			}
			switch f.str("what") {
			case "acs":
				if tgt := f.str("tgt"); tgt != "" && tgt != a.u.uid.UserId() {
					continue
				}
				d, _ := f.B["dacs"].(map[string]any)
				dw, _ := d["want"].(string)
				dg, _ := d["given"].(string)
				seen = append(seen, dw+"/"+dg)
				if !fold(&want, dw) || !fold(&given, dg) {
					ok = false
				}
				known = true
			case "gone":
				want, given, known = 0, 0, false
				seen = append(seen, "gone")
			}
		}
		row, has := final.subs[a.u.uid]
		if !known || !has || row.DeletedAt != nil {
			continue
		}
		r.Hit("replay_me_session")
		if !ok || want != row.ModeWant || given != row.ModeGiven {
			r.Violation("replay-me-diverged:"+a.role, fmt.Sprintf("%s's other session tracking {pres acs} on 'me' holds want=%s given=%s, the store has want=%s given=%s", a.role, want, given, row.ModeWant, row.ModeGiven),
				sc.wit(nil, map[string]any{"notifications": seen}))
		}
	}
	// (d2) only in the scenarios where the owner stays attached, does nothing and remains the owner throughout
	// (its session then sees every change made by the others)
	if !sc.quietOwner {
		return
	}
	own := sc.actor("owner")
	for _, st := range sc.steps {
		if st.Kind == "reload" || (st.Actor == "owner" && (st.Kind == "leave" || st.Kind == "sub")) {
			return
		}
	}
	if sc.owner != own.u.uid {
		return
	}
	type wg struct{ want, given types.AccessMode }
	shadow := map[string]*wg{}
	proxy := &Topic{name: sc.canon, cat: types.TopicCatGrp, perUser: map[types.Uid]perUserData{}}
	ids := map[string]string{}
	for _, s := range own.c.sends {
		ids[s.Id] = s.Raw
	}
	for _, f := range own.c.all() {
		switch f.Kind {
		case "pres":
			if f.str("topic") != sc.canon || f.str("what") != "acs" {
				continue
			}
			d, _ := f.B["dacs"].(map[string]any)
			dw, _ := d["want"].(string)
			dg, _ := d["given"].(string)
			src := f.str("src")
			if shadow[src] == nil {
				shadow[src] = &wg{}
			}
			if !fold(&shadow[src].want, dw) || !fold(&shadow[src].given, dg) {
				r.Violation("replay-delta-unparsable", "notification delta cannot be applied: "+f.Raw, nil)
			}
			proxy.updateAcsFromPresMsg(&MsgServerPres{Topic: sc.canon, Src: src, What: "acs", Acs: &MsgAccessMode{Want: dw, Given: dg}})
		case "ctrl":
			p := f.params()
			if p == nil || f.code() >= 300 {
				continue
			}
			w, g, _, ok := acsOf(p)
			if !ok {
				continue
			}
			user, _ := p["user"].(string)
			if user == "" {
				user = own.u.uid.UserId()
			}
			if shadow[user] == nil {
				shadow[user] = &wg{}
			}
			fold(&shadow[user].want, w)
			fold(&shadow[user].given, g)
			proxy.updateAcsFromPresMsg(&MsgServerPres{Topic: sc.canon, Src: user, What: "acs", Acs: &MsgAccessMode{Want: w, Given: g}})
		}
	}
	for uid, row := range final.subs {
		sh := shadow[uid.UserId()]
		if sh == nil || row.DeletedAt != nil || uid == own.u.uid {
			continue
		}
		r.Hit("replay_topic_admin")
		if sh.want != row.ModeWant || sh.given != row.ModeGiven {
			r.Violation("replay-admin-diverged:"+sc.roleOf(uid), fmt.Sprintf("owner's session tracking notifications holds want=%s given=%s for %s, the store has want=%s given=%s", sh.want, sh.given, sc.roleOf(uid), row.ModeWant, row.ModeGiven), sc.wit(nil, nil))
		}
		pp := proxy.perUser[uid]
		r.Hit("replay_proxy_topic")
		if pp.modeWant != sh.want || pp.modeGiven != sh.given {
			r.Violation("replay-proxy-diverged:"+sc.roleOf(uid), "proxy topic fed through updateAcsFromPresMsg disagrees with the folded notifications", sc.wit(nil, nil))
		}
	}
}

// actorByUid finds the scenario actor of a user.
func (sc *metaScn) actorByUid(uid types.Uid) *metaActor {
	for _, a := range sc.actors {
		if a.u.uid == uid {
			return a
		}
	}
	return nil
}

// vfServerAttached reports whether the loaded topic lists the client's session (hooked state, read at quiescence).
func vfServerAttached(c *vfClient, topic string) bool {
	t := globals.hub.topicGet(topic)
	if t == nil {
		return false
	}
	var srv *Session
	globals.sessionStore.lock.Lock()
	for _, x := range globals.sessionStore.sessCache {
		if x.userAgent == "vf/"+c.name {
			srv = x
		}
	}
	globals.sessionStore.lock.Unlock()
	if srv == nil {
		return false
	}
	_, ok := t.sessions[srv]
	return ok
}
