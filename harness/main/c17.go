//go:build verif

package main

import (
	"errors"
	"fmt"
	"math/rand"
	"net"
	"net/rpc"
	"sort"
	"strings"
	"sync"
	"sync/atomic"
	"testing"
	"time"

	"github.com/tinode/chat/server/concurrency"
	rh "github.com/tinode/chat/server/ringhash"
	"github.com/tinode/chat/server/vfkit"
)

// C17, server part: Cluster.rehash / placement agreement, signature gate, leader election over
// the real net/rpc transport with faults injected at the receiving RPC entry point.

// ---------------------------------------------------------------------------------------
// wire events

type c17Ev struct {
	Seq      int64 // logical time of the call reaching the receiver
	Ret      int64 // logical time of the reply leaving the receiver (0 = none)
	Kind     string
	From, To string
	Term     int
	Sig      string
	Nodes    []string
	Granted  bool
	RespTerm int
	Fate     string // ok | lost-request | lost-reply | refused(stopped)
	Forged   bool
}

type c17Net struct {
	mu       sync.Mutex
	rng      *rand.Rand
	clock    int64
	evs      []*c17Ev
	lossPct  int
	maxDelay time.Duration
	blocked  map[string]bool // "from>to"
	stopped  bool
	inflight int64
	hb       time.Duration
}

func (n *c17Net) tick() int64 { return atomic.AddInt64(&n.clock, 1) }

// decide the fate of one request on edge from->to.
func (n *c17Net) decide(from, to string) (fate string, before, after time.Duration) {
	n.mu.Lock()
	defer n.mu.Unlock()
	if n.stopped {
		return "refused", 0, 0
	}
	if n.blocked[from+">"+to] {
		return "lost-request", 0, 0
	}
	fate = "ok"
	if n.lossPct > 0 {
		k := n.rng.Intn(100)
		if k < n.lossPct/2 {
			fate = "lost-request"
		} else if k < n.lossPct {
			fate = "lost-reply"
		}
	}
	if n.maxDelay > 0 {
		if n.rng.Intn(3) == 0 {
			before = time.Duration(n.rng.Int63n(int64(n.maxDelay)))
		}
		if n.rng.Intn(4) == 0 {
			after = time.Duration(n.rng.Int63n(int64(n.maxDelay)))
		}
	}
	return
}

func (n *c17Net) record(ev *c17Ev) {
	n.mu.Lock()
	n.evs = append(n.evs, ev)
	n.mu.Unlock()
}

func (n *c17Net) setFaults(loss int, maxDelay time.Duration, blocked map[string]bool) {
	n.mu.Lock()
	n.lossPct, n.maxDelay, n.blocked = loss, maxDelay, blocked
	n.mu.Unlock()
}

func (n *c17Net) events() []*c17Ev {
	n.mu.Lock()
	defer n.mu.Unlock()
	out := make([]*c17Ev, len(n.evs))
	for i, e := range n.evs {
		cp := *e
		out[i] = &cp
	}
	return out
}

var errC17Lost = errors.New("vf: message lost")

// c17RPC is registered under the service name "Cluster" on each node's own rpc.Server and forwards
// to the real Cluster methods.
type c17RPC struct {
	node *c17Node
}

func (r *c17RPC) Health(h *ClusterHealth, unused *bool) error {
	nt := r.node.net
	atomic.AddInt64(&nt.inflight, 1)
	defer atomic.AddInt64(&nt.inflight, -1)
	ev := &c17Ev{Kind: "health", From: h.Leader, To: r.node.name, Term: h.Term, Sig: h.Signature, Nodes: append([]string{}, h.Nodes...), Forged: strings.HasPrefix(h.Leader, "!")}
	if ev.Forged {
		h.Leader = strings.TrimPrefix(h.Leader, "!")
		ev.From = h.Leader
	}
	fate, before, after := nt.decide(ev.From, r.node.name)
	if ev.Forged && fate != "refused" {
		fate, before, after = "ok", 0, 0
	}
	ev.Fate = fate
	ev.Seq = nt.tick()
	if fate == "refused" || fate == "lost-request" {
		nt.record(ev)
		return errC17Lost
	}
	time.Sleep(before)
	err := r.node.c.Health(h, unused)
	time.Sleep(after)
	ev.Ret = nt.tick()
	nt.record(ev)
	if fate == "lost-reply" {
		return errC17Lost
	}
	return err
}

func (r *c17RPC) Vote(req *ClusterVoteRequest, resp *ClusterVoteResponse) error {
	nt := r.node.net
	atomic.AddInt64(&nt.inflight, 1)
	defer atomic.AddInt64(&nt.inflight, -1)
	ev := &c17Ev{Kind: "vote", From: req.Node, To: r.node.name, Term: req.Term, Forged: strings.HasPrefix(req.Node, "!")}
	if ev.Forged {
		req.Node = strings.TrimPrefix(req.Node, "!")
		ev.From = req.Node
	}
	fate, before, after := nt.decide(req.Node, r.node.name)
	if ev.Forged && fate != "refused" {
		fate, before, after = "ok", 0, 0
	}
	ev.Fate = fate
	ev.Seq = nt.tick()
	if fate == "refused" || fate == "lost-request" {
		nt.record(ev)
		return errC17Lost
	}
	time.Sleep(before)
	err := r.node.c.Vote(req, resp)
	ev.Granted, ev.RespTerm = resp.Result, resp.Term
	time.Sleep(after)
	ev.Ret = nt.tick()
	nt.record(ev)
	if fate == "lost-reply" {
		return errC17Lost
	}
	return err
}

func (r *c17RPC) Ping(p *ClusterPing, unused *bool) error { return nil }

type c17Node struct {
	name   string
	c      *Cluster
	net    *c17Net
	lis    net.Listener
	srv    *rpc.Server
	exited chan struct{}
}

type c17Cluster struct {
	nodes []*c17Node
	net   *c17Net
	names []string
}

var c17NameSets = [][]string{
	{"a", "b", "c", "d", "e"},
	{"node1", "node2", "node3", "node4", "node5"},
	{"1a", "11a", "a1", "a", "aa"},
	{"tinode-0", "tinode-1", "tinode-2", "tinode-10", "tinode-11"},
	{"узел", "节点", "x", "y z", "N"},
}

func c17Start(rng *rand.Rand, n int, hbMs, voteAfter, failAfter int, names []string) *c17Cluster {
	nt := &c17Net{rng: rand.New(rand.NewSource(rng.Int63())), blocked: map[string]bool{}, hb: time.Duration(hbMs) * time.Millisecond}
	cl := &c17Cluster{net: nt, names: names[:n]}
	for i := 0; i < n; i++ {
		lis, err := net.Listen("tcp", "127.0.0.1:0")
		vfMust(err, "c17 listen")
		node := &c17Node{name: names[i], net: nt, lis: lis, exited: make(chan struct{})}
		cl.nodes = append(cl.nodes, node)
	}
	for i, node := range cl.nodes {
		c := &Cluster{thisNodeName: node.name, fingerprint: int64(1000 + i), nodes: map[string]*ClusterNode{}, proxyEventQueue: concurrency.NewGoRoutinePool(n * 5)}
		for j, peer := range cl.nodes {
			if j == i {
				continue
			}
			c.nodes[peer.name] = &ClusterNode{address: peer.lis.Addr().String(), name: peer.name, done: make(chan bool, 1), msess: map[string]struct{}{}}
		}
		c.listenOn = node.lis.Addr().String()
		if !c.failoverInit(&clusterFailoverConfig{Enabled: true, Heartbeat: hbMs, VoteAfter: voteAfter, NodeFailAfter: failAfter}) {
			panic("c17: failoverInit refused")
		}
		node.c = c
		node.srv = rpc.NewServer()
		vfMust(node.srv.RegisterName("Cluster", &c17RPC{node: node}), "c17 rpc register")
		go node.srv.Accept(node.lis)
	}
	// as Cluster.start() does
	for _, node := range cl.nodes {
		for _, cn := range node.c.nodes {
			cn.rpcDone = make(chan *rpc.Call, n*clusterRpcCompletionBuffer)
			cn.p2mSender = make(chan *ClusterReq, clusterProxyToMasterBuffer)
			go cn.reconnect()
			go cn.asyncRpcLoop()
			go cn.p2mSenderLoop()
		}
	}
	for _, node := range cl.nodes {
		node := node
		go func() {
			node.c.run()
			close(node.exited)
		}()
	}
	return cl
}

// stop: refuse all traffic, let calls in flight finish, stop and join the election loops.
func (cl *c17Cluster) stop() bool {
	cl.net.mu.Lock()
	cl.net.stopped = true
	cl.net.mu.Unlock()
	ok := vfWaitCond(5*time.Second, func() bool { return atomic.LoadInt64(&cl.net.inflight) == 0 })
	time.Sleep(4 * time.Millisecond)
	for _, node := range cl.nodes {
		select {
		case node.c.fo.done <- true:
		default:
		}
	}
	for _, node := range cl.nodes {
		select {
		case <-node.exited:
		case <-time.After(5 * time.Second):
			ok = false
		}
	}
	for _, node := range cl.nodes {
		node.lis.Close()
		for _, cn := range node.c.nodes {
			cn.lock.Lock()
			if cn.endpoint != nil {
				cn.endpoint.Close()
			}
			cn.connected = false
			cn.lock.Unlock()
			select {
			case cn.done <- true:
			default:
			}
			select {
			case cn.p2mSender <- nil:
			default:
			}
		}
		node.c.proxyEventQueue.Stop()
	}
	return ok
}

type c17State struct {
	name   string
	term   int
	leader string
	sig    string
	active []string
}

// states are read only after the election loops have been joined.
func (cl *c17Cluster) states() []c17State {
	var out []c17State
	for _, node := range cl.nodes {
		st := c17State{name: node.name, term: node.c.fo.term, leader: node.c.fo.leader, sig: node.c.ring.Signature()}
		st.active = append([]string{}, node.c.fo.activeNodes...)
		out = append(out, st)
	}
	return out
}

// ---------------------------------------------------------------------------------------
// oracles over the recorded wire history

func c17Check(r *vfkit.R, cl *c17Cluster, evs []*c17Ev, final []c17State, label string) (leadersSeen int, maxTerm int) {
	n := len(cl.nodes)
	majority := n/2 + 1
	wit := func() map[string]any {
		var lines []string
		for _, e := range evs {
			if len(lines) > 400 {
				break
			}
			lines = append(lines, fmt.Sprintf("%d-%d %s %s>%s term=%d granted=%v respTerm=%d %s forged=%v", e.Seq, e.Ret, e.Kind, e.From, e.To, e.Term, e.Granted, e.RespTerm, e.Fate, e.Forged))
		}
		return map[string]any{"nodes": cl.names, "scenario": label, "history": lines, "final": fmt.Sprint(final)}
	}
	sort.Slice(evs, func(i, j int) bool { return evs[i].Seq < evs[j].Seq })

	// one leader per term: a node which considers itself leader of term T sends health checks carrying T
	leaderOf := map[int]string{}
	firstHealth := map[string]int64{} // leader|term -> seq
	for _, e := range evs {
		if e.Kind != "health" || e.Forged {
			continue
		}
		r.Hit("one_leader_per_term")
		if e.Term > maxTerm {
			maxTerm = e.Term
		}
		if prev, ok := leaderOf[e.Term]; ok && prev != e.From {
			r.Violation("two-leaders-one-term", fmt.Sprintf("%s: nodes %q and %q both sent leader health checks for term %d", label, prev, e.From, e.Term), wit())
		} else {
			leaderOf[e.Term] = e.From
		}
		k := fmt.Sprintf("%s|%d", e.From, e.Term)
		if _, ok := firstHealth[k]; !ok {
			firstHealth[k] = e.Seq
		}
	}
	leadersSeen = len(leaderOf)
	// final states: two nodes which both consider themselves leader of one term
	selfLeader := map[int]string{}
	for _, st := range final {
		if st.leader == st.name {
			if prev, ok := selfLeader[st.term]; ok {
				r.Violation("two-leaders-one-term", fmt.Sprintf("%s: at the end nodes %q and %q both consider themselves leader of term %d", label, prev, st.name, st.term), wit())
			}
			selfLeader[st.term] = st.name
			if prev, ok := leaderOf[st.term]; ok && prev != st.name {
				r.Violation("two-leaders-one-term", fmt.Sprintf("%s: %q considers itself leader of term %d in which %q sent leader health checks", label, st.name, st.term, prev), wit())
			}
		}
	}

	// votes
	type key struct {
		node string
		term int
	}
	grants := map[key]map[string]bool{}
	candidate := map[key]bool{}
	for _, e := range evs {
		if e.Kind != "vote" || e.Forged {
			continue
		}
		candidate[key{e.From, e.Term}] = true
		if e.Term > maxTerm {
			maxTerm = e.Term
		}
	}
	for _, e := range evs {
		if e.Kind != "vote" || e.Ret == 0 {
			continue
		}
		r.Hit("vote_reply_checked")
		k := key{e.To, e.Term}
		if e.Granted {
			if grants[k] == nil {
				grants[k] = map[string]bool{}
			}
			grants[k][e.From] = true
			if e.RespTerm != e.Term {
				r.Violation("vote-grant-term", fmt.Sprintf("%s: %q granted its vote to %q for term %d but reports term %d", label, e.To, e.From, e.Term, e.RespTerm), wit())
			}
			if candidate[k] {
				r.Violation("vote-by-candidate", fmt.Sprintf("%s: %q granted its vote to %q for term %d in which it was a candidate itself", label, e.To, e.From, e.Term), wit())
			}
		} else if e.RespTerm < e.Term {
			r.Violation("vote-refused-lower-term", fmt.Sprintf("%s: %q refused %q's request for term %d although its own term %d is lower", label, e.To, e.From, e.Term, e.RespTerm), wit())
		}
	}
	for k, g := range grants {
		if len(g) > 1 {
			var who []string
			for c := range g {
				who = append(who, c)
			}
			sort.Strings(who)
			r.Violation("two-votes-one-term", fmt.Sprintf("%s: %q granted its vote for term %d to %q", label, k.node, k.term, who), wit())
		}
	}

	// terms never decrease: happens-before order of vote replies of one node
	byNode := map[string][]*c17Ev{}
	for _, e := range evs {
		if e.Kind == "vote" && e.Ret != 0 {
			byNode[e.To] = append(byNode[e.To], e)
		}
	}
	for node, l := range byNode {
		byRet := append([]*c17Ev{}, l...)
		sort.Slice(byRet, func(i, j int) bool { return byRet[i].Ret < byRet[j].Ret })
		prefMax := make([]int, len(byRet))
		m := -1
		for i, e := range byRet {
			if e.RespTerm > m {
				m = e.RespTerm
			}
			prefMax[i] = m
		}
		for _, b := range l {
			i := sort.Search(len(byRet), func(i int) bool { return byRet[i].Ret >= b.Seq })
			r.Hit("term_monotonic")
			if i > 0 && b.RespTerm < prefMax[i-1] {
				r.Violation("term-decreased", fmt.Sprintf("%s: %q reported term %d after having reported term %d (reply %d precedes request %d)", label, node, b.RespTerm, prefMax[i-1], byRet[i-1].Ret, b.Seq), wit())
			}
		}
	}
	// and the final term is at least every term the node ever announced
	announced := map[string]int{}
	for _, e := range evs {
		if e.Forged {
			continue
		}
		if (e.Kind == "vote" || e.Kind == "health") && e.Term > announced[e.From] {
			announced[e.From] = e.Term
		}
		if e.Kind == "vote" && e.Ret != 0 && e.RespTerm > announced[e.To] {
			announced[e.To] = e.RespTerm
		}
	}
	for _, st := range final {
		r.Hit("term_monotonic")
		if st.term < announced[st.name] {
			r.Violation("term-decreased", fmt.Sprintf("%s: %q ends with term %d after having announced term %d", label, st.name, st.term, announced[st.name]), wit())
		}
	}

	// leader only after a strict majority of delivered votes
	for k, seq := range firstHealth {
		parts := strings.SplitN(k, "|", 2)
		leader := parts[0]
		var term int
		fmt.Sscan(parts[1], &term)
		if term == 0 {
			continue
		}
		got := map[string]bool{}
		for _, e := range evs {
			if e.Kind == "vote" && e.From == leader && e.Term == term && e.Granted && e.Fate == "ok" && e.Ret != 0 && e.Ret < seq {
				got[e.To] = true
			}
		}
		r.Hit("leader_has_majority")
		if len(got)+1 < majority {
			r.Violation("leader-without-majority", fmt.Sprintf("%s: %q acted as leader of term %d with %d delivered votes plus its own; %d of %d nodes are required", label, leader, term, len(got), majority, n), wit())
		}
	}
	for _, st := range final {
		if st.leader != st.name || st.term == 0 {
			continue
		}
		got := map[string]bool{}
		for _, e := range evs {
			if e.Kind == "vote" && e.From == st.name && e.Term == st.term && e.Granted && e.Fate == "ok" && e.Ret != 0 {
				got[e.To] = true
			}
		}
		r.Hit("leader_has_majority")
		if len(got)+1 < majority {
			r.Violation("leader-without-majority", fmt.Sprintf("%s: at the end %q considers itself leader of term %d with %d delivered votes plus its own; %d of %d required", label, st.name, st.term, len(got), majority, n), wit())
		}
	}

	// adoption: a follower whose last event is an accepted health check holds that leader and term
	for _, st := range final {
		var last *c17Ev
		disturbed := false
		for _, e := range evs {
			if e.Kind == "health" && e.To == st.name && e.Ret != 0 {
				last = e
				disturbed = false
			} else if e.Kind == "vote" && (e.To == st.name || e.From == st.name) {
				disturbed = true
			}
		}
		if last == nil || disturbed || st.leader == st.name {
			continue
		}
		r.Hit("health_check_adopted")
		switch {
		case st.term < last.Term:
			r.Violation("health-not-adopted:term", fmt.Sprintf("%s: %q ends with term %d after accepting a health check of leader %q with term %d", label, st.name, st.term, last.From, last.Term), wit())
		case st.term == last.Term && st.leader != last.From:
			r.Violation("health-not-adopted:leader", fmt.Sprintf("%s: %q ends with leader %q in term %d; its last health check came from %q with the same term", label, st.name, st.leader, st.term, last.From), wit())
		}
	}
	return
}

// ---------------------------------------------------------------------------------------

// c17Rehash: placement agreement of Cluster values which reached the same membership along different histories.
func c17Rehash(r *vfkit.R, rng *rand.Rand) {
	rounds := r.Pick(200, 4000)
	for round := 0; round < rounds; round++ {
		names := c17NameSets[rng.Intn(len(c17NameSets))]
		n := 3 + rng.Intn(3)
		all := names[:n]
		mk := func(self string) *Cluster {
			c := &Cluster{thisNodeName: self, nodes: map[string]*ClusterNode{}}
			for _, p := range all {
				if p != self {
					c.nodes[p] = &ClusterNode{name: p}
				}
			}
			c.rehash(nil)
			return c
		}
		clusters := make([]*Cluster, n)
		for i := range clusters {
			clusters[i] = mk(all[i])
		}
		// final live set
		var live []string
		for _, x := range all {
			if rng.Intn(4) != 0 {
				live = append(live, x)
			}
		}
		if len(live) == 0 {
			live = []string{all[0]}
		}
		// each node gets there along its own history of memberships (same sizes, different members included)
		for _, c := range clusters {
			steps := rng.Intn(4)
			for s := 0; s < steps; s++ {
				var inter []string
				switch rng.Intn(3) {
				case 0: // same size as the final set, other members
					perm := rng.Perm(n)
					for _, i := range perm[:len(live)] {
						inter = append(inter, all[i])
					}
				case 1:
					inter = append([]string{}, all...)
				default:
					for _, x := range all {
						if rng.Intn(2) == 0 {
							inter = append(inter, x)
						}
					}
					if len(inter) == 0 {
						inter = []string{all[rng.Intn(n)]}
					}
				}
				c.rehash(inter)
			}
			fin := append([]string{}, live...)
			rng.Shuffle(len(fin), func(a, b int) { fin[a], fin[b] = fin[b], fin[a] })
			c.rehash(fin)
		}
		ref := rh.New(clusterHashReplicas, nil)
		ref.Add(live...)
		r.Hit("rehash_agreement")
		r.Eval(fmt.Sprintf("rehash:n=%d,live=%d", n, len(live)))
		wit := map[string]any{"nodes": all, "live": live}
		isLive := map[string]bool{}
		for _, x := range live {
			isLive[x] = true
		}
		for _, c := range clusters {
			if c.ring.Signature() != ref.Signature() {
				r.Violation("rehash-signature", fmt.Sprintf("node %q after rehash(%q) has ring signature %s; a ring of exactly these nodes has %s", c.thisNodeName, live, c.ring.Signature(), ref.Signature()), wit)
			}
		}
		for k := 0; k < 300; k++ {
			name := []string{"usr", "grp", "p2p", "fnd"}[rng.Intn(4)] + fmt.Sprintf("%011d", rng.Int63n(1e11))
			local := 0
			var owner string
			for _, c := range clusters {
				if !isLive[c.thisNodeName] {
					continue
				}
				if !c.isRemoteTopic(name) {
					local++
					owner = c.thisNodeName
				} else if cn := c.nodeForTopic(name); cn == nil || !isLive[cn.name] {
					r.Violation("placement-dead-node", fmt.Sprintf("live set %q: node %q routes %q to %v", live, c.thisNodeName, name, cn), wit)
				} else if cn.name != ref.Get(name) {
					r.Violation("placement-disagreement", fmt.Sprintf("live set %q: node %q routes %q to %q, the ring of these nodes gives %q", live, c.thisNodeName, name, cn.name, ref.Get(name)), wit)
				}
			}
			r.Hit("exactly_one_master")
			if local != 1 {
				r.Violation("placement-masters", fmt.Sprintf("live set %q: %d live nodes consider %q local (want exactly one; last %q)", live, local, name, owner), wit)
			}
		}
	}
	r.EvalN(int64(rounds * 300))
}

// c17Gate: traffic carrying another ring's signature is refused.
func c17Gate(r *vfkit.R, rng *rand.Rand) {
	mk := func(self string, all []string) *Cluster {
		c := &Cluster{thisNodeName: self, nodes: map[string]*ClusterNode{}}
		for _, p := range all {
			if p != self {
				c.nodes[p] = &ClusterNode{name: p, msess: map[string]struct{}{}}
			}
		}
		c.rehash(all)
		return c
	}
	for i := 0; i < r.Pick(50, 500); i++ {
		a := mk("a", []string{"a", "b", "c"})
		other := [][]string{{"a", "b"}, {"a", "c"}, {"a", "b", "c", "d"}, {"b", "c"}, {"a"}}[rng.Intn(5)]
		b := mk("b", other)
		if a.ring.Signature() == b.ring.Signature() {
			r.Violation("gate-same-signature", fmt.Sprintf("rings of [a b c] and %q have the same signature", other), nil)
			continue
		}
		// the hub has consumed whatever earlier iterations routed: a refused message must not add anything
		vfWaitCond(2*time.Second, func() bool { return len(globals.hub.routeSrv) == 0 })
		n0 := 0
		var rejected bool
		msg := &ServerComMessage{Pres: &MsgServerPres{Topic: "me", What: "on", Src: "grpX"}, RcptTo: "usrNobody"}
		a.Route(&ClusterRoute{Node: "b", Signature: b.ring.Signature(), SrvMsg: msg}, &rejected)
		r.Hit("foreign_signature_refused")
		if !rejected || len(globals.hub.routeSrv) > n0 {
			r.Violation("gate-route-accepted", fmt.Sprintf("Route carrying the signature of ring %q was accepted by a node whose ring is [a b c] (rejected=%v)", other, rejected), nil)
		}
		rejected = false
		a.TopicMaster(&ClusterReq{Node: "b", Signature: b.ring.Signature(), RcptTo: "grpGate", ReqType: ProxyReqJoin,
			CliMsg: &ClientComMessage{Sub: &MsgClientSub{Topic: "grpGate"}, Original: "grpGate", RcptTo: "grpGate"}}, &rejected)
		r.Hit("foreign_signature_refused")
		if !rejected || globals.sessionStore.Get("grpGate-b") != nil {
			r.Violation("gate-topicmaster-accepted", fmt.Sprintf("TopicMaster request carrying the signature of ring %q was accepted by a node whose ring is [a b c] (rejected=%v)", other, rejected), nil)
		}
		// an established multiplexing session does not exempt later traffic from the gate: the proxy attaches while
		// the rings agree, this node's ring changes, the proxy keeps sending with its old signature
		{
			tn := fmt.Sprintf("grpGateEst%dx%d", r.Batch(), i)
			oldSig := a.ring.Signature()
			req := func(sig string) *ClusterReq {
				return &ClusterReq{Node: "b", Signature: sig, RcptTo: tn, ReqType: ProxyReqMeta,
					CliMsg: &ClientComMessage{Get: &MsgClientGet{Topic: tn, MsgGetQuery: MsgGetQuery{What: "desc"}}, Original: tn, RcptTo: tn, AsUser: "usrNobody"},
					Sess:   &ClusterSess{Sid: "gate-sess"}}
			}
			rejected = true
			a.TopicMaster(req(oldSig), &rejected)
			ms := globals.sessionStore.Get(tn + "-b")
			if rejected || ms == nil {
				r.Inconclusive("c17 gate: in-sync request did not establish a multiplexing session")
			} else {
				a.rehash(other)
				for _, rt := range []ProxyReqType{ProxyReqMeta, ProxyReqLeave, ProxyReqMeta} {
					rq := req(oldSig)
					rq.ReqType = rt
					rejected = false
					a.TopicMaster(rq, &rejected)
					r.Hit("stale_signature_on_established_session_refused")
					if !rejected {
						r.Violation("gate-topicmaster-accepted:established-session", fmt.Sprintf("TopicMaster request (type %d) with the signature of ring [a b c] was accepted through an established multiplexing session by a node whose ring is now %q", rt, other), nil)
					}
				}
				a.rehash([]string{"a", "b", "c"})
			}
			if ms != nil {
				globals.sessionStore.Delete(ms)
			}
		}
		// and the matching signature passes
		rejected = true
		a2 := mk("b", []string{"c", "a", "b"})
		a.Route(&ClusterRoute{Node: "b", Signature: a2.ring.Signature(), SrvMsg: msg}, &rejected)
		r.Hit("same_signature_accepted")
		if rejected {
			r.Violation("gate-route-refused", "Route carrying the signature of the same membership (listed in another order) was refused", nil)
		}
	}
	r.Eval("gate:route")
	r.Eval("gate:topicmaster")
	// let the hub dispose of the routed messages
	vfWaitCond(2*time.Second, func() bool { return len(globals.hub.routeSrv) == 0 })
}

func c17Sleep(nt *c17Net, ticks float64) { time.Sleep(time.Duration(float64(nt.hb) * ticks)) }

// c17Chaos: one election run under message faults, then a fault-free phase.
func c17Chaos(r *vfkit.R, rng *rand.Rand, idx int) {
	n := 3 + rng.Intn(3)
	names := c17NameSets[rng.Intn(len(c17NameSets))]
	hb := 12 + rng.Intn(8)
	voteAfter := 2 + rng.Intn(3)
	failAfter := 2 + rng.Intn(2)
	cl := c17Start(rng, n, hb, voteAfter, failAfter, names)
	loss := []int{0, 10, 30, 60}[rng.Intn(4)]
	delay := []time.Duration{0, cl.net.hb / 2, cl.net.hb * 2, cl.net.hb * 4}[rng.Intn(4)]
	partitions := rng.Intn(3) != 0
	label := fmt.Sprintf("run %d: %d nodes %q hb=%dms vote_after=%d loss=%d%% delay<=%v partitions=%v", idx, n, cl.names, hb, voteAfter, loss, delay, partitions)
	phases := 3 + rng.Intn(4)
	for p := 0; p < phases; p++ {
		blocked := map[string]bool{}
		if partitions {
			switch rng.Intn(4) {
			case 0: // split into two groups
				group := map[string]bool{}
				for _, x := range cl.names {
					group[x] = rng.Intn(2) == 0
				}
				for _, a := range cl.names {
					for _, b := range cl.names {
						if group[a] != group[b] {
							blocked[a+">"+b] = true
						}
					}
				}
			case 1: // one node cannot be heard (asymmetric)
				x := cl.names[rng.Intn(n)]
				for _, b := range cl.names {
					blocked[x+">"+b] = true
				}
			case 2: // one node hears nobody
				x := cl.names[rng.Intn(n)]
				for _, b := range cl.names {
					blocked[b+">"+x] = true
				}
			}
		}
		cl.net.setFaults(loss, delay, blocked)
		c17Sleep(cl.net, float64(8+rng.Intn(16)))
	}
	// heal
	cl.net.setFaults(0, 0, map[string]bool{})
	c17Sleep(cl.net, float64(voteAfter*6+30))
	joined := cl.stop()
	evs := cl.net.events()
	if !joined {
		r.Inconclusive("election loops could not be joined: " + label)
		return
	}
	final := cl.states()
	leaders, maxTerm := c17Check(r, cl, evs, final, label)
	// bookkeeping: did the cluster converge in the fault-free phase (not a verdict)
	conv := 0
	for _, st := range final {
		if st.leader == st.name {
			conv++
		}
	}
	if conv == 1 {
		r.Hit("converged_after_heal")
	} else {
		r.Hit("not_converged_after_heal")
	}
	r.Hit("election_run")
	r.Eval(fmt.Sprintf("chaos:n=%d,loss=%d,delay=%d,part=%v,leaders=%d,terms=%d", n, loss, int(delay/cl.net.hb), partitions, min(leaders, 4), min(maxTerm/3, 4)))
	if idx < 2 {
		r.Sample(map[string]any{"scenario": label, "events": len(evs), "distinct_leader_terms": leaders, "max_term": maxTerm, "final": fmt.Sprint(final)})
	}
	r.EvalN(int64(len(evs)))
}

// c17Stale: forged health checks with a lower term are ignored, with a higher term adopted (leader, term, nodes, signature).
func c17Stale(r *vfkit.R, rng *rand.Rand, idx int) {
	n := 3 + rng.Intn(3)
	names := c17NameSets[rng.Intn(len(c17NameSets))]
	// vote_after is large: after the first election nobody starts another one during the short run
	cl := c17Start(rng, n, 14, 12, 2, names)
	label := fmt.Sprintf("stale run %d: %d nodes %q", idx, n, cl.names)
	// wait for a leader to emerge: every other node received its health check three times
	var leader string
	var term int
	ok := vfWaitCond(20*time.Second, func() bool {
		cnt := map[string]int{}
		for _, e := range cl.net.events() {
			if e.Kind == "health" && e.Ret != 0 {
				cnt[e.From+"|"+e.To]++
				leader, term = e.From, e.Term
			}
		}
		for _, x := range cl.names {
			if x != leader && cnt[leader+"|"+x] < 3 {
				return false
			}
		}
		return leader != ""
	})
	if !ok {
		cl.stop()
		r.Inconclusive("no leader emerged in a fault-free cluster: " + label)
		return
	}
	var followers []*c17Node
	for _, nd := range cl.nodes {
		if nd.name != leader {
			followers = append(followers, nd)
		}
	}
	victim := followers[rng.Intn(len(followers))]
	forge := func(to *c17Node, h *ClusterHealth) {
		conn, err := net.Dial("tcp", to.lis.Addr().String())
		if err != nil {
			return
		}
		cli := rpc.NewClient(conn)
		var unused bool
		cli.Call("Cluster.Health", h, &unused)
		cli.Close()
	}
	higher := rng.Intn(2) == 0
	// every third run: the victim first grants a vote in a newer term (which leaves it without a leader), then
	// hears the old leader's health check of the old term
	leaderless := idx%3 == 2
	if leaderless {
		higher = false
	}
	var imposter string
	for _, x := range cl.names {
		if x != leader && x != victim.name {
			imposter = x
		}
	}
	sub := []string{victim.name, imposter}
	subRing := rh.New(clusterHashReplicas, nil)
	subRing.Add(sub...)
	if higher {
		// real traffic is cut first so that the forged leader is the last word
		blocked := map[string]bool{}
		for _, a := range cl.names {
			blocked[a+">"+victim.name] = true
		}
		cl.net.setFaults(0, 0, blocked)
		c17Sleep(cl.net, 1)
		for i := 0; i < 3; i++ {
			forge(victim, &ClusterHealth{Leader: "!" + imposter, Term: term + 5, Signature: subRing.Signature(), Nodes: sub})
		}
	} else if leaderless {
		blocked := map[string]bool{}
		for _, a := range cl.names {
			blocked[a+">"+victim.name] = true
		}
		cl.net.setFaults(0, 0, blocked)
		c17Sleep(cl.net, 1)
		if conn, err := net.Dial("tcp", victim.lis.Addr().String()); err == nil {
			cli := rpc.NewClient(conn)
			var resp ClusterVoteResponse
			cli.Call("Cluster.Vote", &ClusterVoteRequest{Node: "!" + imposter, Term: term + 3}, &resp)
			cli.Close()
		}
		full := rh.New(clusterHashReplicas, nil)
		full.Add(cl.names...)
		for i := 0; i < 3; i++ {
			forge(victim, &ClusterHealth{Leader: "!" + leader, Term: term, Signature: full.Signature(), Nodes: cl.names})
			c17Sleep(cl.net, 0.3)
		}
	} else {
		if rng.Intn(2) == 0 {
			// the stale leader has the last word
			blocked := map[string]bool{}
			for _, a := range cl.names {
				blocked[a+">"+victim.name] = true
			}
			cl.net.setFaults(0, 0, blocked)
			c17Sleep(cl.net, 1)
		}
		for i := 0; i < 3; i++ {
			forge(victim, &ClusterHealth{Leader: "!" + imposter, Term: term - 1, Signature: subRing.Signature(), Nodes: sub})
			c17Sleep(cl.net, 0.5)
		}
		c17Sleep(cl.net, 2)
	}
	joined := cl.stop()
	if !joined {
		r.Inconclusive("election loops could not be joined: " + label)
		return
	}
	final := cl.states()
	evs := cl.net.events()
	c17Check(r, cl, evs, final, label)
	var vs c17State
	var ls c17State
	for _, st := range final {
		if st.name == victim.name {
			vs = st
		}
		if st.name == leader {
			ls = st
		}
	}
	wit := map[string]any{"final": fmt.Sprint(final), "leader": leader, "term": term, "victim": victim.name, "imposter": imposter}
	if higher {
		r.Hit("higher_term_health_adopted")
		r.Eval("forged:higher-term")
		if vs.term != term+5 || vs.leader != imposter {
			r.Violation("health-not-adopted:forged", fmt.Sprintf("%s: %q received health checks of %q with term %d (its own was %d) and ends with leader %q, term %d", label, victim.name, imposter, term+5, term, vs.leader, vs.term), wit)
		} else if vs.sig != subRing.Signature() {
			r.Violation("health-not-adopted:ring", fmt.Sprintf("%s: %q accepted three health checks listing nodes %q (signature %s) and ends with ring signature %s", label, victim.name, sub, subRing.Signature(), vs.sig), wit)
		}
	} else if leaderless {
		r.Hit("stale_health_ignored_when_leaderless")
		r.Eval("forged:stale-term-after-vote")
		if vs.term != term+3 || vs.leader != "" {
			r.Violation("stale-health-accepted:leaderless", fmt.Sprintf("%s: %q granted a vote for term %d (no leader since), then received health checks of %q with the older term %d; it ends with leader %q, term %d", label, victim.name, term+3, leader, term, vs.leader, vs.term), wit)
		}
	} else {
		r.Hit("stale_health_ignored")
		r.Eval("forged:stale-term")
		full := rh.New(clusterHashReplicas, nil)
		full.Add(cl.names...)
		_ = ls
		if vs.term != term || vs.leader != leader || vs.sig != full.Signature() {
			r.Violation("stale-health-accepted", fmt.Sprintf("%s: %q received health checks of %q with the stale term %d; it ends with leader %q, term %d, ring %s; before that it had leader %q, term %d and the ring of all nodes %s", label, victim.name, imposter, term-1, vs.leader, vs.term, vs.sig, leader, term, full.Signature()), wit)
		}
	}
	r.Hit("election_run")
}

// c17Partition: a leader which can reach no more than half of the nodes stops serving clients.
func c17Partition(r *vfkit.R, e *vfEnv, rng *rand.Rand, idx int) {
	n := 3 + rng.Intn(3)
	// every other run: an even-sized cluster whose leader keeps exactly half of the nodes (itself included)
	exactHalf := idx%2 == 0
	if exactHalf {
		n = 4
	}
	names := c17NameSets[rng.Intn(len(c17NameSets))]
	failAfter := 2 + rng.Intn(2)
	cl := c17Start(rng, n, 14, 12, failAfter, names)
	label := fmt.Sprintf("partition run %d: %d nodes %q node_fail_after=%d", idx, n, cl.names, failAfter)
	var leader string
	ok := vfWaitCond(20*time.Second, func() bool {
		cnt := map[string]int{}
		for _, ev := range cl.net.events() {
			if ev.Kind == "health" && ev.Ret != 0 {
				cnt[ev.From]++
				leader = ev.From
			}
		}
		return leader != "" && cnt[leader] >= 3*(n-1)
	})
	if !ok {
		cl.stop()
		r.Inconclusive("no leader emerged in a fault-free cluster: " + label)
		return
	}
	var ln *c17Node
	for _, nd := range cl.nodes {
		if nd.name == leader {
			ln = nd
		}
	}
	saved := globals.cluster
	globals.cluster = ln.c
	defer func() { globals.cluster = saved }()

	hi := func(tag string) int {
		c := e.dial(fmt.Sprintf("c17-%d-%s", idx, tag))
		defer c.close()
		f := c.hi(false)
		if f == nil {
			return 0
		}
		return f.code()
	}
	if code := hi("before"); code != 201 {
		r.Violation("partition:healthy-leader-refuses", fmt.Sprintf("%s: {hi} to the leader of a healthy cluster answered %d", label, code), nil)
	}
	// cut the leader off from k nodes
	reach := n - 1
	cut := 1 + rng.Intn(n-1)
	if exactHalf {
		cut = n / 2
		r.Hit("leader_with_exactly_half")
	}
	blocked := map[string]bool{}
	others := []string{}
	for _, x := range cl.names {
		if x != leader {
			others = append(others, x)
		}
	}
	rng.Shuffle(len(others), func(a, b int) { others[a], others[b] = others[b], others[a] })
	for _, x := range others[:cut] {
		blocked[leader+">"+x] = true
		blocked[x+">"+leader] = true
		reach--
	}
	cl.net.setFaults(0, 0, blocked)
	// the configured number of failed health checks, and a few more rounds
	c17Sleep(cl.net, float64(failAfter+4)*1.3)
	code := hi("cut")
	reachable := reach + 1 // with itself
	r.Hit("partitioned_leader_checked")
	r.Eval(fmt.Sprintf("partition:n=%d,reachable=%d", n, reachable))
	minority := reachable <= n/2
	if minority {
		r.Hit("minority_leader_refuses")
		if code != 502 {
			r.Violation("partitioned-leader-serves", fmt.Sprintf("%s: leader %q can reach %d of %d nodes (itself included) after %d+ failed health checks; {hi} answered %d, want 502", label, leader, reachable, n, failAfter, code), nil)
		}
	} else {
		r.Hit("majority_leader_serves")
		if code != 201 {
			r.Violation("majority-leader-refuses", fmt.Sprintf("%s: leader %q still reaches %d of %d nodes; {hi} answered %d", label, leader, reachable, n, code), nil)
		}
	}
	joined := cl.stop()
	if !joined {
		r.Inconclusive("election loops could not be joined: " + label)
		return
	}
	c17Check(r, cl, cl.net.events(), cl.states(), label)
	r.Hit("election_run")
}

func TestVfC17(t *testing.T) {
	r := vfkit.New("C17")
	defer r.Finish()
	e := vfBoot(vfConfig{})
	rng := r.Rand(171)
	// reconnecting cluster nodes identify themselves through globals.cluster
	dummy := &Cluster{thisNodeName: "vf", fingerprint: 1, nodes: map[string]*ClusterNode{}}
	dummy.rehash([]string{"vf"})
	globals.cluster = dummy
	defer func() { globals.cluster = nil }()

	c17Rehash(r, rng)
	c17Gate(r, rng)

	runs := r.Pick(16, 120)
	// chaos runs, four clusters at a time
	var wg sync.WaitGroup
	sem := make(chan struct{}, 4)
	for i := 0; i < runs; i++ {
		wg.Add(1)
		sem <- struct{}{}
		sub := rand.New(rand.NewSource(rng.Int63()))
		go func(i int) {
			defer wg.Done()
			defer func() { <-sem }()
			c17Chaos(r, sub, i)
		}(i)
	}
	wg.Wait()
	for i := 0; i < r.Pick(4, 24); i++ {
		c17Stale(r, rng, i)
	}
	for i := 0; i < r.Pick(4, 24); i++ {
		c17Partition(r, e, rng, i)
	}
}
