//go:build verif

package main

import (
	"encoding/json"
	"fmt"
	"math/rand"
	"strings"
	"testing"
	"time"

	"github.com/tinode/chat/server/auth"
	"github.com/tinode/chat/server/vfkit"
)

// ---- C13: no client input can crash the server or leave a request unanswered.

type c13Gen struct {
	rng    *rand.Rand
	uids   []string // user ids of fuzzing accounts
	topics []string // existing group topics
	files  []string
}

func (g *c13Gen) pick(xs ...any) any { return xs[g.rng.Intn(len(xs))] }

var c13IllTopics = []string{"usr", "p2p", "grp", "chn", "fnd", "x", "ab", "p2pAAAAAAAAAAAAAAAAAAAAAA", "p2p!!!!!!!!!!!!!!!!!!!!!!", "usr!!!", "grp\x00zero", "usrAAAAAAAAAAA", "grpNOSUCHTOPICXX",
	"chnNOSUCHTOPICXX", "fndAAAAAAAAAAA", "me me", "sys!", "\u0000", "üñí", "p2pusrusrusrusrusrusrusrus", "usr" + strings.Repeat("A", 300)}

// c13BadPrefix: names which cannot be topic names at all (unknown prefix or nothing after it).
func c13BadPrefix(t string) bool {
	if t == "sys" || t == "me" || t == "fnd" {
		return false
	}
	if len(t) <= 3 {
		return true
	}
	switch t[:3] {
	case "usr", "grp", "p2p", "fnd", "chn", "new", "nch":
		return false
	}
	return true
}

func (g *c13Gen) topic() (string, bool) {
	switch g.rng.Intn(10) {
	case 0, 1, 2:
		t := c13IllTopics[g.rng.Intn(len(c13IllTopics))]
		return t, c13BadPrefix(t)
	case 3:
		return "me", false
	case 4:
		return "fnd", false
	case 5:
		return "sys", false
	case 6:
		if len(g.topics) > 0 {
			return g.topics[g.rng.Intn(len(g.topics))], false
		}
		return "me", false
	case 7:
		return g.uids[g.rng.Intn(len(g.uids))], false
	case 8:
		return fmt.Sprintf("new%d", g.rng.Intn(1000)), false
	default:
		return fmt.Sprintf("nch%d", g.rng.Intn(1000)), false
	}
}

func (g *c13Gen) str() any {
	return g.pick("", "x", "N", "JRWPASDO", "+X-Y", strings.Repeat("z", 300), "usr", "\u0000\u0001", "日本語テキスト", "␡", "null", 0, -1, 1.5, nil, true,
		[]any{}, map[string]any{}, []any{"a", 1, nil}, map[string]any{"a": map[string]any{"b": []any{1, 2}}}, strings.Repeat("A", 5000))
}

func (g *c13Gen) num() any {
	return g.pick(0, 1, -1, 2147483647, -2147483648, 4294967296, 1e18, 1.5, "7", nil, 3, 10, 1000000)
}

func (g *c13Gen) mode() any {
	return g.pick("JRWPS", "N", "", "JRWPASDO", "+O", "-J", "XYZ", "jrwps", 5, nil, "+", "-", "JRWPA", strings.Repeat("J", 100))
}

func (g *c13Gen) maybe(m map[string]any, k string, v func() any) {
	if g.rng.Intn(2) == 0 {
		m[k] = v()
	}
}

func (g *c13Gen) content() any {
	switch g.rng.Intn(8) {
	case 0:
		return "plain text"
	case 1:
		return map[string]any{"txt": "Привет, мир", "fmt": []any{map[string]any{"at": g.num(), "len": g.num(), "tp": g.pick("ST", "EM", "LN", "", 5)}}}
	case 2:
		return map[string]any{"txt": g.str(), "fmt": g.str(), "ent": g.str()}
	case 3:
		return map[string]any{"txt": "a b c", "fmt": []any{map[string]any{"at": 0, "len": 100, "key": g.num()}}, "ent": []any{map[string]any{"tp": g.pick("IM", "EX", "LN", "MN", "HT", "BN", "FM", "RW", "AU", "VC", "VD"), "data": map[string]any{"val": g.str(), "ref": g.str(), "mime": g.str(), "name": g.str(), "width": g.num(), "height": g.num(), "size": g.num()}}}}
	case 4:
		return nil
	case 5:
		return strings.Repeat("\U0001F600👨‍👩‍👧‍👦", 50)
	case 6:
		return []any{1, "x", map[string]any{}}
	default:
		return map[string]any{"txt": " ", "fmt": []any{map[string]any{"at": -1, "len": 1, "tp": "BR"}, map[string]any{"at": 0, "len": 0, "key": 0}}, "ent": []any{nil, 5, map[string]any{"tp": "BN", "data": nil}}}
	}
}

func (g *c13Gen) desc() any {
	if g.rng.Intn(6) == 0 {
		return g.str()
	}
	d := map[string]any{}
	g.maybe(d, "public", g.str)
	g.maybe(d, "private", g.str)
	g.maybe(d, "trusted", g.str)
	if g.rng.Intn(3) == 0 {
		d["defacs"] = g.pick(map[string]any{"auth": g.mode(), "anon": g.mode()}, "JRW", nil, map[string]any{"auth": 5})
	}
	return d
}

func (g *c13Gen) getOpts() any {
	o := map[string]any{}
	g.maybe(o, "since", g.num)
	g.maybe(o, "before", g.num)
	g.maybe(o, "limit", g.num)
	g.maybe(o, "user", g.str)
	g.maybe(o, "topic", g.str)
	if g.rng.Intn(4) == 0 {
		o["ims"] = g.pick("2020-01-01T00:00:00Z", "junk", 5, nil)
	}
	return o
}

func (g *c13Gen) cred() any {
	return g.pick([]any{map[string]any{"meth": g.pick("email", "tel", "xxx", "", 5), "val": g.pick("a@example.com", "+17025550001", "junk", "", nil, 5), "resp": g.str()}}, g.str(), []any{nil}, []any{map[string]any{}})
}

// message builds one client message; returns kind, body, extra, whether it must be answered with an error.
func (g *c13Gen) message(authed bool) (string, map[string]any, map[string]any, bool) {
	kinds := []string{"hi", "acc", "login", "sub", "leave", "pub", "get", "set", "del", "note", "sub", "pub", "get", "set", "del"}
	kind := kinds[g.rng.Intn(len(kinds))]
	b := map[string]any{}
	mustErr := false
	var extra map[string]any
	topic, ill := g.topic()
	switch kind {
	case "hi":
		b["ver"] = g.pick("0.22", "0.22", "", "abc", "0.15", 5, nil, "999.999.999")
		g.maybe(b, "ua", g.str)
		g.maybe(b, "dev", g.str)
		g.maybe(b, "lang", func() any { return g.pick("en", "en_US", "xx-YY-zz", "", 5, strings.Repeat("q", 40)) })
		g.maybe(b, "platf", g.str)
		g.maybe(b, "bkg", func() any { return g.pick(true, false, "yes") })
	case "acc":
		b["user"] = g.pick("new", "newABC", g.uids[g.rng.Intn(len(g.uids))], "", "usr", 5, nil)
		b["scheme"] = g.pick("basic", "anon", "token", "code", "nosuch", "", 5, "rest")
		b["secret"] = g.pick("YTpi", "", "!!!notbase64", "dXNlcjEyMzpwYXNzd29yZDEyMw==", 5, nil)
		g.maybe(b, "login", func() any { return g.pick(true, false) })
		g.maybe(b, "tags", func() any { return g.pick([]any{"abc", "email:x@y.z", "  ", 5}, g.str()) })
		g.maybe(b, "desc", g.desc)
		g.maybe(b, "cred", g.cred)
		g.maybe(b, "tmpscheme", func() any { return g.pick("code", "token", "nosuch", "basic", "", 5) })
		g.maybe(b, "tmpsecret", func() any { return g.pick("MTIzNDU2OmVtYWlsOnhAeS56", "", "!!", nil) })
		g.maybe(b, "status", func() any { return g.pick("ok", "susp", "del", "zzz", 5) })
		g.maybe(b, "authlevel", func() any { return g.pick("auth", "root", "anon", "x") })
	case "login":
		b["scheme"] = g.pick("basic", "token", "reset", "nosuch", "", "code", "anon", 5)
		b["secret"] = g.pick("YTpi", "", "!!!", "YmFzaWM6ZW1haWw6eEB5Lno=", "OjpgOjo=", nil, 5)
		g.maybe(b, "cred", g.cred)
	case "sub":
		b["topic"] = topic
		mustErr = ill
		if g.rng.Intn(2) == 0 {
			set := map[string]any{}
			g.maybe(set, "desc", g.desc)
			if g.rng.Intn(2) == 0 {
				set["sub"] = g.pick(map[string]any{"user": g.pick(g.uids[0], "usr", "", 5), "mode": g.mode()}, map[string]any{"mode": g.mode()}, "x", nil)
			}
			g.maybe(set, "tags", func() any { return g.pick([]any{"one", "two"}, "x", []any{5}) })
			g.maybe(set, "cred", g.cred)
			b["set"] = set
		}
		if g.rng.Intn(2) == 0 {
			get := map[string]any{"what": g.pick("desc", "sub", "data", "del", "tags", "cred", "desc sub data del tags cred", "", "junk", 5)}
			g.maybe(get, "desc", g.getOpts)
			g.maybe(get, "sub", g.getOpts)
			g.maybe(get, "data", g.getOpts)
			g.maybe(get, "del", g.getOpts)
			b["get"] = get
		}
	case "leave":
		b["topic"] = topic
		g.maybe(b, "unsub", func() any { return g.pick(true, false) })
	case "pub":
		b["topic"] = topic
		b["content"] = g.content()
		g.maybe(b, "noecho", func() any { return g.pick(true, false) })
		if g.rng.Intn(2) == 0 {
			h := map[string]any{}
			g.maybe(h, "mime", func() any { return g.pick("text/x-drafty", "text/plain", 5, nil) })
			g.maybe(h, "webrtc", func() any { return g.pick("started", "accepted", "junk", 5) })
			g.maybe(h, "replace", func() any { return g.pick(":1", ":x", "1", 5, ":999999") })
			g.maybe(h, "sender", g.str)
			g.maybe(h, "forwarded", g.str)
			g.maybe(h, "aonly", g.str)
			b["head"] = h
		}
		if g.rng.Intn(4) == 0 {
			extra = map[string]any{"attachments": g.pick([]any{"/v0/file/s/AAAAAAAAAAA", "junk", ""}, []any{"http://example.com/x.jpg"}, []any{5}, "x")}
		}
	case "get":
		b["topic"] = topic
		mustErr = ill
		b["what"] = g.pick("desc", "sub", "data", "del", "tags", "cred", "desc sub", "sub data", "desc tags", "desc sub data del tags cred", "", "junk", 5)
		g.maybe(b, "desc", g.getOpts)
		g.maybe(b, "sub", g.getOpts)
		g.maybe(b, "data", g.getOpts)
		g.maybe(b, "del", g.getOpts)
	case "set":
		b["topic"] = topic
		mustErr = ill
		g.maybe(b, "desc", g.desc)
		if g.rng.Intn(2) == 0 {
			b["sub"] = g.pick(map[string]any{"user": g.pick(g.uids[0], g.uids[len(g.uids)-1], "usr", "", 5), "mode": g.mode()}, map[string]any{"mode": g.mode()}, "x")
		}
		g.maybe(b, "tags", func() any { return g.pick([]any{"one", "two", "tel:+1"}, "x", []any{5}, []any{}) })
		g.maybe(b, "cred", func() any {
			return g.pick(map[string]any{"meth": g.pick("email", "tel", "x"), "val": g.pick("q@example.com", "junk"), "resp": g.pick("123456", "", 5)}, "x")
		})
	case "del":
		b["topic"] = topic
		what := g.pick("msg", "topic", "sub", "user", "cred", "junk", "", 5)
		b["what"] = what
		mustErr = ill && what != "user"
		g.maybe(b, "delseq", func() any {
			return g.pick([]any{map[string]any{"low": g.num(), "hi": g.num()}}, []any{}, "x", []any{nil}, []any{map[string]any{"low": 1}, map[string]any{"low": 1, "hi": 1000000}})
		})
		g.maybe(b, "user", func() any { return g.pick(g.uids[0], g.uids[len(g.uids)-1], "usr", "", 5) })
		g.maybe(b, "cred", func() any {
			return g.pick(map[string]any{"meth": "email", "val": "q@example.com"}, "x", map[string]any{})
		})
		g.maybe(b, "hard", func() any { return g.pick(true, false) })
	case "note":
		b["topic"] = topic
		b["what"] = g.pick("read", "recv", "kp", "kpa", "call", "data", "junk", "", 5)
		g.maybe(b, "seq", g.num)
		g.maybe(b, "unread", g.num)
		g.maybe(b, "event", func() any {
			return g.pick("ringing", "accept", "hang-up", "offer", "answer", "ice-candidate", "junk", 5)
		})
		g.maybe(b, "payload", g.str)
	}
	if g.rng.Intn(12) == 0 {
		if extra == nil {
			extra = map[string]any{}
		}
		extra["obo"] = g.pick(g.uids[0], "usr", "", 5, "usrAAAAAAAAAAA")
		g.maybe(extra, "authlevel", func() any { return g.pick("root", "auth", "x") })
		mustErr = false
	}
	if !authed {
		mustErr = false
	}
	return kind, b, extra, mustErr
}

var c13Raw = []string{"", " ", "{", "}", "[]", "null", "1", "\"x\"", "{\"hi\":", "{\"hi\":{}}", "{\"hi\":null}", "{\"sub\":5}", "{\"pub\":[]}", "{\"get\":\"x\"}", "{\"x\":{}}",
	"{\"hi\":{\"ver\":\"0.22\"},\"login\":{}}", "\x00\x01\x02", "\xff\xfe", "{\"pub\":{\"id\":\"1\",\"topic\":\"me\",\"content\":" + strings.Repeat("[", 3000) + strings.Repeat("]", 3000) + "}}",
	"{\"extra\":{\"obo\":\"usrX\"}}", "{\"sub\":{\"id\":\"\",\"topic\":\"\"}}", "{\"del\":{\"id\":\"z\",\"what\":\"user\",\"user\":\"\"}}", "{\"note\":{}}", "{\"acc\":{\"id\":\"a1\"}}",
	"{\"login\":{\"id\":\"l1\"}}", "{\"leave\":{\"id\":\"v1\"}}", "{\"set\":{\"id\":\"s1\",\"topic\":\"me\"}}", "{\"hi\":{\"id\":\"h\",\"ver\":\"0.22\"}} trailing"}

type c13Sent struct {
	client  *vfClient
	id      string
	kind    string
	raw     string
	mustErr bool
	// idless: the reply may legitimately carry no id: the JSON does not decode into a client message
	// (the id cannot be known) or the request is refused before its handler runs (extra.obo from non-root)
	idless bool
}

func TestVfC13(t *testing.T) {
	r := vfkit.New("C13")
	defer r.Finish()
	// configuration matrix: optional subsystems present or absent
	b := r.Batch()
	cfg := vfConfig{Media: b&1 != 0, EmailVal: b&2 != 0, Push: b&4 != 0, Calls: b&8 != 0, MaxMsgSize: 1 << 17}
	if b%16 == 5 {
		cfg.Calls = true
	}
	e := vfBoot(cfg)
	vfInstallRecorder(e)
	r.Info("config", fmt.Sprintf("media=%v email_validator=%v push=%v calls=%v", cfg.Media, cfg.EmailVal, cfg.Push, cfg.Calls))
	rng := r.Rand(1)
	w := vfNewWorld(e, r, rng)
	by := w.user("bystander", auth.LevelAuth)
	cby := w.conn(by, false)
	cby.sub("me", nil)
	g := &c13Gen{rng: rng}
	var fuzzers []*vfUser
	for i := 0; i < 3; i++ {
		lvl := auth.LevelAuth
		if i == 2 {
			lvl = auth.LevelRoot
		}
		u := w.user(fmt.Sprintf("f%d", i), lvl)
		fuzzers = append(fuzzers, u)
		g.uids = append(g.uids, u.uid.UserId())
	}
	// an existing group to aim at
	c0 := w.conn(fuzzers[0], false)
	if name, f := c0.newGroup(rng.Intn(2) == 0, map[string]any{"public": "fuzz"}); f != nil && f.code() == 200 {
		g.topics = append(g.topics, name)
		c0.pub(name, "seed message", false, nil)
	}
	e.vfQuiesce()

	ncmd := r.Pick(600, 3000)
	var sent []c13Sent
	clients := []*vfClient{c0}
	authed := map[*vfClient]bool{c0: true}
	bystanderOK := func(at int) bool {
		ans := cby.get("me", "desc", nil)
		r.Hit("bystander_roundtrip")
		if len(ans.Meta) == 0 && ans.Ctrl == nil {
			r.Violation("bystander-not-served", fmt.Sprintf("a bystander session was not answered after %d fuzz commands", at), map[string]any{"last": lastRaw(sent, 10)})
			return false
		}
		return true
	}
	// directed: well-formed requests which are refused on an attached topic, each followed by ordinary requests
	// through the same session (a refusal must not leave the session unable to serve the next request)
	{
		cd := e.dial("directed")
		cd.hi(false)
		if f := cd.loginToken(fuzzers[1].tok); f != nil && f.code() == 200 {
			dsend := func(kind string, body map[string]any) {
				id := cd.nextID()
				body["id"] = id
				msg := map[string]any{kind: body}
				raw := vfJSON(msg)
				cd.mu.Lock()
				cd.sends = append(cd.sends, vfSend{T: e.now(), Id: id, Msg: msg, Raw: raw})
				cd.mu.Unlock()
				cd.sendRaw([]byte(raw))
				sent = append(sent, c13Sent{client: cd, id: id, kind: kind, raw: raw})
			}
			for _, tn := range []string{"me", "fnd"} {
				dsend("sub", map[string]any{"topic": tn})
				dsend("leave", map[string]any{"topic": tn, "unsub": true})
				dsend("leave", map[string]any{"topic": tn})
				dsend("sub", map[string]any{"topic": tn})
				dsend("get", map[string]any{"topic": tn, "what": "desc"})
			}
			if len(g.topics) > 0 {
				// the owner may not unsubscribe from the own group
				own := e.dial("directed-owner")
				own.hi(false)
				own.loginToken(fuzzers[0].tok)
				cdSave := cd
				cd = own
				dsend("sub", map[string]any{"topic": g.topics[0]})
				dsend("leave", map[string]any{"topic": g.topics[0], "unsub": true})
				dsend("leave", map[string]any{"topic": g.topics[0]})
				dsend("sub", map[string]any{"topic": g.topics[0]})
				cd = cdSave
			}
			// the search topic: set a query, clear it (the DEL character), set another one, search
			dsend("set", map[string]any{"topic": "fnd", "desc": map[string]any{"public": "alice"}})
			dsend("set", map[string]any{"topic": "fnd", "desc": map[string]any{"public": "\u2421"}})
			dsend("set", map[string]any{"topic": "fnd", "desc": map[string]any{"public": "bob"}})
			dsend("get", map[string]any{"topic": "fnd", "what": "sub"})
			dsend("set", map[string]any{"topic": "fnd", "desc": map[string]any{"private": "carol"}})
			dsend("set", map[string]any{"topic": "fnd", "desc": map[string]any{"public": "dave"}})
			r.Hit("refused_then_served_same_session")
			e.vfQuiesce()
		}
		// a root session on 'sys': attach, give up J, attach again without naming a mode
		{
			cr := e.dial("directed-root")
			cr.hi(false)
			if f := cr.loginToken(fuzzers[2].tok); f != nil && f.code() == 200 {
				cdSave := cd
				_ = cdSave
				rsend := func(kind string, body map[string]any) {
					id := cr.nextID()
					body["id"] = id
					msg := map[string]any{kind: body}
					raw := vfJSON(msg)
					cr.mu.Lock()
					cr.sends = append(cr.sends, vfSend{T: e.now(), Id: id, Msg: msg, Raw: raw})
					cr.mu.Unlock()
					cr.sendRaw([]byte(raw))
					sent = append(sent, c13Sent{client: cr, id: id, kind: kind, raw: raw})
				}
				rsend("sub", map[string]any{"topic": "sys"})
				rsend("set", map[string]any{"topic": "sys", "sub": map[string]any{"mode": "N"}})
				rsend("leave", map[string]any{"topic": "sys"})
				rsend("sub", map[string]any{"topic": "sys"})
				rsend("set", map[string]any{"topic": "sys", "sub": map[string]any{"mode": "RWPD"}})
				rsend("sub", map[string]any{"topic": "sys"})
				rsend("get", map[string]any{"topic": "sys", "what": "desc sub"})
				r.Hit("root_on_sys_rejoins")
				e.vfQuiesce()
			}
		}
		// a handshake refused for its version leaves the connection without a handshake: whatever follows is out
		// of sequence and must be answered with an error
		cx := e.dial("directed-oldver")
		xsend := func(kind string, body map[string]any) {
			id := cx.nextID()
			body["id"] = id
			msg := map[string]any{kind: body}
			raw := vfJSON(msg)
			cx.mu.Lock()
			cx.sends = append(cx.sends, vfSend{T: e.now(), Id: id, Msg: msg, Raw: raw})
			cx.mu.Unlock()
			cx.sendRaw([]byte(raw))
			sent = append(sent, c13Sent{client: cx, id: id, kind: kind, raw: raw, mustErr: true})
		}
		xsend("hi", map[string]any{"ver": "0.15", "ua": "old"})
		xsend("login", map[string]any{"scheme": "token", "secret": fuzzers[1].tok})
		xsend("hi", map[string]any{"ver": "0.15", "ua": "old"})
		xsend("sub", map[string]any{"topic": "me"})
		xsend("acc", map[string]any{"user": "new", "scheme": "basic", "secret": "b2xkdmVyOm9sZHZlcnBhc3M=", "login": true})
		r.Hit("out_of_sequence_after_refused_handshake")
		e.vfQuiesce()
	}
	for i := 0; i < ncmd; i++ {
		// (re)open clients in various states
		if len(clients) < 4 && rng.Intn(10) == 0 || len(clients) == 0 {
			u := fuzzers[rng.Intn(len(fuzzers))]
			switch rng.Intn(3) {
			case 0:
				c := e.dial(fmt.Sprintf("raw%d", i))
				clients = append(clients, c)
			case 1:
				c := e.dial(fmt.Sprintf("hi%d", i))
				c.hi(false)
				clients = append(clients, c)
			default:
				// the account may have been deleted by an earlier fuzz command: a failed login is not an error here
				c := e.dial(fmt.Sprintf("%s-%d", u.name, i))
				c.hi(rng.Intn(4) == 0)
				if f := c.loginToken(u.tok); f != nil && f.code() == 200 {
					authed[c] = true
				}
				clients = append(clients, c)
			}
		}
		c := clients[rng.Intn(len(clients))]
		if c.isClosed() {
			for k, x := range clients {
				if x == c {
					clients = append(clients[:k], clients[k+1:]...)
					break
				}
			}
			continue
		}
		if rng.Intn(10) == 0 {
			raw := c13Raw[rng.Intn(len(c13Raw))]
			if rng.Intn(3) == 0 {
				bts := make([]byte, rng.Intn(40))
				rng.Read(bts)
				raw = string(bts)
			}
			c.sendRaw([]byte(raw))
			r.Hit("raw_input")
		} else {
			kind, body, extra, mustErr := g.message(authed[c])
			id := ""
			if rng.Intn(10) != 0 && kind != "note" {
				id = c.nextID()
				body["id"] = id
			} else if kind != "note" {
				body["id"] = g.pick("", nil, 5)
				if rng.Intn(2) == 0 {
					delete(body, "id")
				}
			}
			msg := map[string]any{kind: body}
			if extra != nil {
				msg["extra"] = extra
			}
			raw := vfJSON(msg)
			c.mu.Lock()
			c.sends = append(c.sends, vfSend{T: e.now(), Id: id, Msg: msg, Raw: raw})
			c.mu.Unlock()
			c.sendRaw([]byte(raw))
			if id != "" {
				var probe ClientComMessage
				idless := json.Unmarshal([]byte(raw), &probe) != nil
				if ex, ok := msg["extra"].(map[string]any); ok {
					if o, _ := ex["obo"].(string); o != "" {
						idless = true
					}
				}
				sent = append(sent, c13Sent{client: c, id: id, kind: kind, raw: raw, mustErr: mustErr && !idless, idless: idless})
			}
			r.Hit("structured_input")
			r.Eval(kind + "/" + vfkit.Hash(shapeOf(body)))
		}
		if rng.Intn(4) == 0 {
			time.Sleep(time.Duration(rng.Intn(300)) * time.Microsecond)
		}
		if i%50 == 49 {
			e.vfQuiesce()
			if !bystanderOK(i) {
				return
			}
			r.Flush(false)
		}
	}
	if !e.vfQuiesce() {
		r.Inconclusive("c13: no quiescence at the end")
	}
	bystanderOK(ncmd)
	// every request with an id is answered by at least one frame carrying that id
	idlessWanted := map[*vfClient]int{}
	defer func() {
		for c, want := range idlessWanted {
			got := 0
			for _, f := range c.all() {
				if f.Kind == "ctrl" && f.str("id") == "" && f.code() >= 400 {
					got++
				}
			}
			r.Hit("undecodable_request_refused")
			if got < want && !c.isClosed() {
				r.Violation("unanswered:undecodable", fmt.Sprintf("client %s sent %d requests which cannot be decoded / are refused before dispatch but received only %d id-less error replies", c.name, want, got), nil)
			}
		}
	}()
	for _, s := range sent {
		var reply *vfFrame
		for _, f := range s.client.all() {
			if f.B != nil && f.str("id") == s.id {
				reply = f
				break
			}
		}
		r.Hit("request_answered")
		if reply == nil && s.idless {
			// must be answered by an id-less error: each such request and each raw garbage frame produces one
			idlessWanted[s.client]++
			continue
		}
		if reply == nil {
			if s.client.isClosed() {
				continue // the connection was closed by the server or by a later command (e.g. account deletion)
			}
			r.Violation("unanswered:"+s.kind+":"+c13Shape(s.raw), fmt.Sprintf("request %s got no reply", truncate(s.raw, 300)), map[string]any{"request": truncate(s.raw, 2000)})
			continue
		}
		if s.mustErr {
			r.Hit("ill_formed_topic_refused")
			if reply.Kind != "ctrl" || reply.code() < 400 {
				r.Violation("ill-formed-not-refused:"+s.kind, fmt.Sprintf("request addressed to an ill-formed or non-existent topic was answered %s", truncate(reply.Raw, 200)), map[string]any{"request": truncate(s.raw, 2000)})
			}
		}
	}
	r.Sample(map[string]any{"config": r.Batch(), "last_commands": lastRaw(sent, 3)})
}

func shapeOf(v any) any {
	switch x := v.(type) {
	case map[string]any:
		out := map[string]any{}
		for k, e := range x {
			if k == "id" {
				continue
			}
			out[k] = shapeOf(e)
		}
		return out
	case []any:
		return "[]"
	case string:
		if len(x) > 3 {
			return x[:3]
		}
		return x
	case nil:
		return nil
	default:
		return fmt.Sprintf("%T", v)
	}
}

// c13Shape: short signature of a request for the violation sig: kind + sorted top-level field names + what.
func c13Shape(raw string) string {
	var m map[string]map[string]any
	if json.Unmarshal([]byte(raw), &m) != nil {
		return "?"
	}
	for _, body := range m {
		what, _ := body["what"].(string)
		topic, _ := body["topic"].(string)
		if len(topic) > 3 {
			topic = topic[:3]
		}
		return "what=" + what + ":topic=" + topic
	}
	return "?"
}

func lastRaw(sent []c13Sent, n int) []string {
	var out []string
	for i := len(sent) - n; i < len(sent); i++ {
		if i >= 0 {
			out = append(out, truncate(sent[i].raw, 400))
		}
	}
	return out
}

func truncate(s string, n int) string {
	if len(s) > n {
		return s[:n] + "..."
	}
	return s
}
