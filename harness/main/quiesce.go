//go:build verif

package main

import (
	"fmt"
	"runtime"
	"strings"
	"sync/atomic"
	"time"

	"github.com/tinode/chat/server/db/vfmem"
)

// Logical quiescence (DESIGN 1.5): all server channels empty, no store call in flight,
// every goroutine other than the caller parked in a wait state, outgoing frame counter
// equal to frames received by clients (or stable), on consecutive samples.

type vfQuiesceStats struct {
	Calls, Samples, Timeouts int64
}

var vfQStats vfQuiesceStats

// vfQWhy describes why the last failed quiescence wait did not succeed.
var vfQWhy string

var vfChanWhy string

func vfChannelsEmpty() bool {
	h := globals.hub
	if h == nil {
		return true
	}
	if len(h.routeCli)+len(h.routeSrv)+len(h.join)+len(h.unreg)+len(h.meta)+len(h.userStatus) != 0 {
		vfChanWhy = "hub channel"
		return false
	}
	if len(globals.usersUpdate) != 0 {
		vfChanWhy = "usersUpdate"
		return false
	}
	ok := true
	h.topics.Range(func(_, v any) bool {
		t := v.(*Topic)
		if len(t.clientMsg)+len(t.serverMsg)+len(t.reg)+len(t.unreg)+len(t.meta)+len(t.supd)+len(t.exit) != 0 {
			vfChanWhy = fmt.Sprintf("topic %s clientMsg=%d serverMsg=%d reg=%d unreg=%d meta=%d supd=%d exit=%d", t.name, len(t.clientMsg), len(t.serverMsg), len(t.reg), len(t.unreg), len(t.meta), len(t.supd), len(t.exit))
			ok = false
			return false
		}
		return true
	})
	if !ok {
		return false
	}
	ss := globals.sessionStore
	ss.lock.Lock()
	for _, s := range ss.sessCache {
		if len(s.send)+len(s.stop)+len(s.detach) != 0 {
			vfChanWhy = fmt.Sprintf("session %s (ua %s) send=%d stop=%d detach=%d terminating=%d", s.sid, s.userAgent, len(s.send), len(s.stop), len(s.detach), atomic.LoadInt32(&s.terminating))
			ok = false
			break
		}
	}
	ss.lock.Unlock()
	return ok
}

var vfStackBuf = make([]byte, 4<<20)

// vfGoroutinesIdle parses a full goroutine dump; returns true if every goroutine but the
// current one is parked. busy returns a short description of the first busy goroutine.
func vfGoroutinesIdle() (bool, string) {
	n := runtime.Stack(vfStackBuf, true)
	dump := string(vfStackBuf[:n])
	first := true
	for _, g := range strings.Split(dump, "\n\n") {
		if first {
			first = false // current goroutine
			continue
		}
		nl := strings.IndexByte(g, '\n')
		hdr := g
		if nl >= 0 {
			hdr = g[:nl]
		}
		lb := strings.IndexByte(hdr, '[')
		rb := strings.LastIndexByte(hdr, ']')
		if lb < 0 || rb < lb {
			continue
		}
		state := hdr[lb+1 : rb]
		if i := strings.IndexByte(state, ','); i >= 0 {
			state = state[:i]
		}
		switch state {
		case "select", "chan receive", "IO wait", "semacquire", "sync.Cond.Wait", "select (no cases)",
			"chan receive (nil chan)", "GC worker (idle)", "finalizer wait", "GC sweep wait", "GC scavenge wait",
			"force gc (idle)", "sync.WaitGroup.Wait", "sync.Mutex.Lock", "sync.RWMutex.RLock", "sync.RWMutex.Lock",
			"chan send", "debug call", "trace reader (blocked)", "cleanup wait":
			// parked. "chan send" parked forever is a C14 matter; it is not progress.
			continue
		case "sleep":
			// harness helper goroutines sleeping (slow readers) are idle; server code sleeping
			// inside the delay plan is busy.
			if strings.Contains(g, "vfmem") || strings.Contains(g, "vfDelay") {
				return false, "sleep in store delay"
			}
			continue
		case "syscall":
			// signal.loop / os/signal are permanently in syscall.
			if strings.Contains(g, "os/signal") || strings.Contains(g, "signal_recv") {
				continue
			}
			return false, "syscall"
		default:
			// running, runnable
			return false, state + ": " + firstFunc(g)
		}
	}
	return true, ""
}

func firstFunc(g string) string {
	lines := strings.Split(g, "\n")
	if len(lines) > 1 {
		return lines[1]
	}
	return ""
}

// vfQuiesce waits for logical quiescence. Returns false if the watchdog expired
// (inconclusive, never a violation).
func (e *vfEnv) vfQuiesce() bool {
	return e.vfQuiesceD(15 * time.Second)
}

func (e *vfEnv) vfQuiesceD(d time.Duration) bool {
	atomic.AddInt64(&vfQStats.Calls, 1)
	deadline := time.Now().Add(d)
	good := 0
	stable := 0
	var lastIn, lastOut int64 = -1, -1
	for {
		atomic.AddInt64(&vfQStats.Samples, 1)
		why := ""
		ok := true
		switch {
		case vfmem.A.InFlight() != 0:
			ok, why = false, "store call in flight"
		case !vfChannelsEmpty():
			ok, why = false, "server channel not empty: "+vfChanWhy
		case e.push != nil && len(e.push.in)+len(e.push.ch) != 0:
			ok, why = false, "push queue not empty"
		}
		if ok {
			var busy string
			ok, busy = vfGoroutinesIdle()
			if !ok {
				why = "goroutine busy: " + busy
			}
		}
		in, out := atomic.LoadInt64(&e.framesIn), atomic.LoadInt64(&e.statsOut)
		if ok {
			if in == lastIn && out == lastOut {
				stable++
			} else {
				stable = 0
			}
			if in >= out {
				good++
			} else {
				good = 0
			}
			if good >= 3 && stable >= 2 {
				return true
			}
			if stable >= 25 {
				// counters differ (frames written to closed or non-reading clients) but nothing moves.
				return true
			}
		} else {
			good, stable = 0, 0
		}
		lastIn, lastOut = in, out
		if time.Now().After(deadline) {
			atomic.AddInt64(&vfQStats.Timeouts, 1)
			if why == "" {
				why = fmt.Sprintf("frame counters keep moving or differ: in=%d out=%d", in, out)
			}
			vfQWhy = why
			return false
		}
		if good > 0 || stable > 0 {
			time.Sleep(300 * time.Microsecond)
		} else {
			time.Sleep(time.Millisecond)
		}
	}
}

// vfWaitCond polls cond under a watchdog; used for timer-driven events (idle unload).
func vfWaitCond(d time.Duration, cond func() bool) bool {
	deadline := time.Now().Add(d)
	for {
		if cond() {
			return true
		}
		if time.Now().After(deadline) {
			return false
		}
		time.Sleep(2 * time.Millisecond)
	}
}

// vfTopicLoaded reports whether the hub currently has the topic.
func vfTopicLoaded(name string) bool {
	return globals.hub.topicGet(name) != nil
}

// vfWaitUnloaded waits until the hub has dropped all given topics (idle timeout).
func (e *vfEnv) vfWaitUnloaded(names ...string) bool {
	return vfWaitCond(20*time.Second, func() bool {
		for _, n := range names {
			if vfTopicLoaded(n) {
				return false
			}
		}
		return true
	})
}
