//go:build verif

// Package vfkit is shared by all verification harness test files: run parameters,
// result collection (clause hit counters, distinct cases, samples, violations).
package vfkit

import (
	"crypto/sha1"
	"encoding/hex"
	"encoding/json"
	"fmt"
	"math/rand"
	"os"
	"path/filepath"
	"sort"
	"strconv"
	"sync"
	"time"
)

type Violation struct {
	Sig     string `json:"sig"`
	Msg     string `json:"msg"`
	Witness any    `json:"witness,omitempty"`
}

type Result struct {
	Property     string           `json:"property"`
	Batch        int              `json:"batch"`
	Seed         int64            `json:"seed"`
	Tier         string           `json:"tier"`
	Evaluations  int64            `json:"evaluations"`
	Cases        []string         `json:"cases"`
	Clauses      map[string]int64 `json:"clauses"`
	Samples      []any            `json:"samples"`
	Violations   []Violation      `json:"violations"`
	Inconclusive []string         `json:"inconclusive"`
	Info         map[string]any   `json:"info"`
	Exhaustive   bool             `json:"exhaustive"`
	WallS        float64          `json:"wall_s"`
	Done         bool             `json:"done"`
}

type R struct {
	mu      sync.Mutex
	res     Result
	cases   map[string]bool
	NBatch  int
	OutDir  string
	start   time.Time
	Replay  string
	maxViol int
	// reported counts the calls of Violation, recorded or not
	reported int
}

func envInt(k string, def int64) int64 {
	if v := os.Getenv(k); v != "" {
		if n, err := strconv.ParseInt(v, 10, 64); err == nil {
			return n
		}
	}
	return def
}

// New reads the run parameters from the environment.
func New(prop string) *R {
	r := &R{cases: map[string]bool{}, start: time.Now(), maxViol: 20}
	r.res.Property = prop
	r.res.Seed = envInt("VF_SEED", 1)
	r.res.Batch = int(envInt("VF_BATCH", 0))
	r.NBatch = int(envInt("VF_NBATCH", 1))
	r.res.Tier = os.Getenv("VF_TIER")
	if r.res.Tier == "" {
		r.res.Tier = "quick"
	}
	r.OutDir = os.Getenv("VF_OUT")
	if r.OutDir == "" {
		r.OutDir = os.TempDir()
	}
	r.Replay = os.Getenv("VF_REPLAY")
	r.res.Clauses = map[string]int64{}
	r.res.Info = map[string]any{}
	return r
}

func (r *R) Seed() int64  { return r.res.Seed }
func (r *R) Batch() int   { return r.res.Batch }
func (r *R) Tier() string { return r.res.Tier }
func (r *R) Quick() bool  { return r.res.Tier != "thorough" }
func (r *R) Pick(quick, thorough int) int {
	if r.Quick() {
		return quick
	}
	return thorough
}

// Rand returns a PRNG determined by (seed, batch, stream).
func (r *R) Rand(stream int64) *rand.Rand {
	return rand.New(rand.NewSource(r.res.Seed*1000003 + int64(r.res.Batch)*7919 + stream*104729 + 17))
}

func (r *R) Hit(clause string) { r.HitN(clause, 1) }
func (r *R) HitN(clause string, n int64) {
	r.mu.Lock()
	r.res.Clauses[clause] += n
	r.mu.Unlock()
}

// Eval counts one evaluated case; key identifies it for distinctness ("" = trivial).
func (r *R) Eval(key string) {
	r.mu.Lock()
	r.res.Evaluations++
	if key != "" {
		if len(key) > 40 {
			h := sha1.Sum([]byte(key))
			key = hex.EncodeToString(h[:10])
		}
		if !r.cases[key] {
			r.cases[key] = true
		}
	}
	r.mu.Unlock()
}

func (r *R) EvalN(n int64) {
	r.mu.Lock()
	r.res.Evaluations += n
	r.mu.Unlock()
}

func (r *R) Sample(v any) {
	r.mu.Lock()
	if len(r.res.Samples) < 4 {
		r.res.Samples = append(r.res.Samples, v)
	}
	r.mu.Unlock()
}

func (r *R) Info(k string, v any) {
	r.mu.Lock()
	r.res.Info[k] = v
	r.mu.Unlock()
}

func (r *R) InfoAdd(k string, n int64) {
	r.mu.Lock()
	cur, _ := r.res.Info[k].(int64)
	r.res.Info[k] = cur + n
	r.mu.Unlock()
}

func (r *R) Inconclusive(what string) {
	r.mu.Lock()
	if len(r.res.Inconclusive) < 50 {
		r.res.Inconclusive = append(r.res.Inconclusive, what)
	}
	r.mu.Unlock()
}

// Violation records a violation with a signature specific to the failing input/site.
func (r *R) Violation(sig, msg string, witness any) {
	r.mu.Lock()
	defer r.mu.Unlock()
	r.reported++
	n := 0
	for _, v := range r.res.Violations {
		if v.Sig == sig {
			n++
		}
	}
	if n >= 3 || len(r.res.Violations) >= 200 {
		return
	}
	r.res.Violations = append(r.res.Violations, Violation{Sig: sig, Msg: msg, Witness: witness})
}

// NViolations counts every reported violation, including repeats of a signature which are not recorded again:
// callers compare it before and after a check to learn whether that check found anything.
func (r *R) NViolations() int {
	r.mu.Lock()
	defer r.mu.Unlock()
	return r.reported
}

func (r *R) Exhaustive(b bool) { r.mu.Lock(); r.res.Exhaustive = b; r.mu.Unlock() }

// Flush writes the (partial) result file; Done marks normal completion.
func (r *R) Flush(done bool) {
	r.mu.Lock()
	defer r.mu.Unlock()
	r.res.Done = done
	r.res.WallS = time.Since(r.start).Seconds()
	r.res.Cases = r.res.Cases[:0]
	for k := range r.cases {
		r.res.Cases = append(r.res.Cases, k)
	}
	sort.Strings(r.res.Cases)
	b, err := json.Marshal(&r.res)
	if err != nil {
		// a witness that cannot be marshalled must not hide the violation
		for i := range r.res.Violations {
			r.res.Violations[i].Witness = fmt.Sprint(r.res.Violations[i].Witness)
		}
		r.res.Samples = nil
		b, _ = json.Marshal(&r.res)
	}
	p := filepath.Join(r.OutDir, fmt.Sprintf("result-%s-%d.json", r.res.Property, r.res.Batch))
	os.WriteFile(p+".tmp", b, 0644)
	os.Rename(p+".tmp", p)
}

// Finish is to be deferred by every test function: it marks the result complete unless the
// function is panicking.
func (r *R) Finish() {
	if p := recover(); p != nil {
		r.Flush(false)
		panic(p)
	}
	r.Flush(true)
}

// Hash returns a short hash of any JSON-able value.
func Hash(v any) string {
	b, _ := json.Marshal(v)
	h := sha1.Sum(b)
	return hex.EncodeToString(h[:8])
}
