//go:build mysql && verif

package mysql

import (
	"context"
	"database/sql"
	"database/sql/driver"
	"encoding/json"
	"errors"
	"fmt"
	"io"
	"regexp"
	"sort"
	"strings"
	"sync"
	"testing"
	"time"

	ms "github.com/go-sql-driver/mysql"
	"github.com/jmoiron/sqlx"
	"github.com/tinode/chat/server/store"
	t "github.com/tinode/chat/server/store/types"
	"github.com/tinode/chat/server/vfkit"
)

// C18: the real MySQL adapter over a fake database/sql driver which records what the database
// would see (BEGIN, statements, COMMIT, ROLLBACK, connection loss) and fails the k-th operation.

type fkEvent struct {
	K      int    `json:"k"` // index among fallible operations (0 = not fallible)
	Conn   int    `json:"conn"`
	Kind   string `json:"kind"` // begin | exec | query | prepare | commit | rollback | connclose
	SQL    string `json:"sql,omitempty"`
	InTx   bool   `json:"in_tx"`
	Failed string `json:"failed,omitempty"`
}

type fkState struct {
	mu       sync.Mutex
	trace    []fkEvent
	k        int
	failAt   int
	failKind string // error | dupe | badconn | deadline
	fired    bool
	nconn    int
	affected int64
	credDone int // rows returned by "SELECT done FROM credentials": -1 none, 0 false, 1 true
	fileRows int
}

func (st *fkState) reset(failAt int, kind string) {
	st.mu.Lock()
	st.trace, st.k, st.failAt, st.failKind, st.fired = nil, 0, failAt, kind, false
	st.mu.Unlock()
}

var errInjected = errors.New("vf: injected statement failure")

// step records one fallible operation and applies the fault plan.
func (st *fkState) step(c *fkConn, kind, q string, ctx context.Context) error {
	if c.bad {
		// the connection is gone: nothing reaches the database any more
		st.mu.Lock()
		st.trace = append(st.trace, fkEvent{Conn: c.id, Kind: kind, SQL: q, InTx: c.inTx, Failed: "connection lost earlier"})
		st.mu.Unlock()
		return driver.ErrBadConn
	}
	st.mu.Lock()
	st.k++
	k := st.k
	ev := fkEvent{K: k, Conn: c.id, Kind: kind, SQL: q, InTx: c.inTx}
	fire := k == st.failAt
	fk := st.failKind
	if fire {
		st.fired = true
		ev.Failed = fk
	}
	st.trace = append(st.trace, ev)
	st.mu.Unlock()
	if !fire {
		return nil
	}
	switch fk {
	case "dupe":
		return &ms.MySQLError{Number: 1062, Message: "Duplicate entry 'x' for key 'y'"}
	case "badconn":
		c.bad = true
		return driver.ErrBadConn
	case "deadline":
		if ctx == nil {
			ctx = context.Background()
		}
		select {
		case <-ctx.Done():
			return ctx.Err()
		case <-time.After(80 * time.Millisecond):
			return context.DeadlineExceeded
		}
	}
	return errInjected
}

func (st *fkState) note(c *fkConn, kind string) {
	st.mu.Lock()
	st.trace = append(st.trace, fkEvent{Conn: c.id, Kind: kind, InTx: c.inTx})
	st.mu.Unlock()
}

type fkConnector struct{ st *fkState }

func (c *fkConnector) Connect(context.Context) (driver.Conn, error) {
	c.st.mu.Lock()
	c.st.nconn++
	id := c.st.nconn
	c.st.mu.Unlock()
	return &fkConn{st: c.st, id: id}, nil
}
func (c *fkConnector) Driver() driver.Driver { return fkDriver{} }

type fkDriver struct{}

func (fkDriver) Open(string) (driver.Conn, error) { return nil, errors.New("use the connector") }

type fkConn struct {
	st   *fkState
	id   int
	inTx bool
	bad  bool
}

func (c *fkConn) Prepare(q string) (driver.Stmt, error) {
	return c.PrepareContext(context.Background(), q)
}
func (c *fkConn) PrepareContext(ctx context.Context, q string) (driver.Stmt, error) {
	if err := c.st.step(c, "prepare", q, ctx); err != nil {
		return nil, err
	}
	return &fkStmt{c: c, q: q}, nil
}
func (c *fkConn) Close() error {
	c.st.note(c, "connclose")
	c.inTx = false
	return nil
}
func (c *fkConn) Begin() (driver.Tx, error) {
	return c.BeginTx(context.Background(), driver.TxOptions{})
}
func (c *fkConn) BeginTx(ctx context.Context, _ driver.TxOptions) (driver.Tx, error) {
	if err := c.st.step(c, "begin", "BEGIN", ctx); err != nil {
		return nil, err
	}
	c.inTx = true
	return &fkTx{c: c}, nil
}
func (c *fkConn) ExecContext(ctx context.Context, q string, args []driver.NamedValue) (driver.Result, error) {
	if err := c.st.step(c, "exec", q, ctx); err != nil {
		return nil, err
	}
	return fkResult{c.st.affected}, nil
}
func (c *fkConn) QueryContext(ctx context.Context, q string, args []driver.NamedValue) (driver.Rows, error) {
	if err := c.st.step(c, "query", q, ctx); err != nil {
		return nil, err
	}
	return c.st.rows(q), nil
}
func (c *fkConn) Ping(context.Context) error { return nil }
func (c *fkConn) IsValid() bool              { return !c.bad }
func (c *fkConn) ResetSession(context.Context) error {
	if c.bad {
		return driver.ErrBadConn
	}
	return nil
}
func (c *fkConn) CheckNamedValue(nv *driver.NamedValue) error {
	v, err := driver.DefaultParameterConverter.ConvertValue(nv.Value)
	if err != nil {
		nv.Value = fmt.Sprint(nv.Value)
		return nil
	}
	nv.Value = v
	return nil
}

type fkTx struct{ c *fkConn }

func (tx *fkTx) Commit() error {
	if err := tx.c.st.step(tx.c, "commit", "COMMIT", nil); err != nil {
		// a failed COMMIT leaves the transaction for the server to roll back with the connection
		tx.c.inTx = false
		return err
	}
	tx.c.inTx = false
	return nil
}
func (tx *fkTx) Rollback() error {
	tx.c.st.note(tx.c, "rollback")
	tx.c.inTx = false
	if tx.c.bad {
		return driver.ErrBadConn
	}
	return nil
}

type fkStmt struct {
	c *fkConn
	q string
}

func (s *fkStmt) Close() error  { return nil }
func (s *fkStmt) NumInput() int { return -1 }
func (s *fkStmt) Exec(args []driver.Value) (driver.Result, error) {
	return s.ExecContext(context.Background(), nil)
}
func (s *fkStmt) Query(args []driver.Value) (driver.Rows, error) {
	return s.QueryContext(context.Background(), nil)
}
func (s *fkStmt) ExecContext(ctx context.Context, _ []driver.NamedValue) (driver.Result, error) {
	if err := s.c.st.step(s.c, "exec", s.q, ctx); err != nil {
		return nil, err
	}
	return fkResult{s.c.st.affected}, nil
}
func (s *fkStmt) QueryContext(ctx context.Context, _ []driver.NamedValue) (driver.Rows, error) {
	if err := s.c.st.step(s.c, "query", s.q, ctx); err != nil {
		return nil, err
	}
	return s.c.st.rows(s.q), nil
}

type fkResult struct{ n int64 }

func (r fkResult) LastInsertId() (int64, error) { return 1, nil }
func (r fkResult) RowsAffected() (int64, error) { return r.n, nil }

type fkRows struct {
	cols []string
	data [][]driver.Value
	i    int
}

func (r *fkRows) Columns() []string { return r.cols }
func (r *fkRows) Close() error      { return nil }
func (r *fkRows) Next(dest []driver.Value) error {
	if r.i >= len(r.data) {
		return io.EOF
	}
	copy(dest, r.data[r.i])
	r.i++
	return nil
}

// rows answers the few SELECTs issued inside the transactional operations.
func (st *fkState) rows(q string) driver.Rows {
	switch {
	case strings.HasPrefix(q, "SELECT tag FROM usertags"):
		return &fkRows{cols: []string{"tag"}, data: [][]driver.Value{{"alpha"}, {"beta"}}}
	case strings.HasPrefix(q, "SELECT done FROM credentials"):
		switch st.credDone {
		case 0:
			return &fkRows{cols: []string{"done"}, data: [][]driver.Value{{int64(0)}}}
		case 1:
			return &fkRows{cols: []string{"done"}, data: [][]driver.Value{{int64(1)}}}
		}
		return &fkRows{cols: []string{"done"}}
	case strings.HasPrefix(q, "SELECT fu.id,fu.location FROM fileuploads"):
		r := &fkRows{cols: []string{"id", "location"}}
		for i := 0; i < st.fileRows; i++ {
			r.data = append(r.data, []driver.Value{int64(100 + i), fmt.Sprintf("/tmp/f%d", i)})
		}
		return r
	}
	return &fkRows{cols: []string{"x"}}
}

// ---------------------------------------------------------------------------------------

type c18Op struct {
	name string
	// setup adjusts the fake's answers (rows affected, SELECT results) for the branch under test
	setup func(st *fkState)
	run   func(a *adapter) error
}

var c18Write = regexp.MustCompile(`(?i)^\s*(INSERT|UPDATE|DELETE|REPLACE)\b`)

func c18Ops() []c18Op {
	now := t.TimeNow()
	uid := t.Uid(0x1122334455667788)
	uid2 := t.Uid(0x2122334455667799)
	fid := t.Uid(0x3122334455667700)
	topic := "grpAbCdEfGhIjK"
	p2p := uid.P2PName(uid2)
	sub := func(u t.Uid, tn string, owner bool) *t.Subscription {
		s := &t.Subscription{User: u.String(), Topic: tn, ModeWant: t.ModeCP2P, ModeGiven: t.ModeCP2P, Private: map[string]any{"k": "v"}}
		if owner {
			s.ModeWant, s.ModeGiven = t.ModeCFull, t.ModeCFull
		}
		s.CreatedAt, s.UpdatedAt = now, now
		return s
	}
	aff := func(n int64) func(st *fkState) {
		return func(st *fkState) { st.affected, st.credDone, st.fileRows = n, -1, 2 }
	}
	cred := func(done bool) *t.Credential {
		c := &t.Credential{User: uid.String(), Method: "email", Value: "a@example.com", Resp: "123456", Done: done}
		c.CreatedAt, c.UpdatedAt = now, now
		return c
	}
	ranges := []t.Range{{Low: 3, Hi: 6}, {Low: 9}}
	del := func(forUser string, rs []t.Range) *t.DelMessage {
		d := &t.DelMessage{Topic: topic, DelId: 4, DeletedFor: forUser, SeqIdRanges: rs}
		d.CreatedAt, d.UpdatedAt = now, now
		return d
	}
	mkUser := func() *t.User {
		u := &t.User{Tags: t.StringSlice{"alpha", "beta", "gamma"}, Public: map[string]any{"fn": "x"}}
		u.SetUid(uid)
		u.CreatedAt, u.UpdatedAt = now, now
		return u
	}
	mkTopic := func() *t.Topic {
		tp := &t.Topic{Owner: uid.String(), Tags: t.StringSlice{"alpha", "beta"}, Public: map[string]any{"fn": "g"}}
		tp.Id = topic
		tp.CreatedAt, tp.UpdatedAt, tp.TouchedAt = now, now, now
		return tp
	}
	return []c18Op{
		{"UserCreate", aff(1), func(a *adapter) error { return a.UserCreate(mkUser()) }},
		{"UserDelete/hard", aff(1), func(a *adapter) error { return a.UserDelete(uid, true) }},
		{"UserDelete/hard-nothing-found", aff(0), func(a *adapter) error { return a.UserDelete(uid, true) }},
		{"UserDelete/soft", aff(1), func(a *adapter) error { return a.UserDelete(uid, false) }},
		{"UserUpdate/public", aff(1), func(a *adapter) error {
			return a.UserUpdate(uid, map[string]any{"Public": map[string]any{"fn": "y"}, "UpdatedAt": now})
		}},
		{"UserUpdate/state+tags", aff(1), func(a *adapter) error {
			return a.UserUpdate(uid, map[string]any{"State": t.StateSuspended, "StateAt": now, "Tags": t.StringSlice{"one", "two"}, "UpdatedAt": now})
		}},
		{"UserUpdateTags/add+remove", aff(1), func(a *adapter) error {
			_, err := a.UserUpdateTags(uid, []string{"one", "two", "three"}, []string{"old"}, nil)
			return err
		}},
		{"UserUpdateTags/reset", aff(1), func(a *adapter) error {
			_, err := a.UserUpdateTags(uid, nil, nil, []string{"one", "two"})
			return err
		}},
		{"TopicCreate", aff(1), func(a *adapter) error { return a.TopicCreate(mkTopic()) }},
		{"TopicCreateP2P", aff(1), func(a *adapter) error { return a.TopicCreateP2P(sub(uid, p2p, false), sub(uid2, p2p, false)) }},
		{"TopicShare", aff(1), func(a *adapter) error {
			return a.TopicShare([]*t.Subscription{sub(uid, topic, true), sub(uid2, topic, false)})
		}},
		{"TopicDelete/hard", aff(1), func(a *adapter) error { return a.TopicDelete(topic, false, true) }},
		{"TopicDelete/hard-channel", aff(1), func(a *adapter) error { return a.TopicDelete(topic, true, true) }},
		{"TopicDelete/soft", aff(1), func(a *adapter) error { return a.TopicDelete(topic, true, false) }},
		{"TopicUpdate/tags", aff(1), func(a *adapter) error {
			return a.TopicUpdate(topic, map[string]any{"Tags": t.StringSlice{"one", "two"}, "Public": map[string]any{"fn": "z"}, "UpdatedAt": now})
		}},
		{"SubsUpdate", aff(1), func(a *adapter) error {
			return a.SubsUpdate(topic, uid, map[string]any{"ModeGiven": t.ModeCP2P, "UpdatedAt": now})
		}},
		{"SubsDelete", aff(1), func(a *adapter) error { return a.SubsDelete(topic, uid) }},
		{"SubsDelete/not-found", aff(0), func(a *adapter) error { return a.SubsDelete(topic, uid) }},
		{"SubsDelForUser/hard", aff(1), func(a *adapter) error { return a.SubsDelForUser(uid, true) }},
		{"SubsDelForUser/soft", aff(1), func(a *adapter) error { return a.SubsDelForUser(uid, false) }},
		{"MessageDeleteList/hard-ranges", aff(1), func(a *adapter) error { return a.MessageDeleteList(topic, del("", ranges)) }},
		{"MessageDeleteList/hard-one-range", aff(1), func(a *adapter) error { return a.MessageDeleteList(topic, del("", []t.Range{{Low: 3, Hi: 8}})) }},
		{"MessageDeleteList/soft", aff(1), func(a *adapter) error { return a.MessageDeleteList(topic, del(uid.String(), ranges)) }},
		{"MessageDeleteList/all", aff(1), func(a *adapter) error { return a.MessageDeleteList(topic, nil) }},
		{"DeviceUpsert", aff(1), func(a *adapter) error {
			return a.DeviceUpsert(uid, &t.DeviceDef{DeviceId: "dev1", Platform: "web", LastSeen: now, Lang: "en"})
		}},
		{"DeviceDelete", aff(1), func(a *adapter) error { return a.DeviceDelete(uid, "dev1") }},
		{"DeviceDelete/all", aff(1), func(a *adapter) error { return a.DeviceDelete(uid, "") }},
		{"CredUpsert/unconfirmed-new", aff(0), func(a *adapter) error { _, err := a.CredUpsert(cred(false)); return err }},
		{"CredUpsert/unconfirmed-existing", aff(1), func(a *adapter) error { _, err := a.CredUpsert(cred(false)); return err }},
		{"CredUpsert/confirmed", aff(1), func(a *adapter) error { _, err := a.CredUpsert(cred(true)); return err }},
		{"CredDel/one", aff(1), func(a *adapter) error { return a.CredDel(uid, "email", "a@example.com") }},
		{"CredDel/all", aff(1), func(a *adapter) error { return a.CredDel(uid, "", "") }},
		{"FileFinishUpload/success", aff(1), func(a *adapter) error {
			fd := &t.FileDef{}
			fd.SetUid(fid)
			_, err := a.FileFinishUpload(fd, true, 100)
			return err
		}},
		{"FileFinishUpload/failure", aff(1), func(a *adapter) error {
			fd := &t.FileDef{}
			fd.SetUid(fid)
			_, err := a.FileFinishUpload(fd, false, 0)
			return err
		}},
		{"FileDeleteUnused", aff(2), func(a *adapter) error { _, err := a.FileDeleteUnused(now, 10); return err }},
		{"FileLinkAttachments/message", aff(1), func(a *adapter) error {
			return a.FileLinkAttachments("", t.ZeroUid, uid2, []string{fid.String(), uid.String()})
		}},
		{"FileLinkAttachments/topic", aff(1), func(a *adapter) error {
			return a.FileLinkAttachments(topic, t.ZeroUid, t.ZeroUid, []string{fid.String()})
		}},
		{"FileLinkAttachments/user", aff(1), func(a *adapter) error { return a.FileLinkAttachments("", uid, t.ZeroUid, []string{fid.String()}) }},
	}
}

func c18Trace(tr []fkEvent) []string {
	var out []string
	for _, e := range tr {
		s := fmt.Sprintf("conn%d %s", e.Conn, e.Kind)
		if e.K > 0 {
			s = fmt.Sprintf("#%d %s", e.K, s)
		}
		if e.SQL != "" && e.Kind != "begin" && e.Kind != "commit" {
			q := e.SQL
			if len(q) > 90 {
				q = q[:90] + "..."
			}
			s += " " + q
		}
		if e.Failed != "" {
			s += "   <== FAILS (" + e.Failed + ")"
		}
		out = append(out, s)
	}
	return out
}

// c18Judge applies the all-or-nothing oracle to one run.
func c18Judge(r *vfkit.R, op string, cfg string, failAt int, kind string, tr []fkEvent, fired bool, err error, inUse int) {
	wit := map[string]any{"operation": op, "config": cfg, "fail_at": failAt, "fault": kind, "trace": c18Trace(tr), "returned": fmt.Sprint(err)}
	where := fmt.Sprintf("%s [%s] with operation #%d failing (%s)", op, cfg, failAt, kind)
	if failAt == 0 {
		where = fmt.Sprintf("%s [%s] without faults", op, cfg)
	}
	sigOp := strings.SplitN(op, "/", 2)[0]
	var begins, commits, rollbacks int
	openOn := map[int]bool{}
	failedIdx := -1
	commitAfterFail := false
	for i, e := range tr {
		switch e.Kind {
		case "begin":
			if e.Failed == "" {
				begins++
				openOn[e.Conn] = true
			}
		case "commit":
			if e.Failed == "" {
				commits++
				if failedIdx >= 0 {
					commitAfterFail = true
				}
			}
			delete(openOn, e.Conn)
		case "rollback", "connclose":
			if e.Kind == "rollback" {
				rollbacks++
			}
			delete(openOn, e.Conn)
		case "exec", "query", "prepare":
			if !e.InTx && c18Write.MatchString(e.SQL) {
				r.Violation("write-outside-transaction:"+sigOp, fmt.Sprintf("%s: statement %q was executed outside a transaction", where, e.SQL), wit)
			}
		}
		if e.Failed != "" && failedIdx < 0 {
			failedIdx = i
		}
	}
	r.Hit("trace_judged")
	if failAt == 0 {
		r.Hit("fault_free_commits_once")
		if err == nil && (begins != 1 || commits != 1 || rollbacks != 0) {
			r.Violation("fault-free-shape:"+sigOp, fmt.Sprintf("%s: %d BEGIN, %d COMMIT, %d ROLLBACK", where, begins, commits, rollbacks), wit)
		}
		if err != nil && commits != 0 {
			r.Violation("error-but-committed:"+sigOp, fmt.Sprintf("%s: returned %v after COMMIT", where, err), wit)
		}
	}
	if len(openOn) > 0 {
		r.Violation("transaction-left-open:"+sigOp, fmt.Sprintf("%s: the operation returned (%v) with a transaction still open: no COMMIT, no ROLLBACK, connection not closed", where, err), wit)
	}
	if inUse != 0 {
		r.Violation("connection-not-released:"+sigOp, fmt.Sprintf("%s: %d connections still in use after the operation returned (%v)", where, inUse, err), wit)
	}
	if !fired {
		return
	}
	r.Hit("fault_point")
	fe := tr[failedIdx]
	// a statement which failed inside the transaction: nothing may be committed afterwards
	// and the caller must be told, unless the failure is the documented duplicate case.
	benignDupe := kind == "dupe" && fe.Kind == "exec" && strings.HasPrefix(strings.ToUpper(strings.TrimSpace(fe.SQL)), "INSERT")
	retriedBegin := fe.Kind == "begin" && kind == "badconn" // database/sql retries BEGIN on a fresh connection
	switch {
	case retriedBegin:
		r.Hit("lost_connection_at_begin_retried")
	case commitAfterFail && !benignDupe:
		r.Violation("partial-commit:"+sigOp, fmt.Sprintf("%s: %q failed inside the transaction which was then committed", where, fe.SQL), wit)
	case err == nil && !benignDupe:
		r.Violation("failure-swallowed:"+sigOp, fmt.Sprintf("%s: %q failed but the operation reported success", where, fe.SQL), wit)
	case err != nil && commits > 0 && fe.Kind != "commit":
		r.Violation("error-but-committed:"+sigOp, fmt.Sprintf("%s: returned %v although the transaction was committed", where, err), wit)
	}
	if benignDupe {
		r.Hit("duplicate_case")
		// all-or-nothing still: an error returned means nothing committed
		if err != nil && commits > 0 {
			r.Violation("error-but-committed:"+sigOp, fmt.Sprintf("%s: duplicate reported (%v) although the transaction was committed", where, err), wit)
		}
	}
}

func TestVfC18(tt *testing.T) {
	r := vfkit.New("C18")
	defer r.Finish()
	// initialises the id generator of the store; the real MySQL connection attempt fails and is ignored
	store.Store.Open(1, json.RawMessage(`{"uid_key":"la6YsO+bNX/+XIkOqc5Svw==","use_adapter":"mysql","adapters":{"mysql":{"dsn":"root@tcp(127.0.0.1:1)/tinode?timeout=100ms"}}}`))

	ops := c18Ops()
	var names []string
	total := 0
	for _, cfg := range []string{"no-timeout", "timeout"} {
		kinds := []string{"error", "dupe", "badconn"}
		if cfg == "timeout" {
			kinds = []string{"error", "deadline"}
		}
		// one run = a fresh connection pool, so that a leak in one run cannot colour the next
		runOnce := func(op c18Op, k int, kind string) (tr []fkEvent, fired bool, err error, inUse, n int) {
			st := &fkState{}
			db := sql.OpenDB(&fkConnector{st: st})
			db.SetMaxIdleConns(2)
			defer db.Close()
			a := &adapter{db: sqlx.NewDb(db, "mysql"), dbName: "tinode", maxResults: defaultMaxResults, maxMessageResults: defaultMaxMessageResults, version: adpVersion}
			if cfg == "timeout" {
				a.sqlTimeout = 40 * time.Millisecond
				a.txTimeout = 60 * time.Millisecond
			}
			op.setup(st)
			st.reset(k, kind)
			err = op.run(a)
			if cfg == "timeout" {
				// the deferred cancel() lets database/sql roll back asynchronously: give it a moment
				for i := 0; i < 100 && db.Stats().InUse != 0; i++ {
					time.Sleep(time.Millisecond)
				}
			}
			st.mu.Lock()
			tr = append([]fkEvent{}, st.trace...)
			fired, n = st.fired, st.k
			st.mu.Unlock()
			return tr, fired, err, db.Stats().InUse, n
		}
		for _, op := range ops {
			// fault-free run: learn the number of fallible operations
			tr, _, err, inUse, n := runOnce(op, 0, "")
			c18Judge(r, op.name, cfg, 0, "", tr, false, err, inUse)
			r.Eval("op:" + op.name)
			if cfg == "no-timeout" {
				names = append(names, fmt.Sprintf("%s(%d)", op.name, n))
				if len(names) <= 3 {
					r.Sample(map[string]any{"operation": op.name, "trace": c18Trace(tr), "returned": fmt.Sprint(err)})
				}
			}
			if n < 2 {
				r.Violation("harness:no-transaction:"+op.name, fmt.Sprintf("%s performed %d operations: no transaction observed", op.name, n), nil)
				continue
			}
			for _, kind := range kinds {
				for k := 1; k <= n; k++ {
					tr, fired, err, inUse, _ := runOnce(op, k, kind)
					c18Judge(r, op.name, cfg, k, kind, tr, fired, err, inUse)
					total++
					r.Eval(fmt.Sprintf("fault:%s:%s:%d", op.name, kind, k))
				}
			}
		}
	}
	sort.Strings(names)
	r.Info("operations_and_statement_counts", names)
	r.EvalN(int64(total))
	r.Hit("operations_enumerated")
}
