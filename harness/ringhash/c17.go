//go:build verif

package ringhash

import (
	"fmt"
	"math/rand"
	"sort"
	"strings"
	"testing"

	"github.com/tinode/chat/server/vfkit"
)

// C17, ring part: order independence, totality, minimal movement, signatures.

var vfNamePool = []string{"a", "b", "c", "1a", "11a", "a1", "node1", "node2", "node-3", "node_4", "N", "n", "tinode-0", "tinode-1", "tinode-10",
	"10.0.0.1:12001", "10.0.0.2:12001", "östen", "узел", "节点", "x", "xx", "xxx", "0", "00", "1", "2", "12", "21", " ", "a b", "longer-node-name-with-many-characters-0123456789"}

func vfHashFns() map[string]Hash {
	return map[string]Hash{
		"crc32": nil,
		"mod7": func(d []byte) uint32 {
			var s uint32
			for _, b := range d {
				s = s*31 + uint32(b)
			}
			return s % 7
		},
		"mod64": func(d []byte) uint32 {
			var s uint32
			for _, b := range d {
				s = s*131 + uint32(b)
			}
			return s % 64
		},
		"len":   func(d []byte) uint32 { return uint32(len(d)) },
		"const": func(d []byte) uint32 { return 42 },
		"first": func(d []byte) uint32 {
			if len(d) == 0 {
				return 0
			}
			return uint32(d[0])
		},
	}
}

func vfMkRing(replicas int, fn Hash, nodes []string) *Ring {
	r := New(replicas, fn)
	r.Add(nodes...)
	return r
}

func vfKeys(rng *rand.Rand, nodes []string, n int) []string {
	const alpha = "ABCDEFGHIJKLMNOPQRSTUVWXYZabcdefghijklmnopqrstuvwxyz0123456789-_"
	keys := append([]string{"", "me", "fnd", "sys"}, nodes...)
	for len(keys) < n {
		b := make([]byte, 11)
		for i := range b {
			b[i] = alpha[rng.Intn(64)]
		}
		switch rng.Intn(5) {
		case 0:
			keys = append(keys, "usr"+string(b))
		case 1:
			keys = append(keys, "grp"+string(b))
		case 2:
			keys = append(keys, "p2p"+string(b)+string(b))
		case 3:
			keys = append(keys, string(b[:rng.Intn(11)]))
		default:
			// replica-shaped names: digits followed by a node name
			keys = append(keys, fmt.Sprint(rng.Intn(60))+nodes[rng.Intn(len(nodes))])
		}
	}
	return keys
}

func vfPermutations(rng *rand.Rand, nodes []string) [][]string {
	var out [][]string
	if len(nodes) <= 5 {
		var rec func(cur []string, rest []string)
		rec = func(cur []string, rest []string) {
			if len(rest) == 0 {
				out = append(out, append([]string{}, cur...))
				return
			}
			for i := range rest {
				nr := append(append([]string{}, rest[:i]...), rest[i+1:]...)
				rec(append(cur, rest[i]), nr)
			}
		}
		rec(nil, nodes)
		return out
	}
	for i := 0; i < 20; i++ {
		p := append([]string{}, nodes...)
		rng.Shuffle(len(p), func(a, b int) { p[a], p[b] = p[b], p[a] })
		out = append(out, p)
	}
	return out
}

func TestVfC17Ring(t *testing.T) {
	r := vfkit.New("C17")
	defer r.Finish()
	rng := r.Rand(170)
	fns := vfHashFns()
	var fnNames []string
	for k := range fns {
		fnNames = append(fnNames, k)
	}
	sort.Strings(fnNames)

	sigs := map[string]string{} // signature -> description of (hash, replicas, node set)
	rounds := r.Pick(300, 6000)
	nkeys := r.Pick(400, 2000)
	for round := 0; round < rounds; round++ {
		n := 1 + rng.Intn(8)
		perm := rng.Perm(len(vfNamePool))
		nodes := make([]string, n)
		for i := range nodes {
			nodes[i] = vfNamePool[perm[i]]
		}
		replicas := []int{1, 2, 3, 5, 20, 50}[rng.Intn(6)]
		fname := fnNames[rng.Intn(len(fnNames))]
		if rng.Intn(2) == 0 {
			fname = "crc32"
		}
		fn := fns[fname]
		keys := vfKeys(rng, nodes, nkeys)
		sorted := append([]string{}, nodes...)
		sort.Strings(sorted)
		desc := fmt.Sprintf("hash=%s replicas=%d nodes=%q", fname, replicas, sorted)
		wit := map[string]any{"hash": fname, "replicas": replicas, "nodes": sorted}
		r.Eval(fmt.Sprintf("ring:n=%d,replicas=%d,hash=%s", n, replicas, fname))

		base := vfMkRing(replicas, fn, nodes)
		owner := make([]string, len(keys))
		isNode := map[string]bool{}
		for _, x := range nodes {
			isNode[x] = true
		}
		// totality
		for i, k := range keys {
			owner[i] = base.Get(k)
			r.Hit("every_name_one_live_node")
			if !isNode[owner[i]] {
				r.Violation("ring-owner-not-live", fmt.Sprintf("%s: Get(%q) = %q which is not a node", desc, k, owner[i]), wit)
				break
			}
		}
		if base.Len() != n*replicas {
			r.Violation("ring-len", fmt.Sprintf("%s: Len() = %d, want %d", desc, base.Len(), n*replicas), wit)
		}
		// order independence (also: added one by one)
		perms := vfPermutations(rng, nodes)
		for pi, p := range perms {
			var other *Ring
			if pi%3 == 2 {
				other = New(replicas, fn)
				for _, x := range p {
					other.Add(x)
				}
			} else {
				other = vfMkRing(replicas, fn, p)
			}
			r.Hit("order_independent")
			if other.Signature() != base.Signature() {
				r.Violation("ring-order:signature", fmt.Sprintf("%s: signature depends on the order the nodes are listed in: %q gives %s, %q gives %s", desc, nodes, base.Signature(), p, other.Signature()), wit)
				break
			}
			bad := false
			for i, k := range keys {
				if got := other.Get(k); got != owner[i] {
					r.Violation("ring-order:owner", fmt.Sprintf("%s: owner of %q depends on the order of the node list: %q with %q, %q with %q", desc, k, owner[i], nodes, got, p), wit)
					bad = true
					break
				}
			}
			if bad {
				break
			}
		}
		// signature identifies the membership
		// (the signature covers the members, the replica count and the hash values; two rings of the same members
		// built with different hash functions which happen to agree on those members are the same ring)
		member := fmt.Sprintf("replicas=%d nodes=%q", replicas, sorted)
		if prev, ok := sigs[base.Signature()]; ok && prev != member {
			r.Violation("ring-signature-collision", fmt.Sprintf("two rings of different membership share the signature %s: %s and %s", base.Signature(), prev, member), wit)
		}
		sigs[base.Signature()] = member
		// removal: only the names the removed node owned move
		if n > 1 {
			for xi, x := range nodes {
				rest := append(append([]string{}, nodes[:xi]...), nodes[xi+1:]...)
				rng.Shuffle(len(rest), func(a, b int) { rest[a], rest[b] = rest[b], rest[a] })
				smaller := vfMkRing(replicas, fn, rest)
				r.Hit("removal_moves_only_owned")
				if smaller.Signature() == base.Signature() {
					r.Violation("ring-signature-same-after-removal", fmt.Sprintf("%s: removing %q does not change the signature", desc, x), wit)
				}
				for i, k := range keys {
					got := smaller.Get(k)
					if owner[i] != x && got != owner[i] {
						r.Violation("ring-removal-moved-foreign", fmt.Sprintf("%s: removing node %q moved %q from %q to %q", desc, x, k, owner[i], got), wit)
						break
					}
					if owner[i] == x && (got == x || !isNode[got]) {
						r.Violation("ring-removal-dead-owner", fmt.Sprintf("%s: after removing node %q the name %q maps to %q", desc, x, k, got), wit)
						break
					}
				}
			}
		}
		// addition: names move only to the new node
		{
			var y string
			for _, cand := range perm[n:] {
				y = vfNamePool[cand]
				break
			}
			if y != "" {
				bigger := vfMkRing(replicas, fn, append([]string{y}, nodes...))
				r.Hit("addition_moves_only_to_new")
				for i, k := range keys {
					if got := bigger.Get(k); got != owner[i] && got != y {
						r.Violation("ring-addition-moved-elsewhere", fmt.Sprintf("%s: adding node %q moved %q from %q to %q", desc, y, k, owner[i], got), wit)
						break
					}
				}
			}
		}
		if round < 3 {
			r.Sample(map[string]any{"nodes": nodes, "replicas": replicas, "hash": fname, "signature": base.Signature(), "owner_of_me": base.Get("me"), "keys_checked": len(keys), "permutations": len(perms)})
		}
	}
	r.EvalN(int64(rounds * nkeys))
	_ = strings.Join
}
