//go:build verif

package types

import (
	"fmt"
	"strings"
	"testing"

	"github.com/tinode/chat/server/vfkit"
)

// Independent reference: letters -> bits.
var vfBits = map[byte]uint{'J': 1, 'R': 2, 'W': 4, 'P': 8, 'A': 16, 'S': 32, 'D': 64, 'O': 128}

func vfRefString(m uint) string {
	if m == 0 {
		return "N"
	}
	s := ""
	for _, ch := range []byte("JRWPASDO") {
		if m&vfBits[ch] != 0 {
			s += string(ch)
		}
	}
	return s
}

// vfClassify: kind of a plain mode string. 0=empty 1=pure letters 2=exactly N 3=has unknown char 4=N mixed with known letters
func vfClassify(s string) (int, uint) {
	if s == "" {
		return 0, 0
	}
	var bits uint
	hasN, hasUnknown, hasLetter := false, false, false
	for i := 0; i < len(s); i++ {
		ch := s[i]
		if ch >= 'a' && ch <= 'z' {
			ch -= 32
		}
		if b, ok := vfBits[ch]; ok {
			bits |= b
			hasLetter = true
		} else if ch == 'N' {
			hasN = true
		} else {
			hasUnknown = true
		}
	}
	switch {
	case hasUnknown:
		return 3, 0
	case hasN && !hasLetter && len(s) == 1:
		return 2, 0
	case hasN:
		return 4, 0
	}
	return 1, bits
}

func TestVfC05(t *testing.T) {
	r := vfkit.New("C05")
	defer r.Finish()

	// (a1) all 256x256 pairs: Delta/ApplyDelta/ApplyMutation
	for a := uint(0); a < 256; a++ {
		for b := uint(0); b < 256; b++ {
			ma, mb := AccessMode(a), AccessMode(b)
			d := ma.Delta(mb)
			x := ma
			if err := x.ApplyDelta(d); err != nil || x != mb {
				r.Violation("delta-roundtrip:ApplyDelta", fmt.Sprintf("%s.Delta(%s)=%q; ApplyDelta gives %s err=%v", ma, mb, d, x, err), map[string]any{"a": a, "b": b})
			}
			y := ma
			if err := y.ApplyMutation(d); err != nil || y != mb {
				r.Violation("delta-roundtrip:ApplyMutation", fmt.Sprintf("%s.Delta(%s)=%q; ApplyMutation gives %s err=%v", ma, mb, d, y, err), map[string]any{"a": a, "b": b})
			}
			if a == b && d != "" {
				r.Violation("delta-zero", fmt.Sprintf("delta of equal modes %s is %q", ma, d), nil)
			}
			r.Hit("delta_pair")
		}
	}
	r.EvalN(256 * 256)
	r.Eval("pairs-256x256")

	// (a2) canonical form round trips for all 256 sets, any case, any order; JSON; SQL.
	for a := uint(0); a < 256; a++ {
		m := AccessMode(a)
		s := m.String()
		if s != vfRefString(a) {
			r.Violation("string-canonical", fmt.Sprintf("String(%d)=%q want %q", a, s, vfRefString(a)), nil)
		}
		forms := []string{s, strings.ToLower(s), vfReverse(s), vfReverse(strings.ToLower(s)), s + s}
		if a == 0 {
			forms = []string{"N", "n"}
		}
		for _, f := range forms {
			for _, start := range []AccessMode{ModeNone, ModeCFull, ModeCP2P} {
				x := start
				if err := x.UnmarshalText([]byte(f)); err != nil || x != m {
					r.Violation("parse-roundtrip", fmt.Sprintf("UnmarshalText(%q) on %s gives %s err=%v want %s", f, start, x, err, m), nil)
				}
				y := start
				if err := y.ApplyMutation(f); err != nil || y != m {
					r.Violation("mutation-assign", fmt.Sprintf("ApplyMutation(%q) on %s gives %s err=%v want %s", f, start, y, err, m), nil)
				}
			}
			r.Hit("canonical_roundtrip")
		}
		jb, err := m.MarshalJSON()
		var mj AccessMode = ModeCFull
		if err != nil || mj.UnmarshalJSON(jb) != nil || mj != m {
			r.Violation("json-roundtrip", fmt.Sprintf("json of %s = %s -> %s", m, jb, mj), nil)
		}
		v, err := m.Value()
		var ms AccessMode = ModeCFull
		if err != nil || ms.Scan([]byte(v.(string))) != nil || ms != m {
			r.Violation("sql-roundtrip", fmt.Sprintf("sql value of %s = %v -> %s", m, v, ms), nil)
		}
		r.Hit("json_sql_roundtrip")
		r.Eval(fmt.Sprintf("set-%d", a))
	}

	// (b) all strings of length <= L over the alphabet vs. the stated laws.
	alpha := []byte("JRWPASDONjrwo+-xZ!")
	maxLen := r.Pick(4, 5)
	var buf []byte
	var rec func(depth int)
	nstr := int64(0)
	rec = func(depth int) {
		s := string(buf)
		nstr++
		vfCheckString(r, s)
		if depth == maxLen {
			return
		}
		for _, ch := range alpha {
			buf = append(buf, ch)
			rec(depth + 1)
			buf = buf[:len(buf)-1]
		}
	}
	rec(0)
	r.EvalN(nstr)
	r.Info("strings_checked", nstr)
	r.Eval(fmt.Sprintf("strings-len<=%d", maxLen))
	// longer random strings
	rng := r.Rand(1)
	for i := 0; i < r.Pick(20000, 400000); i++ {
		n := 5 + rng.Intn(8)
		b := make([]byte, n)
		for j := range b {
			b[j] = alpha[rng.Intn(len(alpha))]
		}
		vfCheckString(r, string(b))
	}
	r.Sample(map[string]any{"pair": "JRWPAS.Delta(JRW)", "delta": (ModeCAuth).Delta(ModeJoin | ModeRead | ModeWrite)})
	r.Sample(map[string]any{"string": "+W-Z", "law": "unknown letter => error and target unchanged"})
	r.Exhaustive(true)
}

func vfReverse(s string) string {
	b := []byte(s)
	for i, j := 0, len(b)-1; i < j; i, j = i+1, j-1 {
		b[i], b[j] = b[j], b[i]
	}
	return string(b)
}

func vfCheckString(r *vfkit.R, s string) {
	starts := []AccessMode{ModeNone, ModeCAuth, ModeCFull}
	if !strings.ContainsAny(s, "+-") {
		kind, bits := vfClassify(s)
		for _, st := range starts {
			x := st
			err := x.UnmarshalText([]byte(s))
			y := st
			err2 := y.ApplyMutation(s)
			if (err == nil) != (err2 == nil) || x != y {
				r.Violation("mutation-vs-unmarshal", fmt.Sprintf("%q on %s: UnmarshalText=(%s,%v) ApplyMutation=(%s,%v)", s, st, x, err, y, err2), nil)
			}
			switch kind {
			case 0:
				r.Hit("law_empty_nochange")
				if err != nil || x != st {
					r.Violation("law-empty", fmt.Sprintf("empty string changed %s to %s err=%v", st, x, err), nil)
				}
			case 1:
				r.Hit("law_letters_parse")
				if err != nil || x != AccessMode(bits) {
					r.Violation("law-letters", fmt.Sprintf("%q on %s gives %s err=%v want %s", s, st, x, err, AccessMode(bits)), nil)
				}
			case 2:
				r.Hit("law_N")
				if err != nil || x != ModeNone {
					r.Violation("law-N", fmt.Sprintf("%q on %s gives %s err=%v", s, st, x, err), nil)
				}
			case 3:
				r.Hit("law_unknown_rejected")
				if err == nil {
					r.Violation("law-unknown-accepted:plain:"+vfShape(s), fmt.Sprintf("mode string %q with unknown letters accepted (target %s -> %s)", s, st, x), map[string]any{"s": s})
				} else if x != st {
					r.Violation("law-unknown-changed:plain", fmt.Sprintf("rejected %q changed target %s -> %s", s, st, x), map[string]any{"s": s})
				}
			case 4:
				// N mixed with known letters: the statement does not fix the outcome; only "rejected => unchanged".
				if err != nil && x != st {
					r.Violation("law-rejected-changed", fmt.Sprintf("rejected %q changed target %s -> %s", s, st, x), nil)
				}
			}
		}
		return
	}
	// delta strings
	wellFormed, hasUnknown := vfDeltaShape(s)
	for _, st := range starts {
		x := st
		err := x.ApplyMutation(s)
		y := st
		err2 := y.ApplyDelta(s)
		if (err == nil) != (err2 == nil) || x != y {
			r.Violation("mutation-vs-delta", fmt.Sprintf("%q on %s: ApplyMutation=(%s,%v) ApplyDelta=(%s,%v)", s, st, x, err, y, err2), nil)
		}
		if err != nil && x != st {
			r.Violation("law-rejected-changed:delta", fmt.Sprintf("rejected delta %q changed target %s -> %s", s, st, x), map[string]any{"s": s})
		}
		if hasUnknown {
			r.Hit("law_unknown_rejected_delta")
			if err == nil {
				r.Violation("law-unknown-accepted:delta:"+vfShape(s), fmt.Sprintf("delta %q with unknown letters accepted (target %s -> %s)", s, st, x), map[string]any{"s": s})
			}
		} else if wellFormed {
			r.Hit("law_delta_apply")
			want := vfRefApply(uint(st), s)
			if err != nil || uint(x) != want {
				r.Violation("law-delta-apply", fmt.Sprintf("delta %q on %s gives %s err=%v want %s", s, st, x, err, AccessMode(want)), map[string]any{"s": s})
			}
		}
	}
}

// vfShape abstracts a string for signatures: N-prefixed junk etc.
func vfShape(s string) string {
	up := strings.ToUpper(s)
	if strings.HasPrefix(up, "N") {
		return "after-N"
	}
	if i := strings.IndexAny(up, "+-"); i >= 0 {
		rest := up[i+1:]
		if strings.HasPrefix(rest, "N") {
			return "chunk-after-N"
		}
	}
	return "other"
}

// vfDeltaShape: wellFormed = (sign letters+)+ with letters in JRWPASDO (no N); hasUnknown = any char outside letters, N, +, -.
func vfDeltaShape(s string) (bool, bool) {
	hasUnknown := false
	for i := 0; i < len(s); i++ {
		ch := s[i]
		if ch >= 'a' && ch <= 'z' {
			ch -= 32
		}
		if _, ok := vfBits[ch]; !ok && ch != 'N' && ch != '+' && ch != '-' {
			hasUnknown = true
		}
	}
	if hasUnknown {
		return false, true
	}
	if s == "" || (s[0] != '+' && s[0] != '-') || strings.ContainsAny(s, "Nn") {
		return false, false
	}
	prevSign := false
	for i := 0; i < len(s); i++ {
		if s[i] == '+' || s[i] == '-' {
			if prevSign {
				return false, false
			}
			prevSign = true
		} else {
			prevSign = false
		}
	}
	if prevSign {
		return false, false
	}
	return true, false
}

func vfRefApply(m uint, s string) uint {
	sign := byte(0)
	for i := 0; i < len(s); i++ {
		ch := s[i]
		if ch == '+' || ch == '-' {
			sign = ch
			continue
		}
		if ch >= 'a' && ch <= 'z' {
			ch -= 32
		}
		if sign == '+' {
			m |= vfBits[ch]
		} else {
			m &^= vfBits[ch]
		}
	}
	return m
}
