//go:build verif

package types

import (
	"encoding/base64"
	"encoding/binary"
	"encoding/json"
	"fmt"
	"math/rand"
	"strings"
	"sync"
	"testing"

	"github.com/tinode/chat/server/vfkit"
)

// C20, package-level part: identifier codecs, p2p names, grp/chn spellings, database form.

func vfC20Ids(rng *rand.Rand, n int) []Uid {
	ids := []Uid{1, 2, 3, 0x7f, 0x80, 0xff, 0x100, 1<<31 - 1, 1 << 31, 1 << 32, 1<<62 - 1, 1 << 62, 1<<63 - 1, 1 << 63, 1<<63 + 1, 1<<64 - 1, 1<<64 - 2,
		0x0101010101010101, 0xfefefefefefefefe, 0x00000000000000fb, 0xfb00000000000000, 0xffffffff00000000, 0x00000000ffffffff}
	for b := uint(0); b < 64; b++ {
		ids = append(ids, Uid(1)<<b, ^(Uid(1) << b))
	}
	for len(ids) < n {
		if k := len(ids); k > 0 && ids[k-1] == 0 {
			ids[k-1] = 7
		}
		switch rng.Intn(4) {
		case 0:
			ids = append(ids, Uid(rng.Uint64()))
		case 1:
			ids = append(ids, Uid(rng.Uint64()>>uint(rng.Intn(64))))
		case 2:
			ids = append(ids, Uid(rng.Uint64()<<uint(rng.Intn(64))))
		default:
			ids = append(ids, Uid(rng.Uint64()|1<<63))
		}
	}
	return ids
}

var vfB64 = base64.URLEncoding.WithPadding(base64.NoPadding)

// vfRefB64 is an independent rendering of the documented form: unpadded URL-safe base64 of
// the little-endian 8 bytes.
func vfRefB64(u Uid) string {
	const alpha = "ABCDEFGHIJKLMNOPQRSTUVWXYZabcdefghijklmnopqrstuvwxyz0123456789-_"
	var b [9]byte
	binary.LittleEndian.PutUint64(b[:8], uint64(u))
	out := make([]byte, 0, 11)
	for i := 0; i < 9; i += 3 {
		v := uint(b[i])<<16 | uint(b[i+1])<<8 | uint(b[i+2])
		out = append(out, alpha[v>>18&63], alpha[v>>12&63], alpha[v>>6&63], alpha[v&63])
	}
	return string(out[:11])
}

func vfC20RoundTrip(r *vfkit.R, ug *UidGenerator, u Uid) {
	bad := func(form, msg string) {
		r.Violation("id-roundtrip:"+form, fmt.Sprintf("uid %d (0x%x): %s", uint64(u), uint64(u), msg), map[string]any{"uid": uint64(u)})
	}
	s := u.String()
	r.Hit("id_roundtrip")
	if u.IsZero() {
		if s != "" || u.UserId() != "" || u.FndName() != "" || u.PrefixId("grp") != "" {
			bad("zero", fmt.Sprintf("zero uid renders as %q / %q", s, u.UserId()))
		}
		return
	}
	if s != vfRefB64(u) {
		bad("base64-layout", fmt.Sprintf("String() = %q, documented layout gives %q", s, vfRefB64(u)))
	}
	if len(s) != 11 || strings.ContainsAny(s, "=+/") {
		bad("base64-shape", fmt.Sprintf("String() = %q is not 11 unpadded URL-safe characters", s))
	}
	if got := ParseUid(s); got != u {
		bad("base64", fmt.Sprintf("ParseUid(String()) = %d", uint64(got)))
	}
	for _, pfx := range []string{"usr", "grp", "fnd", "chn"} {
		if got := u.PrefixId(pfx); got != pfx+s {
			bad("prefix", fmt.Sprintf("PrefixId(%q) = %q", pfx, got))
		}
	}
	if got := ParseUserId(u.UserId()); got != u {
		bad("usr", fmt.Sprintf("ParseUserId(UserId()=%q) = %d", u.UserId(), uint64(got)))
	}
	if u.FndName() != "fnd"+s {
		bad("fnd", fmt.Sprintf("FndName() = %q", u.FndName()))
	}
	if got := ParseUserId("grp" + s); got != 0 {
		bad("usr-wrong-prefix", fmt.Sprintf("ParseUserId(%q) = %d, want zero", "grp"+s, uint64(got)))
	}
	// text
	cp := u
	txt, err := cp.MarshalText()
	var back Uid
	if err != nil || string(txt) != s || back.UnmarshalText(txt) != nil || back != u {
		bad("text", fmt.Sprintf("MarshalText/UnmarshalText: %q err=%v back=%d", txt, err, uint64(back)))
	}
	// JSON (pointer receiver forms, as used by the codebase)
	js, err := json.Marshal(&cp)
	var backJ Uid
	if err != nil || string(js) != `"`+s+`"` {
		bad("json", fmt.Sprintf("json.Marshal = %s err=%v", js, err))
	} else if err := json.Unmarshal(js, &backJ); err != nil || backJ != u {
		bad("json", fmt.Sprintf("json.Unmarshal(%s) = %d err=%v", js, uint64(backJ), err))
	}
	// embedded in a struct through a pointer
	type holder struct {
		U *Uid `json:"u"`
	}
	hj, _ := json.Marshal(holder{U: &cp})
	var hb holder
	if err := json.Unmarshal(hj, &hb); err != nil || hb.U == nil || *hb.U != u {
		bad("json-struct", fmt.Sprintf("struct round trip through %s failed: %v", hj, err))
	}
	// binary
	bin, err := u.MarshalBinary()
	var backB Uid
	if err != nil || len(bin) != 8 || binary.LittleEndian.Uint64(bin) != uint64(u) || backB.UnmarshalBinary(bin) != nil || backB != u {
		bad("binary", fmt.Sprintf("binary form %x", bin))
	}
	// base32
	s32 := u.String32()
	if got := ParseUid32(s32); got != u {
		bad("base32", fmt.Sprintf("ParseUid32(String32()=%q) = %d", s32, uint64(got)))
	}
	if s32 != strings.ToLower(s32) || len(s32) != 13 {
		bad("base32-shape", fmt.Sprintf("String32() = %q", s32))
	}
	// database form
	db := ug.DecodeUid(u)
	if got := ug.EncodeInt64(db); got != u {
		bad("db", fmt.Sprintf("EncodeInt64(DecodeUid()) = %d via %d", uint64(got), db))
	}
	i := int64(u)
	if got := ug.DecodeUid(ug.EncodeInt64(i)); got != i {
		bad("db-int", fmt.Sprintf("DecodeUid(EncodeInt64(%d)) = %d", i, got))
	}
	// Compare
	if u.Compare(u) != 0 {
		bad("compare", "Compare(self) != 0")
	}
}

// vfC20Invalid: a string offered as an id either decodes to zero or is exactly the
// encoding of what it decodes to.
func vfC20Invalid(r *vfkit.R, s string) {
	r.Hit("invalid_text_is_zero")
	if u := ParseUid(s); u != 0 && u.String() != s {
		r.Violation("alias:base64", fmt.Sprintf("ParseUid(%q) = %d whose encoding is %q: a text which is not an encoding decodes to a real id", s, uint64(u), u.String()), map[string]any{"s": s})
	}
	if u := ParseUserId(s); u != 0 && u.UserId() != s {
		r.Violation("alias:usr", fmt.Sprintf("ParseUserId(%q) = %d whose encoding is %q", s, uint64(u), u.UserId()), map[string]any{"s": s})
	}
	var uj Uid
	if err := uj.UnmarshalJSON([]byte(s)); err == nil && uj != 0 {
		if js, _ := uj.MarshalJSON(); string(js) != s {
			r.Violation("alias:json", fmt.Sprintf("UnmarshalJSON(%q) = %d whose encoding is %s", s, uint64(uj), js), map[string]any{"s": s})
		}
	}
	var ut Uid
	if err := ut.UnmarshalText([]byte(s)); err != nil && ut != 0 {
		r.Violation("alias:text-error-but-value", fmt.Sprintf("UnmarshalText(%q) failed with %v but left id %d", s, err, uint64(ut)), map[string]any{"s": s})
	}
	if u := ParseUid32(s); u != 0 && u.String32() != strings.ToLower(s) {
		r.Violation("alias:base32", fmt.Sprintf("ParseUid32(%q) = %d whose encoding is %q", s, uint64(u), u.String32()), map[string]any{"s": s})
	}
	if u1, u2, err := ParseP2P(s); err == nil {
		b := make([]byte, 16)
		binary.LittleEndian.PutUint64(b, uint64(u1))
		binary.LittleEndian.PutUint64(b[8:], uint64(u2))
		if canon := "p2p" + vfB64.EncodeToString(b); canon != s {
			r.Violation("alias:p2p", fmt.Sprintf("ParseP2P(%q) = (%d,%d) whose encoding is %q", s, uint64(u1), uint64(u2), canon), map[string]any{"s": s})
		}
	} else if u1 != 0 || u2 != 0 {
		r.Violation("alias:p2p-error-but-value", fmt.Sprintf("ParseP2P(%q) failed with %v but returned ids", s, err), map[string]any{"s": s})
	}
	if name, err := P2PNameForUser(Uid(12345), s); err == nil && ParseUserId(name) == 0 && name != "" {
		r.Violation("p2p-for-user-garbage", fmt.Sprintf("P2PNameForUser(%q) = %q which is not a user id", s, name), map[string]any{"s": s})
	}
}

func vfC20Mutate(rng *rand.Rand, s string) string {
	const alpha = "ABCDEFGHIJKLMNOPQRSTUVWXYZabcdefghijklmnopqrstuvwxyz0123456789-_"
	const junk = "=+/ .,:;!%\x00\n\"'~é世"
	b := []rune(s)
	switch rng.Intn(12) {
	case 0: // last character replaced: stray bits
		if len(b) > 0 {
			b[len(b)-1] = rune(alpha[rng.Intn(64)])
		}
	case 1: // any character replaced
		if len(b) > 0 {
			b[rng.Intn(len(b))] = rune(alpha[rng.Intn(64)])
		}
	case 2: // truncated
		if len(b) > 0 {
			b = b[:rng.Intn(len(b))]
		}
	case 3: // extended
		for i := rng.Intn(4) + 1; i > 0; i-- {
			b = append(b, rune(alpha[rng.Intn(64)]))
		}
	case 4: // padded
		b = append(b, '=')
	case 5: // junk character
		jr := []rune(junk)
		if len(b) > 0 {
			b[rng.Intn(len(b))] = jr[rng.Intn(len(jr))]
		}
	case 6: // std alphabet
		return strings.NewReplacer("-", "+", "_", "/").Replace(s)
	case 7: // upper / lower
		if rng.Intn(2) == 0 {
			return strings.ToUpper(s)
		}
		return strings.ToLower(s)
	case 8: // prefix games
		pf := []string{"usr", "grp", "chn", "fnd", "p2p", "USR", "usr ", " usr", "us", "usrusr", "nch", "new", "me", "sys", ""}
		return pf[rng.Intn(len(pf))] + s
	case 9: // whitespace
		if rng.Intn(2) == 0 {
			return s + " "
		}
		return " " + s
	case 10: // newline inside (base64 decoders skip them)
		if len(b) > 1 {
			i := 1 + rng.Intn(len(b)-1)
			b = append(b[:i], append([]rune{'\n'}, b[i:]...)...)
		}
	case 11: // quotes
		return `"` + s + `"`
	}
	return string(b)
}

func TestVfC20Ids(t *testing.T) {
	r := vfkit.New("C20")
	defer r.Finish()
	rng := r.Rand(20)

	ug := &UidGenerator{}
	key := make([]byte, 16)
	rng.Read(key)
	if err := ug.Init(uint(rng.Intn(1000)), key); err != nil {
		t.Fatal(err)
	}

	n := r.Pick(200000, 3000000)
	ids := vfC20Ids(rng, n)
	vfC20RoundTrip(r, ug, 0)
	for _, u := range ids {
		vfC20RoundTrip(r, ug, u)
	}
	// generated ids as the server makes them
	seen := map[Uid]bool{}
	for i := 0; i < 20000; i++ {
		u := ug.Get()
		if u.IsZero() {
			continue
		}
		if seen[u] {
			r.Violation("generated-duplicate", fmt.Sprintf("UidGenerator.Get returned %d twice", uint64(u)), nil)
		}
		seen[u] = true
		vfC20RoundTrip(r, ug, u)
		if db := ug.DecodeUid(u); db < 0 {
			r.Violation("generated-db-negative", fmt.Sprintf("generated uid %d has negative database form %d", uint64(u), db), nil)
		}
		r.Hit("generated_ids")
	}
	r.EvalN(int64(len(ids) + 20000))
	r.Eval("roundtrip:boundary-ids")
	r.Eval("roundtrip:random-ids")
	r.Eval("roundtrip:generated-ids")

	// injectivity of the textual forms on the sample
	{
		m := map[string]Uid{}
		m32 := map[string]Uid{}
		for _, u := range ids[:min(len(ids), 300000)] {
			if o, ok := m[u.String()]; ok && o != u {
				r.Violation("collision:base64", fmt.Sprintf("%d and %d share the text %q", uint64(o), uint64(u), u.String()), nil)
			}
			m[u.String()] = u
			if o, ok := m32[u.String32()]; ok && o != u {
				r.Violation("collision:base32", fmt.Sprintf("%d and %d share the text %q", uint64(o), uint64(u), u.String32()), nil)
			}
			m32[u.String32()] = u
		}
		r.Hit("id_injective")
		r.Eval("injective:text-forms")
	}

	// invalid texts
	nInv := r.Pick(300000, 4000000)
	for i := 0; i < nInv; i++ {
		u := ids[rng.Intn(len(ids))]
		var base string
		switch rng.Intn(6) {
		case 0:
			base = u.String()
		case 1:
			base = u.UserId()
		case 2:
			base = u.String32()
		case 3:
			base = u.P2PName(ids[rng.Intn(len(ids))])
		case 4:
			js, _ := (&u).MarshalJSON()
			base = string(js)
		default:
			ln := rng.Intn(26)
			bb := make([]byte, ln)
			for j := range bb {
				bb[j] = byte(rng.Intn(96) + 32)
			}
			base = string(bb)
		}
		s := base
		for k := rng.Intn(3); k >= 0; k-- {
			s = vfC20Mutate(rng, s)
		}
		vfC20Invalid(r, s)
		if i < 8 {
			r.Sample(map[string]any{"offered": s, "ParseUid": uint64(ParseUid(s)), "ParseUserId": uint64(ParseUserId(s))})
		}
	}
	// directed: every last character for a few ids (stray bits)
	const alpha = "ABCDEFGHIJKLMNOPQRSTUVWXYZabcdefghijklmnopqrstuvwxyz0123456789-_"
	for _, u := range ids[:200] {
		s := u.String()
		if s == "" {
			continue
		}
		for i := 0; i < 64; i++ {
			vfC20Invalid(r, s[:10]+alpha[i:i+1])
			vfC20Invalid(r, "usr"+s[:10]+alpha[i:i+1])
			vfC20Invalid(r, `"`+s[:10]+alpha[i:i+1]+`"`)
		}
		p := u.P2PName(u + 1)
		if p != "" {
			for i := 0; i < 64; i++ {
				vfC20Invalid(r, p[:len(p)-1]+alpha[i:i+1])
			}
		}
		s32 := u.String32()
		for _, c := range "abcdefghijklmnopqrstuvwxyz234567" {
			vfC20Invalid(r, s32[:12]+string(c))
			vfC20Invalid(r, strings.ToUpper(s32[:12]+string(c)))
		}
	}
	r.EvalN(int64(nInv))
	r.Eval("invalid:mutated-encodings")
	r.Eval("invalid:last-character-sweep")

	// p2p names
	np := r.Pick(200000, 2000000)
	names := map[string][2]Uid{}
	for i := 0; i < np; i++ {
		a, b := ids[rng.Intn(len(ids))], ids[rng.Intn(len(ids))]
		if rng.Intn(8) == 0 {
			b = a + Uid(rng.Intn(3)) - 1 // neighbours and self
		}
		r.Hit("p2p_name")
		n1, n2 := a.P2PName(b), b.P2PName(a)
		if n1 != n2 {
			r.Violation("p2p-asymmetric", fmt.Sprintf("%d.P2PName(%d) = %q but the other side computes %q", uint64(a), uint64(b), n1, n2), nil)
			continue
		}
		if a == b || a == 0 || b == 0 {
			if n1 != "" {
				r.Violation("p2p-self-or-zero", fmt.Sprintf("P2PName(%d,%d) = %q, want none", uint64(a), uint64(b), n1), nil)
			}
			continue
		}
		if len(n1) != 25 || !strings.HasPrefix(n1, "p2p") {
			r.Violation("p2p-shape", fmt.Sprintf("P2PName(%d,%d) = %q", uint64(a), uint64(b), n1), nil)
			continue
		}
		lo, hi := a, b
		if lo > hi {
			lo, hi = hi, lo
		}
		if prev, ok := names[n1]; ok && prev != [2]Uid{lo, hi} {
			r.Violation("p2p-collision", fmt.Sprintf("pairs (%d,%d) and (%d,%d) share the name %q", uint64(prev[0]), uint64(prev[1]), uint64(lo), uint64(hi), n1), nil)
		}
		if len(names) < 400000 {
			names[n1] = [2]Uid{lo, hi}
		}
		u1, u2, err := ParseP2P(n1)
		if err != nil || u1 != lo || u2 != hi {
			r.Violation("p2p-parse", fmt.Sprintf("ParseP2P(P2PName(%d,%d)=%q) = (%d,%d,%v)", uint64(a), uint64(b), n1, uint64(u1), uint64(u2), err), nil)
		}
		fa, ea := P2PNameForUser(a, n1)
		fb, eb := P2PNameForUser(b, n1)
		if ea != nil || eb != nil || fa != b.UserId() || fb != a.UserId() {
			r.Violation("p2p-for-user", fmt.Sprintf("P2PNameForUser: %d sees %q, %d sees %q (name %q)", uint64(a), fa, uint64(b), fb, n1), nil)
		}
		// a different pair must give a different name
		c := ids[rng.Intn(len(ids))]
		if c != a && c != b && c != 0 {
			if a.P2PName(c) == n1 || c.P2PName(b) == n1 {
				r.Violation("p2p-collision", fmt.Sprintf("P2PName(%d,%d) equals a name with %d", uint64(a), uint64(b), uint64(c)), nil)
			}
		}
		if GetTopicCat(n1) != TopicCatP2P {
			r.Violation("p2p-category", fmt.Sprintf("GetTopicCat(%q) != p2p", n1), nil)
		}
	}
	r.EvalN(int64(np))
	r.Eval("p2p:pairs")
	r.Eval("p2p:neighbours-and-self")

	// grp / chn spellings
	ng := r.Pick(100000, 1000000)
	for i := 0; i < ng; i++ {
		u := ids[rng.Intn(len(ids))]
		if u.IsZero() {
			continue
		}
		var tail string
		switch rng.Intn(5) {
		case 0:
			tail = u.String()
		case 1:
			tail = "grp" + u.String() // the tail itself contains the other spelling
		case 2:
			tail = "chn" + u.String()
		case 3:
			tail = u.String()[:5] + "grpchn" + u.String()[5:]
		default:
			tail = vfC20Mutate(rng, u.String())
		}
		grp, chn := "grp"+tail, "chn"+tail
		r.Hit("grp_chn")
		if got := GrpToChn(grp); got != chn {
			r.Violation("grp-chn:GrpToChn", fmt.Sprintf("GrpToChn(%q) = %q, want %q", grp, got, chn), nil)
		}
		if got := ChnToGrp(chn); got != grp {
			r.Violation("grp-chn:ChnToGrp", fmt.Sprintf("ChnToGrp(%q) = %q, want %q", chn, got, grp), nil)
		}
		if ChnToGrp(GrpToChn(grp)) != grp || GrpToChn(ChnToGrp(chn)) != chn {
			r.Violation("grp-chn:roundtrip", fmt.Sprintf("round trip of %q / %q is lossy", grp, chn), nil)
		}
		if GrpToChn(chn) != chn || ChnToGrp(grp) != grp {
			r.Violation("grp-chn:idempotent", fmt.Sprintf("GrpToChn(%q)=%q ChnToGrp(%q)=%q", chn, GrpToChn(chn), grp, ChnToGrp(grp)), nil)
		}
		if !IsChannel(chn) || IsChannel(grp) {
			r.Violation("grp-chn:IsChannel", fmt.Sprintf("IsChannel(%q)=%v IsChannel(%q)=%v", chn, IsChannel(chn), grp, IsChannel(grp)), nil)
		}
		for _, other := range []string{"usr" + tail, "p2p" + tail, "nch" + tail, "me", "fnd", "", tail} {
			if strings.HasPrefix(other, "grp") || strings.HasPrefix(other, "chn") {
				continue
			}
			if GrpToChn(other) != "" || ChnToGrp(other) != "" || IsChannel(other) {
				r.Violation("grp-chn:foreign", fmt.Sprintf("%q converted to %q / %q", other, GrpToChn(other), ChnToGrp(other)), nil)
			}
		}
	}
	r.EvalN(int64(ng))
	r.Eval("grpchn:spellings")

	// database form used concurrently (every SQL call converts ids on its own goroutine)
	{
		var wg sync.WaitGroup
		var mu sync.Mutex
		badc := 0
		var first string
		per := r.Pick(20000, 200000)
		for g := 0; g < 16; g++ {
			wg.Add(1)
			go func(g int) {
				defer wg.Done()
				lr := rand.New(rand.NewSource(int64(g) + r.Rand(21).Int63()))
				for i := 0; i < per; i++ {
					u := Uid(lr.Uint64())
					db := ug.DecodeUid(u)
					back := ug.EncodeInt64(db)
					if back != u {
						mu.Lock()
						badc++
						if first == "" {
							first = fmt.Sprintf("goroutine %d: EncodeInt64(DecodeUid(%d)) = %d", g, uint64(u), uint64(back))
						}
						mu.Unlock()
					}
				}
			}(g)
		}
		wg.Wait()
		r.HitN("db_form_concurrent", int64(16*per))
		r.Eval("db:concurrent-16-goroutines")
		if badc > 0 {
			r.Violation("db-concurrent", fmt.Sprintf("%d of %d concurrent database round trips returned another id; first: %s", badc, 16*per, first), nil)
		}
	}
	r.Sample(map[string]any{"uid": uint64(ids[70]), "base64": ids[70].String(), "usr": ids[70].UserId(), "base32": ids[70].String32(), "db": ug.DecodeUid(ids[70]), "p2p_with_next": ids[70].P2PName(ids[71])})
}
