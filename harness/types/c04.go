//go:build verif

package types

import (
	"fmt"
	"sort"
	"testing"

	"github.com/tinode/chat/server/vfkit"
)

func vfIds(rs []Range) map[int]bool {
	ids := map[int]bool{}
	for _, r := range rs {
		if r.Hi == 0 {
			ids[r.Low] = true
			continue
		}
		for i := r.Low; i < r.Hi; i++ {
			ids[i] = true
		}
	}
	return ids
}

func vfIdList(m map[int]bool) []int {
	var out []int
	for k := range m {
		out = append(out, k)
	}
	sort.Ints(out)
	return out
}

func vfCheckNormalize(r *vfkit.R, in []Range) {
	want := vfIds(in)
	cp := append([]Range{}, in...)
	sort.Sort(RangeSorter(cp))
	out := RangeSorter(cp).Normalize()
	got := vfIds(out)
	r.Hit("normalize_union")
	same := len(want) == len(got)
	if same {
		for k := range want {
			if !got[k] {
				same = false
			}
		}
	}
	if !same {
		kind := "over"
		for k := range want {
			if !got[k] {
				kind = "under"
			}
		}
		r.Violation("normalize-union:"+kind, fmt.Sprintf("Normalize(%v) = %v covers ids %v, the listed ranges cover %v", in, []Range(out), vfIdList(got), vfIdList(want)), map[string]any{"in": in})
	}
}

// TestVfC04Norm: ids(Normalize(sort(rs))) must equal the union of the listed ranges.
func TestVfC04Norm(t *testing.T) {
	r := vfkit.New("C04")
	defer r.Finish()
	// every well-formed range over ids 1..M: singles {a} (Hi=0) and [a,b) with b>a+1 (as replyDelMsg builds them)
	M := r.Pick(8, 10)
	var all []Range
	for a := 1; a <= M; a++ {
		all = append(all, Range{Low: a})
		for b := a + 2; b <= M+1; b++ {
			all = append(all, Range{Low: a, Hi: b})
		}
	}
	n := int64(0)
	for i := range all {
		vfCheckNormalize(r, []Range{all[i]})
		n++
		for j := range all {
			vfCheckNormalize(r, []Range{all[i], all[j]})
			n++
			for k := range all {
				vfCheckNormalize(r, []Range{all[i], all[j], all[k]})
				n++
			}
		}
	}
	r.EvalN(n)
	r.Eval(fmt.Sprintf("all-lists-of-<=3-ranges-over-1..%d", M))
	rng := r.Rand(4)
	for i := 0; i < r.Pick(20000, 200000); i++ {
		k := 4 + rng.Intn(6)
		var rs []Range
		for j := 0; j < k; j++ {
			rs = append(rs, all[rng.Intn(len(all))])
		}
		vfCheckNormalize(r, rs)
	}
	r.Eval("random-lists-of-4..9-ranges")
	r.Sample(map[string]any{"in": "[1,3),[4,6)", "law": "ids(Normalize(sorted)) == union of ids"})
}
