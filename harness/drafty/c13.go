//go:build verif

package drafty

import (
	"encoding/json"
	"fmt"
	"math/rand"
	"testing"

	"github.com/tinode/chat/server/vfkit"
)

// C13 (e): arbitrary message content rendered into notification previews must never panic.

var vfTexts = []string{"", "a", "hello world", "Привет", "日本語テキスト", "👨‍👩‍👧‍👦 family", "ééé", "\u0000\u0001", " ", "line1\nline2", "🇺🇸🇩🇪", "aЖ日👍z"}

func vfNum(rng *rand.Rand, txt string) any {
	runes := len([]rune(txt))
	vals := []any{0, 1, -1, runes, runes + 1, len(txt), len(txt) + 1, len(txt) - 1, 1000000, -1000000, 1.5, "3", nil, 2147483647, runes - 1}
	return vals[rng.Intn(len(vals))]
}

func vfDoc(rng *rand.Rand) any {
	txt := vfTexts[rng.Intn(len(vfTexts))]
	tps := []any{"ST", "EM", "DL", "CO", "BR", "LN", "MN", "HT", "HD", "HL", "FM", "RW", "QQ", "IM", "EX", "BN", "", "ZZ", 5, nil, "AU", "VC", "VD"}
	var fmts []any
	for i := 0; i < rng.Intn(5); i++ {
		st := map[string]any{}
		if rng.Intn(5) > 0 {
			st["at"] = vfNum(rng, txt)
		}
		if rng.Intn(5) > 0 {
			st["len"] = vfNum(rng, txt)
		}
		if rng.Intn(2) == 0 {
			st["tp"] = tps[rng.Intn(len(tps))]
		} else {
			st["key"] = vfNum(rng, txt)
		}
		fmts = append(fmts, st)
	}
	var ents []any
	for i := 0; i < rng.Intn(4); i++ {
		switch rng.Intn(6) {
		case 0:
			ents = append(ents, nil)
		case 1:
			ents = append(ents, 5)
		default:
			ents = append(ents, map[string]any{"tp": tps[rng.Intn(len(tps))], "data": []any{
				map[string]any{"val": "x", "ref": "y", "mime": "image/png", "width": vfNum(rng, txt), "name": txt, "act": "url", "url": "http://x"},
				nil, "str", map[string]any{"val": make([]byte, 300)}, map[string]any{},
			}[rng.Intn(5)]})
		}
	}
	doc := map[string]any{}
	switch rng.Intn(10) {
	case 0:
		return txt
	case 1:
		return vfNum(rng, txt)
	case 2:
		doc["txt"] = vfNum(rng, txt)
	default:
		doc["txt"] = txt
	}
	if fmts != nil {
		doc["fmt"] = fmts
	}
	if ents != nil {
		doc["ent"] = ents
	}
	if rng.Intn(10) == 0 {
		doc["fmt"] = "junk"
	}
	if rng.Intn(10) == 0 {
		doc["ent"] = map[string]any{"a": 1}
	}
	return doc
}

func TestVfC13Drafty(t *testing.T) {
	r := vfkit.New("C13")
	defer r.Finish()
	rng := r.Rand(7)
	n := r.Pick(60000, 1000000)
	for i := 0; i < n; i++ {
		doc := vfDoc(rng)
		// as it arrives from the wire
		b, _ := json.Marshal(doc)
		var content any
		json.Unmarshal(b, &content)
		func() {
			defer func() {
				if p := recover(); p != nil {
					r.Violation("drafty-panic", fmt.Sprintf("rendering message content panicked: %v", p), map[string]any{"content": string(b)})
				}
			}()
			r.Hit("drafty_render")
			PlainText(content)
			Preview(content, []int{0, 1, 5, 80, 1000}[rng.Intn(5)])
		}()
		if r.NViolations() > 10 {
			break
		}
	}
	r.EvalN(int64(n))
	r.Eval("drafty-docs")
	r.Eval("drafty-preview-lengths")
	r.Sample(map[string]any{"content": vfDoc(rng)})
}
