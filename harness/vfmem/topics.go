//go:build verif

package vfmem

import (
	"bytes"
	"encoding/gob"
	"encoding/json"
	"errors"
	"sort"
	"time"

	"github.com/tinode/chat/server/db/common"
	t "github.com/tinode/chat/server/store/types"
)

// ---- Topics

func (a *Adapter) topicCreateLocked(topic *t.Topic) error {
	db := a.db
	if _, ok := db.Topics[topic.Id]; ok {
		return errors.New("vfmem: duplicate topic name")
	}
	if hasDup(topic.Tags) {
		return t.ErrDuplicate
	}
	db.Topics[topic.Id] = &TopicRow{
		CreatedAt: topic.CreatedAt, UpdatedAt: topic.UpdatedAt, TouchedAt: topic.TouchedAt, State: topic.State,
		Name: topic.Id, UseBt: topic.UseBt, Owner: t.ParseUid(topic.Owner), Access: topic.Access,
		Public: toJSON(topic.Public), Trusted: toJSON(topic.Trusted), Tags: cpStrs(topic.Tags)}
	return nil
}

func (a *Adapter) TopicCreate(topic *t.Topic) error {
	c := a.begin("TopicCreate", topic.Id, t.ParseUid(topic.Owner), nil)
	if c.Err != nil {
		return a.endInjected(c)
	}
	a.mu.Lock()
	defer a.mu.Unlock()
	err := a.topicCreateLocked(topic)
	a.endLocked(c, err)
	return err
}

// createSubscriptionLocked mirrors createSubscription of the MySQL adapter.
func (a *Adapter) createSubscriptionLocked(sub *t.Subscription, undelete bool) error {
	db := a.db
	uid := t.ParseUid(sub.User)
	if db.Users[uid] == nil {
		return errors.New("vfmem: foreign key: no such user")
	}
	isOwner := (sub.ModeGiven & sub.ModeWant).IsOwner()
	if row := db.findSub(sub.Topic, uid); row != nil {
		row.CreatedAt, row.UpdatedAt, row.DeletedAt = sub.CreatedAt, sub.UpdatedAt, nil
		row.ModeWant, row.ModeGiven = sub.ModeWant, sub.ModeGiven
		row.DelId, row.RecvSeqId, row.ReadSeqId = 0, 0, 0
		if !undelete {
			row.Private = toJSON(sub.Private)
		}
	} else {
		db.Ins++
		db.Subs = append(db.Subs, &SubRow{Ins: db.Ins, CreatedAt: sub.CreatedAt, UpdatedAt: sub.UpdatedAt,
			User: uid, Topic: sub.Topic, ModeWant: sub.ModeWant, ModeGiven: sub.ModeGiven, Private: toJSON(sub.Private)})
	}
	if isOwner {
		if tr := db.Topics[sub.Topic]; tr != nil {
			tr.Owner = uid
		}
	}
	return nil
}

func (a *Adapter) cloneDBLocked() []byte { return SnapshotLocked(a.db) }

func (a *Adapter) restoreLocked(b []byte) {
	db := newDB()
	gob.NewDecoder(bytes.NewReader(b)).Decode(db)
	if db.Users == nil {
		db.Users = map[t.Uid]*UserRow{}
	}
	if db.Topics == nil {
		db.Topics = map[string]*TopicRow{}
	}
	if db.Msgs == nil {
		db.Msgs = map[string][]*MsgRow{}
	}
	if db.Files == nil {
		db.Files = map[t.Uid]*FileRow{}
	}
	if db.PCache == nil {
		db.PCache = map[string]PCRow{}
	}
	a.db = db
}

func (a *Adapter) TopicCreateP2P(initiator, invited *t.Subscription) error {
	c := a.begin("TopicCreateP2P", initiator.Topic, t.ParseUid(initiator.User), map[string]any{"invited": invited.User})
	if c.Err != nil {
		return a.endInjected(c)
	}
	a.mu.Lock()
	defer a.mu.Unlock()
	// transactional: validate first so that nothing is written on failure.
	err := func() error {
		if a.db.Users[t.ParseUid(initiator.User)] == nil || a.db.Users[t.ParseUid(invited.User)] == nil {
			return errors.New("vfmem: foreign key: no such user")
		}
		if _, ok := a.db.Topics[initiator.Topic]; ok {
			return errors.New("vfmem: duplicate topic name")
		}
		if err := a.createSubscriptionLocked(initiator, false); err != nil {
			return err
		}
		if err := a.createSubscriptionLocked(invited, true); err != nil {
			return err
		}
		topic := &t.Topic{ObjHeader: t.ObjHeader{Id: initiator.Topic}}
		topic.ObjHeader.MergeTimes(&initiator.ObjHeader)
		topic.TouchedAt = initiator.GetTouchedAt()
		return a.topicCreateLocked(topic)
	}()
	a.endLocked(c, err)
	return err
}

func (a *Adapter) TopicGet(topic string) (*t.Topic, error) {
	c := a.begin("TopicGet", topic, 0, nil)
	if c.Err != nil {
		return nil, a.endInjected(c)
	}
	a.mu.Lock()
	defer a.mu.Unlock()
	var out *t.Topic
	if tr := a.db.Topics[topic]; tr != nil {
		out = tr.toTopic()
	}
	a.endLocked(c, nil)
	return out, nil
}

func (a *Adapter) TopicsForUser(uid t.Uid, keepDeleted bool, opts *t.QueryOpt) ([]t.Subscription, error) {
	c := a.begin("TopicsForUser", "", uid, map[string]any{"keepDeleted": keepDeleted})
	if c.Err != nil {
		return nil, a.endInjected(c)
	}
	a.mu.Lock()
	defer a.mu.Unlock()
	db := a.db
	limit := 0
	ims := time.Time{}
	topicFilter := ""
	if opts != nil {
		topicFilter = opts.Topic
		if opts.IfModifiedSince == nil {
			if opts.Limit > 0 && opts.Limit < a.maxRes() {
				limit = opts.Limit
			} else {
				limit = a.maxRes()
			}
		} else {
			ims = *opts.IfModifiedSince
		}
	} else {
		limit = a.maxRes()
	}

	type joined struct {
		sub   t.Subscription
		isP2P bool
		other t.Uid
		keep  bool
	}
	var order []string
	join := map[string]*joined{}
	n := 0
	for _, s := range db.SubsOfUser(uid) {
		if !keepDeleted && s.DeletedAt != nil {
			continue
		}
		if topicFilter != "" && s.Topic != topicFilter {
			continue
		}
		if limit > 0 && n >= limit {
			break
		}
		n++
		tname := s.Topic
		tcat := t.GetTopicCat(tname)
		if tcat == t.TopicCatMe || tcat == t.TopicCatFnd {
			continue
		}
		sub := s.toSub(true)
		j := &joined{}
		if tcat == t.TopicCatP2P {
			uid1, uid2, _ := t.ParseP2P(tname)
			if uid1 == uid {
				j.other = uid2
			} else {
				j.other = uid1
			}
			sub.SetWith(j.other.UserId())
			j.isP2P = true
		} else if tcat == t.TopicCatGrp {
			tname = t.ChnToGrp(tname)
			if tname == "" {
				tname = s.Topic
			}
		}
		j.sub = sub
		if _, ok := join[tname]; !ok {
			order = append(order, tname)
		}
		join[tname] = j
	}

	for _, tname := range order {
		j := join[tname]
		tr := db.Topics[tname]
		if tr == nil || (!keepDeleted && tr.State == t.StateDeleted) {
			continue
		}
		if !ims.IsZero() && !tr.TouchedAt.After(ims) {
			continue
		}
		sub := &j.sub
		sub.UpdatedAt = common.SelectLatestTime(sub.UpdatedAt, tr.UpdatedAt)
		sub.SetState(tr.State)
		sub.SetTouchedAt(tr.TouchedAt)
		sub.SetSeqId(tr.SeqId)
		if t.GetTopicCat(sub.Topic) == t.TopicCatGrp {
			sub.SetPublic(fromJSON(tr.Public))
			sub.SetTrusted(fromJSON(tr.Trusted))
		}
	}
	for _, tname := range order {
		j := join[tname]
		if !j.isP2P {
			continue
		}
		u := db.Users[j.other]
		if u == nil || (!keepDeleted && u.State == t.StateDeleted) {
			continue
		}
		sub := &j.sub
		sub.UpdatedAt = common.SelectLatestTime(sub.UpdatedAt, u.UpdatedAt)
		sub.SetState(u.State)
		sub.SetPublic(fromJSON(u.Public))
		sub.SetTrusted(fromJSON(u.Trusted))
		sub.SetDefaultAccess(u.Access.Auth, u.Access.Anon)
		sub.SetLastSeenAndUA(u.LastSeen, u.UserAgent)
	}
	subs := make([]t.Subscription, 0, len(order))
	for _, tname := range order {
		subs = append(subs, join[tname].sub)
	}
	var out []t.Subscription
	if len(subs) > 0 {
		out = common.SelectEarliestUpdatedSubs(subs, opts, a.maxRes())
	}
	a.endLocked(c, nil)
	return out, nil
}

func (a *Adapter) UsersForTopic(topic string, keepDeleted bool, opts *t.QueryOpt) ([]t.Subscription, error) {
	c := a.begin("UsersForTopic", topic, 0, map[string]any{"keepDeleted": keepDeleted})
	if c.Err != nil {
		return nil, a.endInjected(c)
	}
	a.mu.Lock()
	defer a.mu.Unlock()
	db := a.db
	tcat := t.GetTopicCat(topic)
	limit := a.maxRes()
	var oneUser t.Uid
	if opts != nil {
		if !opts.User.IsZero() {
			oneUser = opts.User
		}
		if opts.Limit > 0 && opts.Limit < limit {
			limit = opts.Limit
		}
	}
	var subs []t.Subscription
	for _, s := range db.SubsOf(topic) {
		u := db.Users[s.User]
		if u == nil {
			continue
		}
		if !keepDeleted {
			if u.State == t.StateDeleted {
				continue
			}
			if tcat != t.TopicCatP2P && s.DeletedAt != nil {
				continue
			}
		}
		if !oneUser.IsZero() && tcat != t.TopicCatP2P && s.User != oneUser {
			continue
		}
		if len(subs) >= limit {
			break
		}
		sub := s.toSub(true)
		sub.SetPublic(fromJSON(u.Public))
		sub.SetTrusted(fromJSON(u.Trusted))
		sub.SetLastSeenAndUA(u.LastSeen, u.UserAgent)
		subs = append(subs, sub)
	}
	if tcat == t.TopicCatP2P && len(subs) > 0 {
		if len(subs) == 1 {
			subs[0].SetPublic(nil)
			subs[0].SetTrusted(nil)
			subs[0].SetLastSeenAndUA(nil, "")
		} else {
			tmp := subs[0].GetPublic()
			subs[0].SetPublic(subs[1].GetPublic())
			subs[1].SetPublic(tmp)
			tmp = subs[0].GetTrusted()
			subs[0].SetTrusted(subs[1].GetTrusted())
			subs[1].SetTrusted(tmp)
			ls, ua := subs[0].GetLastSeen(), subs[0].GetUserAgent()
			subs[0].SetLastSeenAndUA(subs[1].GetLastSeen(), subs[1].GetUserAgent())
			subs[1].SetLastSeenAndUA(ls, ua)
		}
		if !keepDeleted || !oneUser.IsZero() {
			var xsubs []t.Subscription
			for i := range subs {
				if (subs[i].DeletedAt != nil && !keepDeleted) || (!oneUser.IsZero() && subs[i].Uid() != oneUser) {
					continue
				}
				xsubs = append(xsubs, subs[i])
			}
			subs = xsubs
		}
	}
	a.endLocked(c, nil)
	return subs, nil
}

func (a *Adapter) OwnTopics(uid t.Uid) ([]string, error) {
	c := a.begin("OwnTopics", "", uid, nil)
	if c.Err != nil {
		return nil, a.endInjected(c)
	}
	a.mu.Lock()
	defer a.mu.Unlock()
	var names []string
	for name, tr := range a.db.Topics {
		if tr.Owner == uid {
			names = append(names, name)
		}
	}
	sort.Strings(names)
	a.endLocked(c, nil)
	return names, nil
}

func (a *Adapter) ChannelsForUser(uid t.Uid) ([]string, error) {
	c := a.begin("ChannelsForUser", "", uid, nil)
	if c.Err != nil {
		return nil, a.endInjected(c)
	}
	a.mu.Lock()
	defer a.mu.Unlock()
	var names []string
	for _, s := range a.db.SubsOfUser(uid) {
		if len(s.Topic) > 3 && s.Topic[:3] == "chn" && s.DeletedAt == nil &&
			s.ModeWant.IsPresencer() && s.ModeGiven.IsPresencer() {
			names = append(names, s.Topic)
		}
	}
	a.endLocked(c, nil)
	return names, nil
}

func (a *Adapter) TopicShare(shares []*t.Subscription) error {
	topic := ""
	var uid t.Uid
	if len(shares) > 0 {
		topic = shares[0].Topic
		uid = t.ParseUid(shares[0].User)
	}
	c := a.begin("TopicShare", topic, uid, map[string]any{"n": len(shares)})
	if c.Err != nil {
		return a.endInjected(c)
	}
	a.mu.Lock()
	defer a.mu.Unlock()
	err := func() error {
		for _, sub := range shares {
			if a.db.Users[t.ParseUid(sub.User)] == nil {
				return errors.New("vfmem: foreign key: no such user")
			}
		}
		for _, sub := range shares {
			if err := a.createSubscriptionLocked(sub, true); err != nil {
				return err
			}
		}
		return nil
	}()
	a.endLocked(c, err)
	return err
}

func (a *Adapter) TopicDelete(topic string, isChan, hard bool) error {
	c := a.begin("TopicDelete", topic, 0, map[string]any{"isChan": isChan, "hard": hard})
	if c.Err != nil {
		return a.endInjected(c)
	}
	a.mu.Lock()
	defer a.mu.Unlock()
	db := a.db
	names := map[string]bool{topic: true}
	if isChan {
		names[t.GrpToChn(topic)] = true
	}
	if hard {
		var subs []*SubRow
		for _, s := range db.Subs {
			if !names[s.Topic] {
				subs = append(subs, s)
			}
		}
		db.Subs = subs
		a.deleteMessagesLocked(topic)
		a.dropLinks(func(l *LinkRow) bool { return l.Topic == topic })
		delete(db.Topics, topic)
	} else {
		now := a.now()
		for _, s := range db.Subs {
			if names[s.Topic] {
				s.UpdatedAt = now
				s.DeletedAt = cpTime(&now)
			}
		}
		if tr := db.Topics[topic]; tr != nil {
			tr.UpdatedAt, tr.TouchedAt, tr.State, tr.StateAt = now, now, t.StateDeleted, cpTime(&now)
		}
	}
	a.endLocked(c, nil)
	return nil
}

func (a *Adapter) TopicUpdateOnMessage(topic string, msg *t.Message) error {
	c := a.begin("TopicUpdateOnMessage", topic, t.ParseUid(msg.From), nil)
	c.Seq = msg.SeqId
	if c.Err != nil {
		return a.endInjected(c)
	}
	a.mu.Lock()
	defer a.mu.Unlock()
	if tr := a.db.Topics[topic]; tr != nil {
		tr.SeqId = msg.SeqId
		tr.TouchedAt = msg.CreatedAt
	}
	a.endLocked(c, nil)
	return nil
}

func (a *Adapter) TopicUpdate(topic string, update map[string]any) error {
	c := a.begin("TopicUpdate", topic, 0, map[string]any{"update": update})
	if c.Err != nil {
		return a.endInjected(c)
	}
	a.mu.Lock()
	defer a.mu.Unlock()
	err := func() error {
		if tt, u := update["TouchedAt"], update["UpdatedAt"]; tt == nil && u != nil {
			update["TouchedAt"] = u
		}
		tr := a.db.Topics[topic]
		if tr == nil {
			return nil
		}
		if tags := extractTags(update); tags != nil && hasDup(tags) {
			return t.ErrDuplicate
		}
		cp := *tr
		if err := applyUpdate(&cp, update); err != nil {
			return err
		}
		*tr = cp
		return nil
	}()
	a.endLocked(c, err)
	return err
}

func (a *Adapter) TopicOwnerChange(topic string, newOwner t.Uid) error {
	c := a.begin("TopicOwnerChange", topic, newOwner, nil)
	if c.Err != nil {
		return a.endInjected(c)
	}
	a.mu.Lock()
	defer a.mu.Unlock()
	if tr := a.db.Topics[topic]; tr != nil {
		tr.Owner = newOwner
	}
	a.endLocked(c, nil)
	return nil
}

// ---- Subscriptions

func (a *Adapter) SubscriptionGet(topic string, user t.Uid, keepDeleted bool) (*t.Subscription, error) {
	c := a.begin("SubscriptionGet", topic, user, nil)
	if c.Err != nil {
		return nil, a.endInjected(c)
	}
	a.mu.Lock()
	defer a.mu.Unlock()
	var out *t.Subscription
	if s := a.db.findSub(topic, user); s != nil && (keepDeleted || s.DeletedAt == nil) {
		sub := s.toSub(true)
		out = &sub
	}
	a.endLocked(c, nil)
	return out, nil
}

func (a *Adapter) SubsForUser(user t.Uid) ([]t.Subscription, error) {
	c := a.begin("SubsForUser", "", user, nil)
	if c.Err != nil {
		return nil, a.endInjected(c)
	}
	a.mu.Lock()
	defer a.mu.Unlock()
	var subs []t.Subscription
	for _, s := range a.db.SubsOfUser(user) {
		if s.DeletedAt == nil {
			subs = append(subs, s.toSub(false))
		}
	}
	a.endLocked(c, nil)
	return subs, nil
}

func (a *Adapter) SubsForTopic(topic string, keepDeleted bool, opts *t.QueryOpt) ([]t.Subscription, error) {
	c := a.begin("SubsForTopic", topic, 0, map[string]any{"keepDeleted": keepDeleted})
	if c.Err != nil {
		return nil, a.endInjected(c)
	}
	a.mu.Lock()
	defer a.mu.Unlock()
	limit := a.maxRes()
	var oneUser t.Uid
	if opts != nil {
		oneUser = opts.User
		if opts.Limit > 0 && opts.Limit < limit {
			limit = opts.Limit
		}
	}
	var subs []t.Subscription
	for _, s := range a.db.SubsOf(topic) {
		if !keepDeleted && s.DeletedAt != nil {
			continue
		}
		if !oneUser.IsZero() && s.User != oneUser {
			continue
		}
		if len(subs) >= limit {
			break
		}
		subs = append(subs, s.toSub(true))
	}
	a.endLocked(c, nil)
	return subs, nil
}

func (a *Adapter) SubsUpdate(topic string, user t.Uid, update map[string]any) error {
	c := a.begin("SubsUpdate", topic, user, map[string]any{"update": update})
	if c.Err != nil {
		return a.endInjected(c)
	}
	a.mu.Lock()
	defer a.mu.Unlock()
	err := func() error {
		var rows []*SubRow
		for _, s := range a.db.SubsOf(topic) {
			if user.IsZero() || s.User == user {
				rows = append(rows, s)
			}
		}
		cps := make([]SubRow, len(rows))
		for i, s := range rows {
			cps[i] = *s
			if err := applyUpdate(&cps[i], update); err != nil {
				return err
			}
		}
		for i, s := range rows {
			*s = cps[i]
		}
		return nil
	}()
	a.endLocked(c, err)
	return err
}

func (a *Adapter) SubsDelete(topic string, user t.Uid) error {
	c := a.begin("SubsDelete", topic, user, nil)
	if c.Err != nil {
		return a.endInjected(c)
	}
	a.mu.Lock()
	defer a.mu.Unlock()
	var err error
	if s := a.db.findSub(topic, user); s == nil || s.DeletedAt != nil {
		err = t.ErrNotFound
	} else {
		now := a.now()
		s.UpdatedAt = now
		s.DeletedAt = cpTime(&now)
		var dl []*DelRow
		for _, d := range a.db.DelLog {
			if !(d.Topic == topic && d.DeletedFor == user) {
				dl = append(dl, d)
			}
		}
		a.db.DelLog = dl
	}
	a.endLocked(c, err)
	return err
}

// ---- Search

func matchTags(have []string, req [][]string, opt []string) (int, []string) {
	index := map[string]bool{}
	for _, g := range req {
		for _, x := range g {
			index[x] = true
		}
	}
	for _, x := range opt {
		index[x] = true
	}
	n := 0
	var found []string
	for _, tag := range have {
		if index[tag] {
			n++
			found = append(found, tag)
		}
	}
	if n == 0 {
		return 0, nil
	}
	for _, g := range req {
		if len(g) == 0 {
			continue
		}
		ok := false
		for _, x := range g {
			for _, tag := range have {
				if tag == x {
					ok = true
				}
			}
		}
		if !ok {
			return 0, nil
		}
	}
	if found == nil {
		found = []string{}
	}
	return n, found
}

func (a *Adapter) FindUsers(user t.Uid, req [][]string, opt []string, activeOnly bool) ([]t.Subscription, error) {
	c := a.begin("FindUsers", "", user, map[string]any{"req": req, "opt": opt, "activeOnly": activeOnly})
	if c.Err != nil {
		return nil, a.endInjected(c)
	}
	a.mu.Lock()
	defer a.mu.Unlock()
	type hit struct {
		n   int
		sub t.Subscription
	}
	var hits []hit
	for _, id := range sortedUids(a.db.Users) {
		u := a.db.Users[id]
		if activeOnly && u.State != t.StateOK {
			continue
		}
		n, found := matchTags(u.Tags, req, opt)
		if n == 0 {
			continue
		}
		var sub t.Subscription
		sub.CreatedAt, sub.UpdatedAt = u.CreatedAt, u.UpdatedAt
		sub.User = id.String()
		sub.SetPublic(fromJSON(u.Public))
		sub.SetTrusted(fromJSON(u.Trusted))
		sub.SetDefaultAccess(u.Access.Auth, u.Access.Anon)
		sub.Private = found
		hits = append(hits, hit{n, sub})
	}
	sort.SliceStable(hits, func(i, j int) bool { return hits[i].n > hits[j].n })
	var subs []t.Subscription
	for i, h := range hits {
		if i >= a.maxRes() {
			break
		}
		if h.sub.User == user.String() {
			continue
		}
		subs = append(subs, h.sub)
	}
	a.endLocked(c, nil)
	return subs, nil
}

func (a *Adapter) FindTopics(req [][]string, opt []string, activeOnly bool) ([]t.Subscription, error) {
	c := a.begin("FindTopics", "", 0, map[string]any{"req": req, "opt": opt, "activeOnly": activeOnly})
	if c.Err != nil {
		return nil, a.endInjected(c)
	}
	a.mu.Lock()
	defer a.mu.Unlock()
	type hit struct {
		n   int
		sub t.Subscription
	}
	var names []string
	for name := range a.db.Topics {
		names = append(names, name)
	}
	sort.Strings(names)
	var hits []hit
	for _, name := range names {
		tr := a.db.Topics[name]
		if activeOnly && tr.State != t.StateOK {
			continue
		}
		n, found := matchTags(tr.Tags, req, opt)
		if n == 0 {
			continue
		}
		var sub t.Subscription
		sub.CreatedAt, sub.UpdatedAt = tr.CreatedAt, tr.UpdatedAt
		sub.Topic = name
		if tr.UseBt {
			sub.Topic = t.GrpToChn(name)
		}
		sub.SetPublic(fromJSON(tr.Public))
		sub.SetTrusted(fromJSON(tr.Trusted))
		sub.SetDefaultAccess(tr.Access.Auth, tr.Access.Anon)
		sub.Private = found
		hits = append(hits, hit{n, sub})
	}
	sort.SliceStable(hits, func(i, j int) bool { return hits[i].n > hits[j].n })
	var subs []t.Subscription
	for i, h := range hits {
		if i >= a.maxRes() {
			break
		}
		subs = append(subs, h.sub)
	}
	a.endLocked(c, nil)
	return subs, nil
}

// ---- Messages

func (a *Adapter) MessageSave(msg *t.Message) error {
	c := a.begin("MessageSave", msg.Topic, t.ParseUid(msg.From), nil)
	c.Seq = msg.SeqId
	if c.Err != nil {
		return a.endInjected(c)
	}
	a.mu.Lock()
	defer a.mu.Unlock()
	db := a.db
	err := func() error {
		if db.Topics[msg.Topic] == nil {
			return errors.New("vfmem: foreign key: no such topic")
		}
		for _, m := range db.Msgs[msg.Topic] {
			if m.SeqId == msg.SeqId {
				return errors.New("vfmem: Error 1062: Duplicate entry for key 'messages_topic_seqid'")
			}
		}
		db.MsgAuto++
		var head json.RawMessage
		if msg.Head != nil {
			head, _ = json.Marshal(msg.Head)
		}
		row := &MsgRow{Id: db.MsgAuto, CreatedAt: msg.CreatedAt, UpdatedAt: msg.UpdatedAt, SeqId: msg.SeqId,
			Topic: msg.Topic, From: t.ParseUid(msg.From), Head: head, Content: toJSON(msg.Content)}
		rows := append(db.Msgs[msg.Topic], row)
		sort.SliceStable(rows, func(i, j int) bool { return rows[i].SeqId < rows[j].SeqId })
		db.Msgs[msg.Topic] = rows
		msg.SetUid(t.Uid(row.Id))
		return nil
	}()
	a.endLocked(c, err)
	return err
}

func softDeletedFor(db *DB, topic string, user t.Uid, seq int) bool {
	for _, d := range db.DelLog {
		if d.Topic == topic && d.DeletedFor == user && !user.IsZero() && d.Low <= seq && seq < d.Hi {
			return true
		}
	}
	return false
}

func (a *Adapter) MessageGetAll(topic string, forUser t.Uid, opts *t.QueryOpt) ([]t.Message, error) {
	c := a.begin("MessageGetAll", topic, forUser, map[string]any{"opts": opts})
	if c.Err != nil {
		return nil, a.endInjected(c)
	}
	a.mu.Lock()
	defer a.mu.Unlock()
	limit := 100
	lower, upper := 0, 1<<31-1
	if opts != nil {
		if opts.Since > 0 {
			lower = opts.Since
		}
		if opts.Before > 0 {
			upper = opts.Before - 1
		}
		if opts.Limit > 0 && opts.Limit < limit {
			limit = opts.Limit
		}
	}
	rows := a.db.Msgs[topic]
	msgs := make([]t.Message, 0, limit)
	for i := len(rows) - 1; i >= 0 && len(msgs) < limit; i-- {
		m := rows[i]
		if m.DelId != 0 || m.SeqId < lower || m.SeqId > upper {
			continue
		}
		if softDeletedFor(a.db, topic, forUser, m.SeqId) {
			continue
		}
		msgs = append(msgs, m.toMsg())
	}
	a.endLocked(c, nil)
	return msgs, nil
}

func (a *Adapter) MessageDeleteList(topic string, toDel *t.DelMessage) error {
	args := map[string]any{}
	if toDel != nil {
		args["delid"] = toDel.DelId
		args["for"] = toDel.DeletedFor
		args["ranges"] = toDel.SeqIdRanges
	}
	c := a.begin("MessageDeleteList", topic, 0, args)
	if c.Err != nil {
		return a.endInjected(c)
	}
	a.mu.Lock()
	defer a.mu.Unlock()
	db := a.db
	var err error
	if toDel == nil {
		a.deleteMessagesLocked(topic)
	} else if db.Topics[topic] == nil {
		err = errors.New("vfmem: foreign key: no such topic")
	} else {
		forUser := t.ParseUid(toDel.DeletedFor)
		for _, rng := range toDel.SeqIdRanges {
			if rng.Hi == 0 {
				rng.Hi = rng.Low + 1
			}
			db.DelLog = append(db.DelLog, &DelRow{Topic: topic, DeletedFor: forUser, DelId: toDel.DelId, Low: rng.Low, Hi: rng.Hi})
		}
		if toDel.DeletedFor == "" {
			now := a.now()
			ids := map[int64]bool{}
			for _, m := range db.Msgs[topic] {
				if m.DeletedAt != nil {
					continue
				}
				in := false
				for _, r := range toDel.SeqIdRanges {
					hi := r.Hi
					if hi == 0 {
						hi = r.Low + 1
					}
					if r.Low <= m.SeqId && m.SeqId < hi {
						in = true
					}
				}
				if in {
					m.DeletedAt = cpTime(&now)
					m.DelId = toDel.DelId
					m.Head, m.Content = nil, nil
					ids[m.Id] = true
				}
			}
			a.dropLinks(func(l *LinkRow) bool { return l.MsgId != 0 && ids[l.MsgId] })
		}
	}
	a.endLocked(c, err)
	return err
}

func (a *Adapter) MessageGetDeleted(topic string, forUser t.Uid, opts *t.QueryOpt) ([]t.DelMessage, error) {
	c := a.begin("MessageGetDeleted", topic, forUser, map[string]any{"opts": opts})
	if c.Err != nil {
		return nil, a.endInjected(c)
	}
	a.mu.Lock()
	defer a.mu.Unlock()
	limit := a.maxRes()
	lower, upper := 0, 1<<31-1
	if opts != nil {
		if opts.Since > 0 {
			lower = opts.Since
		}
		if opts.Before > 1 {
			upper = opts.Before - 1
		}
		if opts.Limit > 0 && opts.Limit < limit {
			limit = opts.Limit
		}
	}
	var rows []*DelRow
	for _, d := range a.db.DelLog {
		if d.Topic == topic && d.DelId >= lower && d.DelId <= upper && (d.DeletedFor.IsZero() || d.DeletedFor == forUser) {
			rows = append(rows, d)
		}
	}
	sort.SliceStable(rows, func(i, j int) bool { return rows[i].DelId < rows[j].DelId })
	if len(rows) > limit {
		rows = rows[:limit]
	}
	var dmsgs []t.DelMessage
	var dmsg t.DelMessage
	for _, d := range rows {
		if d.DelId != dmsg.DelId {
			if dmsg.DelId > 0 {
				dmsgs = append(dmsgs, dmsg)
			}
			dmsg.DelId = d.DelId
			dmsg.Topic = d.Topic
			if !d.DeletedFor.IsZero() {
				dmsg.DeletedFor = d.DeletedFor.String()
			} else {
				dmsg.DeletedFor = ""
			}
			dmsg.SeqIdRanges = nil
		}
		hi := d.Hi
		if hi <= d.Low+1 {
			hi = 0
		}
		dmsg.SeqIdRanges = append(dmsg.SeqIdRanges, t.Range{Low: d.Low, Hi: hi})
	}
	if dmsg.DelId > 0 {
		dmsgs = append(dmsgs, dmsg)
	}
	a.endLocked(c, nil)
	return dmsgs, nil
}

// ---- Files

func (a *Adapter) FileStartUpload(fd *t.FileDef) error {
	c := a.begin("FileStartUpload", "", t.ParseUid(fd.User), map[string]any{"id": fd.Id})
	if c.Err != nil {
		return a.endInjected(c)
	}
	a.mu.Lock()
	defer a.mu.Unlock()
	var err error
	if _, ok := a.db.Files[fd.Uid()]; ok {
		err = errors.New("vfmem: duplicate file id")
	} else {
		a.db.Files[fd.Uid()] = &FileRow{Id: fd.Uid(), CreatedAt: fd.CreatedAt, UpdatedAt: fd.UpdatedAt,
			User: t.ParseUid(fd.User), Status: fd.Status, MimeType: fd.MimeType, Size: fd.Size, Location: fd.Location}
	}
	a.endLocked(c, err)
	return err
}

func (a *Adapter) FileFinishUpload(fd *t.FileDef, success bool, size int64) (*t.FileDef, error) {
	c := a.begin("FileFinishUpload", "", 0, map[string]any{"id": fd.Id, "success": success, "size": size})
	if c.Err != nil {
		return nil, a.endInjected(c)
	}
	a.mu.Lock()
	defer a.mu.Unlock()
	now := a.now()
	if success {
		if r := a.db.Files[fd.Uid()]; r != nil {
			r.UpdatedAt, r.Status, r.Size = now, t.UploadCompleted, size
		}
		fd.Status = t.UploadCompleted
		fd.Size = size
	} else {
		id := fd.Uid()
		delete(a.db.Files, id)
		a.dropLinks(func(l *LinkRow) bool { return l.File == id })
		fd.Status = t.UploadFailed
		fd.Size = 0
	}
	fd.UpdatedAt = now
	a.endLocked(c, nil)
	return fd, nil
}

func (a *Adapter) FileGet(fid string) (*t.FileDef, error) {
	id := t.ParseUid(fid)
	if id.IsZero() {
		return nil, t.ErrMalformed
	}
	c := a.begin("FileGet", "", 0, map[string]any{"id": fid})
	if c.Err != nil {
		return nil, a.endInjected(c)
	}
	a.mu.Lock()
	defer a.mu.Unlock()
	var out *t.FileDef
	if r := a.db.Files[id]; r != nil {
		out = &t.FileDef{Status: r.Status, User: r.User.String(), MimeType: r.MimeType, Size: r.Size, Location: r.Location}
		out.SetUid(r.Id)
		out.CreatedAt, out.UpdatedAt = r.CreatedAt, r.UpdatedAt
	}
	a.endLocked(c, nil)
	return out, nil
}

func (a *Adapter) FileDeleteUnused(olderThan time.Time, limit int) ([]string, error) {
	c := a.begin("FileDeleteUnused", "", 0, map[string]any{"olderThan": olderThan, "limit": limit})
	if c.Err != nil {
		return nil, a.endInjected(c)
	}
	a.mu.Lock()
	defer a.mu.Unlock()
	linked := map[t.Uid]bool{}
	for _, l := range a.db.Links {
		linked[l.File] = true
	}
	var ids []t.Uid
	for id := range a.db.Files {
		ids = append(ids, id)
	}
	sort.Slice(ids, func(i, j int) bool { return ids[i] < ids[j] })
	var locations []string
	var deleted []string
	n := 0
	for _, id := range ids {
		r := a.db.Files[id]
		if linked[id] {
			continue
		}
		if !olderThan.IsZero() && !r.UpdatedAt.Before(olderThan) {
			continue
		}
		if limit > 0 && n >= limit {
			break
		}
		n++
		if r.Location != "" {
			locations = append(locations, r.Location)
		}
		deleted = append(deleted, id.String())
		delete(a.db.Files, id)
	}
	c.Args["deleted"] = deleted
	a.endLocked(c, nil)
	return locations, nil
}

func (a *Adapter) FileLinkAttachments(topic string, userId, msgId t.Uid, fids []string) error {
	if len(fids) == 0 || (topic == "" && msgId.IsZero() && userId.IsZero()) {
		return t.ErrMalformed
	}
	if msgId.IsZero() {
		fids = fids[0:1]
	}
	var dids []t.Uid
	for _, fid := range fids {
		id := t.ParseUid(fid)
		if id.IsZero() {
			return t.ErrMalformed
		}
		dids = append(dids, id)
	}
	c := a.begin("FileLinkAttachments", topic, userId, map[string]any{"msgId": int64(msgId), "fids": fids})
	if c.Err != nil {
		return a.endInjected(c)
	}
	a.mu.Lock()
	defer a.mu.Unlock()
	db := a.db
	err := func() error {
		for _, id := range dids {
			if db.Files[id] == nil {
				return errors.New("vfmem: foreign key: no such file")
			}
		}
		if !msgId.IsZero() {
			found := false
			for _, rows := range db.Msgs {
				for _, m := range rows {
					if m.Id == int64(msgId) {
						found = true
					}
				}
			}
			if !found {
				return errors.New("vfmem: foreign key: no such message")
			}
		} else if topic != "" {
			if db.Topics[topic] == nil {
				return errors.New("vfmem: foreign key: no such topic")
			}
			a.dropLinks(func(l *LinkRow) bool { return l.Topic == topic })
		} else {
			if db.Users[userId] == nil {
				return errors.New("vfmem: foreign key: no such user")
			}
			a.dropLinks(func(l *LinkRow) bool { return l.User == userId && l.MsgId == 0 && l.Topic == "" })
		}
		now := a.now()
		for _, id := range dids {
			l := &LinkRow{CreatedAt: now, File: id}
			if !msgId.IsZero() {
				l.MsgId = int64(msgId)
			} else if topic != "" {
				l.Topic = topic
			} else {
				l.User = userId
			}
			db.Links = append(db.Links, l)
		}
		return nil
	}()
	a.endLocked(c, err)
	return err
}
