//go:build verif

package vfmem

import (
	"encoding/json"
	"errors"
	"sort"
	"time"

	"github.com/tinode/chat/server/auth"
	t "github.com/tinode/chat/server/store/types"
)

// ---- General

func (a *Adapter) Open(config json.RawMessage) error {
	a.mu.Lock()
	defer a.mu.Unlock()
	if a.open {
		return errors.New("vfmem adapter is already connected")
	}
	if a.db.Version == 0 {
		a.createDbLocked()
	}
	a.open = true
	return nil
}

func (a *Adapter) Close() error {
	a.mu.Lock()
	a.open = false
	a.mu.Unlock()
	return nil
}

func (a *Adapter) IsOpen() bool {
	a.mu.Lock()
	defer a.mu.Unlock()
	return a.open
}

func (a *Adapter) GetDbVersion() (int, error) {
	a.mu.Lock()
	defer a.mu.Unlock()
	return a.db.Version, nil
}

func (a *Adapter) CheckDbVersion() error {
	v, _ := a.GetDbVersion()
	if v != adpVersion {
		return errors.New("vfmem: invalid database version")
	}
	return nil
}

func (a *Adapter) GetName() string { return "vfmem" }

func (a *Adapter) SetMaxResults(val int) error {
	a.mu.Lock()
	if val <= 0 {
		a.maxResults = 1024
	} else {
		a.maxResults = val
	}
	a.mu.Unlock()
	return nil
}

func (a *Adapter) CreateDb(reset bool) error {
	a.Reset()
	return nil
}

func (a *Adapter) UpgradeDb() error { return nil }
func (a *Adapter) Version() int     { return adpVersion }
func (a *Adapter) Stats() any       { return nil }

func (a *Adapter) maxRes() int {
	if a.maxResults <= 0 {
		return 1024
	}
	return a.maxResults
}

// ---- Users

func (a *Adapter) UserCreate(user *t.User) error {
	c := a.begin("UserCreate", "", user.Uid(), nil)
	if c.Err != nil {
		return a.endInjected(c)
	}
	a.mu.Lock()
	defer a.mu.Unlock()
	err := func() error {
		if _, ok := a.db.Users[user.Uid()]; ok {
			return errors.New("vfmem: duplicate user id")
		}
		if hasDup(user.Tags) {
			return t.ErrDuplicate
		}
		a.db.Users[user.Uid()] = &UserRow{
			Id: user.Uid(), CreatedAt: user.CreatedAt, UpdatedAt: user.UpdatedAt,
			State: user.State, Access: user.Access,
			Public: toJSON(user.Public), Trusted: toJSON(user.Trusted), Tags: cpStrs(user.Tags)}
		return nil
	}()
	a.endLocked(c, err)
	return err
}

func (a *Adapter) UserGet(uid t.Uid) (*t.User, error) {
	c := a.begin("UserGet", "", uid, nil)
	if c.Err != nil {
		return nil, a.endInjected(c)
	}
	a.mu.Lock()
	defer a.mu.Unlock()
	var out *t.User
	if u := a.db.Users[uid]; u != nil && u.State != t.StateDeleted {
		out = u.toUser()
	}
	a.endLocked(c, nil)
	return out, nil
}

func (a *Adapter) UserGetAll(ids ...t.Uid) ([]t.User, error) {
	c := a.begin("UserGetAll", "", 0, nil)
	if c.Err != nil {
		return nil, a.endInjected(c)
	}
	a.mu.Lock()
	defer a.mu.Unlock()
	users := []t.User{}
	seen := map[t.Uid]bool{}
	sorted := append([]t.Uid{}, ids...)
	sort.Slice(sorted, func(i, j int) bool { return sorted[i] < sorted[j] })
	for _, id := range sorted {
		if seen[id] {
			continue
		}
		seen[id] = true
		if u := a.db.Users[id]; u != nil && u.State != t.StateDeleted {
			users = append(users, *u.toUser())
		}
	}
	a.endLocked(c, nil)
	return users, nil
}

func (a *Adapter) deleteTopicHardLocked(name string) {
	db := a.db
	var subs []*SubRow
	for _, s := range db.Subs {
		if s.Topic != name {
			subs = append(subs, s)
		}
	}
	db.Subs = subs
	a.deleteMessagesLocked(name)
	a.dropLinks(func(l *LinkRow) bool { return l.Topic == name })
	delete(db.Topics, name)
}

func (a *Adapter) deleteMessagesLocked(topic string) {
	db := a.db
	var dl []*DelRow
	for _, d := range db.DelLog {
		if d.Topic != topic {
			dl = append(dl, d)
		}
	}
	db.DelLog = dl
	ids := map[int64]bool{}
	for _, m := range db.Msgs[topic] {
		ids[m.Id] = true
	}
	delete(db.Msgs, topic)
	a.dropLinks(func(l *LinkRow) bool { return l.MsgId != 0 && ids[l.MsgId] })
}

func (a *Adapter) dropLinks(pred func(l *LinkRow) bool) {
	var links []*LinkRow
	for _, l := range a.db.Links {
		if !pred(l) {
			links = append(links, l)
		}
	}
	a.db.Links = links
}

func (a *Adapter) UserDelete(uid t.Uid, hard bool) error {
	c := a.begin("UserDelete", "", uid, map[string]any{"hard": hard})
	if c.Err != nil {
		return a.endInjected(c)
	}
	a.mu.Lock()
	defer a.mu.Unlock()
	db := a.db
	now := a.now()
	if hard {
		var devs []*DevRow
		for _, d := range db.Devices {
			if d.User != uid {
				devs = append(devs, d)
			}
		}
		db.Devices = devs
		var subs []*SubRow
		for _, s := range db.Subs {
			if s.User != uid {
				subs = append(subs, s)
			}
		}
		db.Subs = subs
		var dl []*DelRow
		for _, d := range db.DelLog {
			if d.DeletedFor != uid {
				dl = append(dl, d)
			}
		}
		db.DelLog = dl
		var owned []string
		for name, tr := range db.Topics {
			if tr.Owner == uid {
				owned = append(owned, name)
			}
		}
		for _, name := range owned {
			a.deleteTopicHardLocked(name)
		}
		var au []*AuthRow
		for _, r := range db.Auth {
			if r.User != uid {
				au = append(au, r)
			}
		}
		db.Auth = au
		var cr []*CredRow
		for _, r := range db.Creds {
			if r.User != uid {
				cr = append(cr, r)
			}
		}
		db.Creds = cr
		a.dropLinks(func(l *LinkRow) bool { return l.User == uid })
		delete(db.Users, uid)
	} else {
		for _, s := range db.Subs {
			if s.User == uid && s.DeletedAt == nil {
				s.UpdatedAt = now
				s.DeletedAt = cpTime(&now)
			}
		}
		for name, tr := range db.Topics {
			if tr.Owner == uid {
				for _, s := range db.Subs {
					if s.Topic == name {
						s.UpdatedAt = now
						s.DeletedAt = cpTime(&now)
					}
				}
				tr.UpdatedAt, tr.TouchedAt, tr.State, tr.StateAt = now, now, t.StateDeleted, cpTime(&now)
			}
		}
		for _, s := range db.SubsOfUser(uid) {
			if tr := db.Topics[s.Topic]; tr != nil && tr.Owner.IsZero() && len(s.Topic) > 3 && s.Topic[:3] == "p2p" {
				tr.UpdatedAt, tr.TouchedAt, tr.State, tr.StateAt = now, now, t.StateDeleted, cpTime(&now)
			}
			if len(s.Topic) > 3 && s.Topic[:3] == "p2p" {
				for _, s2 := range db.Subs {
					if s2.Topic == s.Topic {
						s2.UpdatedAt = now
						s2.DeletedAt = cpTime(&now)
					}
				}
			}
		}
		if u := db.Users[uid]; u != nil {
			u.UpdatedAt, u.State, u.StateAt = now, t.StateDeleted, cpTime(&now)
		}
	}
	a.endLocked(c, nil)
	return nil
}

func (a *Adapter) UserUpdate(uid t.Uid, update map[string]any) error {
	c := a.begin("UserUpdate", "", uid, map[string]any{"update": update})
	if c.Err != nil {
		return a.endInjected(c)
	}
	a.mu.Lock()
	defer a.mu.Unlock()
	db := a.db
	err := func() error {
		u := db.Users[uid]
		if u == nil {
			return nil // UPDATE of zero rows is not an error
		}
		if tags := extractTags(update); tags != nil && hasDup(tags) {
			return t.ErrDuplicate
		}
		cp := *u
		if err := applyUpdate(&cp, update); err != nil {
			return err
		}
		if state, ok := update["State"]; ok {
			st, ok := state.(t.ObjState)
			if !ok {
				return t.ErrMalformed
			}
			now, _ := update["StateAt"].(time.Time)
			if now.IsZero() {
				now = a.now()
			}
			for _, tr := range db.Topics {
				if tr.Owner == uid && tr.State != t.StateDeleted {
					tr.State, tr.StateAt = st, cpTime(&now)
				}
			}
			for _, s := range db.SubsOfUser(uid) {
				if tr := db.Topics[s.Topic]; tr != nil && tr.Owner.IsZero() && tr.State != t.StateDeleted &&
					len(s.Topic) > 3 && s.Topic[:3] == "p2p" {
					tr.State, tr.StateAt = st, cpTime(&now)
				}
			}
		}
		*u = cp
		return nil
	}()
	a.endLocked(c, err)
	return err
}

func (a *Adapter) UserUpdateTags(uid t.Uid, add, remove, reset []string) ([]string, error) {
	c := a.begin("UserUpdateTags", "", uid, map[string]any{"add": add, "remove": remove, "reset": reset})
	if c.Err != nil {
		return nil, a.endInjected(c)
	}
	a.mu.Lock()
	defer a.mu.Unlock()
	u := a.db.Users[uid]
	var all []string
	var err error
	if u == nil {
		err = errors.New("vfmem: foreign key: no such user")
	} else {
		cur := cpStrs(u.Tags)
		if reset != nil {
			if hasDup(reset) {
				err = t.ErrDuplicate
			}
			cur = nil
			add = reset
			remove = nil
		}
		if err == nil {
			for _, tag := range add {
				dup := false
				for _, x := range cur {
					if x == tag {
						dup = true
					}
				}
				if !dup {
					cur = append(cur, tag)
				}
			}
			for _, tag := range remove {
				var nx []string
				for _, x := range cur {
					if x != tag {
						nx = append(nx, x)
					}
				}
				cur = nx
			}
			u.Tags = cur
			all = cpStrs(cur)
		}
	}
	a.endLocked(c, err)
	return all, err
}

func (a *Adapter) UserGetByCred(method, value string) (t.Uid, error) {
	c := a.begin("UserGetByCred", "", 0, map[string]any{"method": method, "value": value})
	if c.Err != nil {
		return t.ZeroUid, a.endInjected(c)
	}
	a.mu.Lock()
	defer a.mu.Unlock()
	out := t.ZeroUid
	for _, r := range a.db.Creds {
		if r.Synthetic == method+":"+value {
			out = r.User
		}
	}
	a.endLocked(c, nil)
	return out, nil
}

func (a *Adapter) UserUnreadCount(ids ...t.Uid) (map[t.Uid]int, error) {
	c := a.begin("UserUnreadCount", "", 0, nil)
	counts := make(map[t.Uid]int, len(ids))
	for _, id := range ids {
		counts[id] = 0
	}
	if c.Err != nil {
		return counts, a.endInjected(c)
	}
	a.mu.Lock()
	defer a.mu.Unlock()
	for _, s := range a.db.Subs {
		if _, ok := counts[s.User]; !ok || s.DeletedAt != nil {
			continue
		}
		tr := a.db.Topics[s.Topic]
		if tr == nil || tr.State == t.StateDeleted {
			continue
		}
		if !(s.ModeWant & s.ModeGiven).IsReader() {
			continue
		}
		counts[s.User] += tr.SeqId - s.ReadSeqId
	}
	a.endLocked(c, nil)
	return counts, nil
}

func (a *Adapter) UserGetUnvalidated(lastUpdatedBefore time.Time, limit int) ([]t.Uid, error) {
	c := a.begin("UserGetUnvalidated", "", 0, nil)
	if c.Err != nil {
		return nil, a.endInjected(c)
	}
	a.mu.Lock()
	defer a.mu.Unlock()
	var rows []*UserRow
	for _, id := range sortedUids(a.db.Users) {
		u := a.db.Users[id]
		if u.LastSeen != nil || !u.UpdatedAt.Before(lastUpdatedBefore) {
			continue
		}
		done := 0
		for _, r := range a.db.Creds {
			if r.User == id && r.Done {
				done++
			}
		}
		if done == 0 {
			rows = append(rows, u)
		}
	}
	sort.SliceStable(rows, func(i, j int) bool { return rows[i].UpdatedAt.Before(rows[j].UpdatedAt) })
	var out []t.Uid
	for i, u := range rows {
		if i >= limit {
			break
		}
		out = append(out, u.Id)
	}
	a.endLocked(c, nil)
	return out, nil
}

// ---- Credentials

func (a *Adapter) CredUpsert(cred *t.Credential) (bool, error) {
	uid := t.ParseUid(cred.User)
	c := a.begin("CredUpsert", "", uid, map[string]any{"method": cred.Method, "value": cred.Value, "done": cred.Done})
	if c.Err != nil {
		return false, a.endInjected(c)
	}
	a.mu.Lock()
	defer a.mu.Unlock()
	db := a.db
	now := a.now()
	synth := cred.Method + ":" + cred.Value
	find := func(s string) *CredRow {
		for _, r := range db.Creds {
			if r.Synthetic == s {
				return r
			}
		}
		return nil
	}
	ins, err := func() (bool, error) {
		if !cred.Done {
			if find(synth) != nil {
				return false, t.ErrDuplicate
			}
			synth = cred.User + ":" + synth
			for _, r := range db.Creds {
				if r.User == uid && r.Method == cred.Method && !r.Done {
					r.DeletedAt = cpTime(&now)
				}
			}
			if r := find(synth); r != nil {
				r.UpdatedAt = cred.UpdatedAt
				r.DeletedAt = nil
				r.Resp = cred.Resp
				r.Done = false
				return false, nil
			}
		} else {
			usynth := cred.User + ":" + synth
			var cr []*CredRow
			for _, r := range db.Creds {
				if r.Synthetic != usynth {
					cr = append(cr, r)
				}
			}
			db.Creds = cr
		}
		if find(synth) != nil {
			return true, t.ErrDuplicate
		}
		if db.Users[uid] == nil {
			return true, errors.New("vfmem: foreign key: no such user")
		}
		db.Creds = append(db.Creds, &CredRow{CreatedAt: cred.CreatedAt, UpdatedAt: cred.UpdatedAt,
			Method: cred.Method, Value: cred.Value, Synthetic: synth, User: uid, Resp: cred.Resp, Done: cred.Done})
		return true, nil
	}()
	a.endLocked(c, err)
	return ins, err
}

func (a *Adapter) CredGetActive(uid t.Uid, method string) (*t.Credential, error) {
	c := a.begin("CredGetActive", "", uid, map[string]any{"method": method})
	if c.Err != nil {
		return nil, a.endInjected(c)
	}
	a.mu.Lock()
	defer a.mu.Unlock()
	var out *t.Credential
	for _, r := range a.db.Creds {
		if r.User == uid && r.DeletedAt == nil && r.Method == method && !r.Done {
			out = r.toCred()
			break
		}
	}
	a.endLocked(c, nil)
	return out, nil
}

func (r *CredRow) toCred() *t.Credential {
	cr := &t.Credential{User: r.User.String(), Method: r.Method, Value: r.Value, Resp: r.Resp, Done: r.Done, Retries: r.Retries}
	cr.CreatedAt = r.CreatedAt
	cr.UpdatedAt = r.UpdatedAt
	return cr
}

func (a *Adapter) CredGetAll(uid t.Uid, method string, validatedOnly bool) ([]t.Credential, error) {
	c := a.begin("CredGetAll", "", uid, map[string]any{"method": method})
	if c.Err != nil {
		return nil, a.endInjected(c)
	}
	a.mu.Lock()
	defer a.mu.Unlock()
	var out []t.Credential
	for _, r := range a.db.Creds {
		if r.User != uid || r.DeletedAt != nil || (method != "" && r.Method != method) || (validatedOnly && !r.Done) {
			continue
		}
		out = append(out, *r.toCred())
	}
	a.endLocked(c, nil)
	return out, nil
}

func (a *Adapter) CredDel(uid t.Uid, method, value string) error {
	c := a.begin("CredDel", "", uid, map[string]any{"method": method, "value": value})
	if c.Err != nil {
		return a.endInjected(c)
	}
	a.mu.Lock()
	defer a.mu.Unlock()
	db := a.db
	match := func(r *CredRow) bool {
		return r.User == uid && (method == "" || r.Method == method) && (method == "" || value == "" || r.Value == value)
	}
	err := func() error {
		if method == "" {
			n := 0
			var cr []*CredRow
			for _, r := range db.Creds {
				if match(r) {
					n++
				} else {
					cr = append(cr, r)
				}
			}
			db.Creds = cr
			if n == 0 {
				return t.ErrNotFound
			}
			return nil
		}
		n := 0
		var cr []*CredRow
		for _, r := range db.Creds {
			if match(r) && (r.Done || r.Retries == 0) {
				n++
			} else {
				cr = append(cr, r)
			}
		}
		if n > 0 {
			db.Creds = cr
			return nil
		}
		// The MySQL adapter soft-deletes and then reports ErrNotFound which rolls the
		// transaction back: net effect is no change + ErrNotFound.
		return t.ErrNotFound
	}()
	a.endLocked(c, err)
	return err
}

func (a *Adapter) CredConfirm(uid t.Uid, method string) error {
	c := a.begin("CredConfirm", "", uid, map[string]any{"method": method})
	if c.Err != nil {
		return a.endInjected(c)
	}
	a.mu.Lock()
	defer a.mu.Unlock()
	err := func() error {
		var rows []*CredRow
		for _, r := range a.db.Creds {
			if r.User == uid && r.Method == method && r.DeletedAt == nil && !r.Done {
				rows = append(rows, r)
			}
		}
		if len(rows) == 0 {
			return t.ErrNotFound
		}
		for _, r := range rows {
			ns := r.Method + ":" + r.Value
			for _, o := range a.db.Creds {
				if o != r && o.Synthetic == ns {
					return t.ErrDuplicate
				}
			}
		}
		for _, r := range rows {
			r.UpdatedAt = a.now()
			r.Done = true
			r.Synthetic = r.Method + ":" + r.Value
		}
		return nil
	}()
	a.endLocked(c, err)
	return err
}

func (a *Adapter) CredFail(uid t.Uid, method string) error {
	c := a.begin("CredFail", "", uid, map[string]any{"method": method})
	if c.Err != nil {
		return a.endInjected(c)
	}
	a.mu.Lock()
	defer a.mu.Unlock()
	for _, r := range a.db.Creds {
		if r.User == uid && r.Method == method && !r.Done {
			r.UpdatedAt = a.now()
			r.Retries++
		}
	}
	a.endLocked(c, nil)
	return nil
}

// ---- Auth

func (a *Adapter) AuthGetUniqueRecord(unique string) (t.Uid, auth.Level, []byte, time.Time, error) {
	c := a.begin("AuthGetUniqueRecord", "", 0, map[string]any{"unique": unique})
	if c.Err != nil {
		return t.ZeroUid, 0, nil, time.Time{}, a.endInjected(c)
	}
	a.mu.Lock()
	defer a.mu.Unlock()
	for _, r := range a.db.Auth {
		if r.Uname == unique {
			var exp time.Time
			if r.Expires != nil {
				exp = *r.Expires
			}
			a.endLocked(c, nil)
			return r.User, auth.Level(r.AuthLvl), append([]byte{}, r.Secret...), exp, nil
		}
	}
	a.endLocked(c, nil)
	return t.ZeroUid, 0, nil, time.Time{}, nil
}

func (a *Adapter) AuthGetRecord(user t.Uid, scheme string) (string, auth.Level, []byte, time.Time, error) {
	c := a.begin("AuthGetRecord", "", user, map[string]any{"scheme": scheme})
	if c.Err != nil {
		return "", 0, nil, time.Time{}, a.endInjected(c)
	}
	a.mu.Lock()
	defer a.mu.Unlock()
	for _, r := range a.db.Auth {
		if r.User == user && r.Scheme == scheme {
			var exp time.Time
			if r.Expires != nil {
				exp = *r.Expires
			}
			a.endLocked(c, nil)
			return r.Uname, auth.Level(r.AuthLvl), append([]byte{}, r.Secret...), exp, nil
		}
	}
	a.endLocked(c, t.ErrNotFound)
	return "", 0, nil, time.Time{}, t.ErrNotFound
}

func (a *Adapter) AuthAddRecord(user t.Uid, scheme, unique string, authLvl auth.Level, secret []byte, expires time.Time) error {
	c := a.begin("AuthAddRecord", "", user, map[string]any{"scheme": scheme, "unique": unique})
	if c.Err != nil {
		return a.endInjected(c)
	}
	a.mu.Lock()
	defer a.mu.Unlock()
	err := func() error {
		for _, r := range a.db.Auth {
			if r.Uname == unique || (r.User == user && r.Scheme == scheme) {
				return t.ErrDuplicate
			}
		}
		if a.db.Users[user] == nil {
			return errors.New("vfmem: foreign key: no such user")
		}
		var exp *time.Time
		if !expires.IsZero() {
			exp = &expires
		}
		a.db.Auth = append(a.db.Auth, &AuthRow{Uname: unique, User: user, Scheme: scheme, AuthLvl: int(authLvl),
			Secret: append([]byte{}, secret...), Expires: exp})
		return nil
	}()
	a.endLocked(c, err)
	return err
}

func (a *Adapter) AuthDelScheme(user t.Uid, scheme string) error {
	c := a.begin("AuthDelScheme", "", user, map[string]any{"scheme": scheme})
	if c.Err != nil {
		return a.endInjected(c)
	}
	a.mu.Lock()
	defer a.mu.Unlock()
	var au []*AuthRow
	for _, r := range a.db.Auth {
		if !(r.User == user && r.Scheme == scheme) {
			au = append(au, r)
		}
	}
	a.db.Auth = au
	a.endLocked(c, nil)
	return nil
}

func (a *Adapter) AuthDelAllRecords(uid t.Uid) (int, error) {
	c := a.begin("AuthDelAllRecords", "", uid, nil)
	if c.Err != nil {
		return 0, a.endInjected(c)
	}
	a.mu.Lock()
	defer a.mu.Unlock()
	n := 0
	var au []*AuthRow
	for _, r := range a.db.Auth {
		if r.User == uid {
			n++
		} else {
			au = append(au, r)
		}
	}
	a.db.Auth = au
	a.endLocked(c, nil)
	return n, nil
}

func (a *Adapter) AuthUpdRecord(user t.Uid, scheme, unique string, authLvl auth.Level, secret []byte, expires time.Time) error {
	c := a.begin("AuthUpdRecord", "", user, map[string]any{"scheme": scheme, "unique": unique})
	if c.Err != nil {
		return a.endInjected(c)
	}
	a.mu.Lock()
	defer a.mu.Unlock()
	err := func() error {
		var row *AuthRow
		for _, r := range a.db.Auth {
			if r.User == user && r.Scheme == scheme {
				row = r
			}
		}
		if row == nil {
			return t.ErrNotFound
		}
		if unique != "" {
			for _, r := range a.db.Auth {
				if r != row && r.Uname == unique {
					return t.ErrDuplicate
				}
			}
			row.Uname = unique
		}
		row.AuthLvl = int(authLvl)
		if len(secret) > 0 {
			row.Secret = append([]byte{}, secret...)
		}
		if !expires.IsZero() {
			row.Expires = &expires
		}
		return nil
	}()
	a.endLocked(c, err)
	return err
}

// ---- Devices

func deviceHash(id string) string { return id }

func (a *Adapter) DeviceUpsert(uid t.Uid, dev *t.DeviceDef) error {
	c := a.begin("DeviceUpsert", "", uid, map[string]any{"dev": dev.DeviceId})
	if c.Err != nil {
		return a.endInjected(c)
	}
	a.mu.Lock()
	defer a.mu.Unlock()
	var err error
	if a.db.Users[uid] == nil {
		err = errors.New("vfmem: foreign key: no such user")
	} else {
		var devs []*DevRow
		for _, d := range a.db.Devices {
			if d.Hash != deviceHash(dev.DeviceId) {
				devs = append(devs, d)
			}
		}
		devs = append(devs, &DevRow{User: uid, Hash: deviceHash(dev.DeviceId), DeviceId: dev.DeviceId,
			Platform: dev.Platform, LastSeen: dev.LastSeen, Lang: dev.Lang})
		a.db.Devices = devs
	}
	a.endLocked(c, err)
	return err
}

func (a *Adapter) DeviceGetAll(uids ...t.Uid) (map[t.Uid][]t.DeviceDef, int, error) {
	c := a.begin("DeviceGetAll", "", 0, nil)
	if c.Err != nil {
		return nil, 0, a.endInjected(c)
	}
	a.mu.Lock()
	defer a.mu.Unlock()
	want := map[t.Uid]bool{}
	for _, u := range uids {
		want[u] = true
	}
	res := map[t.Uid][]t.DeviceDef{}
	n := 0
	for _, d := range a.db.Devices {
		if want[d.User] {
			res[d.User] = append(res[d.User], t.DeviceDef{DeviceId: d.DeviceId, Platform: d.Platform, LastSeen: d.LastSeen, Lang: d.Lang})
			n++
		}
	}
	a.endLocked(c, nil)
	return res, n, nil
}

func (a *Adapter) DeviceDelete(uid t.Uid, deviceID string) error {
	c := a.begin("DeviceDelete", "", uid, map[string]any{"dev": deviceID})
	if c.Err != nil {
		return a.endInjected(c)
	}
	a.mu.Lock()
	defer a.mu.Unlock()
	n := 0
	var devs []*DevRow
	for _, d := range a.db.Devices {
		if d.User == uid && (deviceID == "" || d.Hash == deviceHash(deviceID)) {
			n++
		} else {
			devs = append(devs, d)
		}
	}
	a.db.Devices = devs
	var err error
	if n == 0 {
		err = t.ErrNotFound
	}
	a.endLocked(c, err)
	return err
}

// ---- Persistent cache

func (a *Adapter) PCacheGet(key string) (string, error) {
	c := a.begin("PCacheGet", "", 0, map[string]any{"key": key})
	if c.Err != nil {
		return "", a.endInjected(c)
	}
	a.mu.Lock()
	defer a.mu.Unlock()
	r, ok := a.db.PCache[key]
	var err error
	if !ok {
		err = t.ErrNotFound
	}
	a.endLocked(c, err)
	return r.Value, err
}

func (a *Adapter) PCacheUpsert(key string, value string, failOnDuplicate bool) error {
	for _, ch := range key {
		if ch == '%' {
			return t.ErrMalformed
		}
	}
	c := a.begin("PCacheUpsert", "", 0, map[string]any{"key": key})
	if c.Err != nil {
		return a.endInjected(c)
	}
	a.mu.Lock()
	defer a.mu.Unlock()
	var err error
	if _, ok := a.db.PCache[key]; ok && failOnDuplicate {
		err = t.ErrDuplicate
	} else {
		a.db.PCache[key] = PCRow{CreatedAt: a.now(), Value: value}
	}
	a.endLocked(c, err)
	return err
}

func (a *Adapter) PCacheDelete(key string) error {
	c := a.begin("PCacheDelete", "", 0, map[string]any{"key": key})
	if c.Err != nil {
		return a.endInjected(c)
	}
	a.mu.Lock()
	defer a.mu.Unlock()
	delete(a.db.PCache, key)
	a.endLocked(c, nil)
	return nil
}

func (a *Adapter) PCacheExpire(keyPrefix string, olderThan time.Time) error {
	if keyPrefix == "" {
		return t.ErrMalformed
	}
	c := a.begin("PCacheExpire", "", 0, map[string]any{"prefix": keyPrefix})
	if c.Err != nil {
		return a.endInjected(c)
	}
	a.mu.Lock()
	defer a.mu.Unlock()
	for k, r := range a.db.PCache {
		if len(k) >= len(keyPrefix) && k[:len(keyPrefix)] == keyPrefix && r.CreatedAt.Before(olderThan) {
			delete(a.db.PCache, k)
		}
	}
	a.endLocked(c, nil)
	return nil
}
