//go:build verif

// Package vfmem is an in-memory implementation of adapter.Adapter used by the
// verification harness. It mirrors the contract of the MySQL adapter (see
// /verif/DESIGN.md appendix A) and adds observation, fault and crash hooks.
package vfmem

import (
	"bytes"
	"encoding/gob"
	"encoding/json"
	"errors"
	"os"
	"reflect"
	"sort"
	"strings"
	"sync"
	"sync/atomic"
	"time"

	"github.com/tinode/chat/server/store"
	t "github.com/tinode/chat/server/store/types"
)

const adpVersion = 113

// Rows. Plain types only so that snapshots are trivially (de)serialisable.

type UserRow struct {
	Id        t.Uid
	CreatedAt time.Time
	UpdatedAt time.Time
	State     t.ObjState
	StateAt   *time.Time
	Access    t.DefaultAccess
	LastSeen  *time.Time
	UserAgent string
	Public    json.RawMessage
	Trusted   json.RawMessage
	Tags      []string
}

type AuthRow struct {
	Uname   string
	User    t.Uid
	Scheme  string
	AuthLvl int
	Secret  []byte
	Expires *time.Time
}

type TopicRow struct {
	CreatedAt time.Time
	UpdatedAt time.Time
	State     t.ObjState
	StateAt   *time.Time
	TouchedAt time.Time
	Name      string
	UseBt     bool
	Owner     t.Uid
	Access    t.DefaultAccess
	SeqId     int
	DelId     int
	Public    json.RawMessage
	Trusted   json.RawMessage
	Tags      []string
}

type SubRow struct {
	Ins       int64
	CreatedAt time.Time
	UpdatedAt time.Time
	DeletedAt *time.Time
	User      t.Uid
	Topic     string
	DelId     int
	RecvSeqId int
	ReadSeqId int
	ModeWant  t.AccessMode
	ModeGiven t.AccessMode
	Private   json.RawMessage
}

type MsgRow struct {
	Id        int64
	CreatedAt time.Time
	UpdatedAt time.Time
	DeletedAt *time.Time
	DelId     int
	SeqId     int
	Topic     string
	From      t.Uid
	Head      json.RawMessage
	Content   json.RawMessage
}

type DelRow struct {
	Topic      string
	DeletedFor t.Uid
	DelId      int
	Low, Hi    int
}

type CredRow struct {
	CreatedAt time.Time
	UpdatedAt time.Time
	DeletedAt *time.Time
	Method    string
	Value     string
	Synthetic string
	User      t.Uid
	Resp      string
	Done      bool
	Retries   int
}

type DevRow struct {
	User     t.Uid
	Hash     string
	DeviceId string
	Platform string
	LastSeen time.Time
	Lang     string
}

type FileRow struct {
	Id        t.Uid
	CreatedAt time.Time
	UpdatedAt time.Time
	User      t.Uid
	Status    int
	MimeType  string
	Size      int64
	Location  string
}

type LinkRow struct {
	CreatedAt time.Time
	File      t.Uid
	MsgId     int64
	Topic     string
	User      t.Uid
}

type PCRow struct {
	CreatedAt time.Time
	Value     string
}

// DB is the whole database state.
type DB struct {
	Version int
	Ins     int64
	MsgAuto int64
	Users   map[t.Uid]*UserRow
	Auth    []*AuthRow
	Topics  map[string]*TopicRow
	Subs    []*SubRow
	Msgs    map[string][]*MsgRow
	DelLog  []*DelRow
	Creds   []*CredRow
	Devices []*DevRow
	Files   map[t.Uid]*FileRow
	Links   []*LinkRow
	PCache  map[string]PCRow
}

func newDB() *DB {
	return &DB{
		Users:  map[t.Uid]*UserRow{},
		Topics: map[string]*TopicRow{},
		Msgs:   map[string][]*MsgRow{},
		Files:  map[t.Uid]*FileRow{},
		PCache: map[string]PCRow{},
	}
}

// Call describes one adapter call; passed to the hooks.
type Call struct {
	N     int64
	Op    string
	Topic string
	User  t.Uid
	Seq   int
	Args  map[string]any
	Err   error
	// Injected is true when Err was produced by the Intercept hook (operation not performed).
	Injected bool
}

// Adapter is the adapter.Adapter implementation.
type Adapter struct {
	mu         sync.Mutex
	db         *DB
	open       bool
	maxResults int
	calls      int64
	inflight   int64

	// Intercept is called before each operation, outside the lock. A non-nil result
	// is returned to the caller and the operation is not performed. It may sleep or
	// kill the process.
	intercept atomic.Pointer[func(c *Call) error]
	// Observe is called after each operation under the adapter lock with access to the DB.
	observe atomic.Pointer[func(c *Call, db *DB)]
	// Clock overrides time source for adapter-generated timestamps.
	clock atomic.Pointer[func() time.Time]
}

// A is the singleton registered with the store.
var A = &Adapter{db: newDB()}

func init() {
	store.RegisterAdapter(A)
}

// SetIntercept installs the pre-op hook (nil to remove).
func (a *Adapter) SetIntercept(f func(c *Call) error) {
	if f == nil {
		a.intercept.Store(nil)
	} else {
		a.intercept.Store(&f)
	}
}

// SetObserve installs the post-op hook (nil to remove).
func (a *Adapter) SetObserve(f func(c *Call, db *DB)) {
	if f == nil {
		a.observe.Store(nil)
	} else {
		a.observe.Store(&f)
	}
}

// SetClock installs a clock.
func (a *Adapter) SetClock(f func() time.Time) {
	if f == nil {
		a.clock.Store(nil)
	} else {
		a.clock.Store(&f)
	}
}

func (a *Adapter) now() time.Time {
	if f := a.clock.Load(); f != nil {
		return (*f)()
	}
	return t.TimeNow()
}

// InFlight reports the number of adapter calls currently executing.
func (a *Adapter) InFlight() int64 { return atomic.LoadInt64(&a.inflight) }

// Calls reports the total number of adapter calls made.
func (a *Adapter) Calls() int64 { return atomic.LoadInt64(&a.calls) }

// View runs f with the DB locked.
func (a *Adapter) View(f func(db *DB)) {
	a.mu.Lock()
	defer a.mu.Unlock()
	f(a.db)
}

// Snapshot serialises the DB.
func (a *Adapter) Snapshot() []byte {
	a.mu.Lock()
	defer a.mu.Unlock()
	return SnapshotLocked(a.db)
}

// SnapshotLocked serialises DB; for use inside Observe (lock already held).
func SnapshotLocked(db *DB) []byte {
	var buf bytes.Buffer
	if err := gob.NewEncoder(&buf).Encode(db); err != nil {
		panic(err)
	}
	return buf.Bytes()
}

// SnapshotToFile writes the snapshot atomically.
func (a *Adapter) SnapshotToFile(path string) error {
	b := a.Snapshot()
	return writeFileSync(path, b)
}

func writeFileSync(path string, b []byte) error {
	f, err := os.OpenFile(path+".tmp", os.O_CREATE|os.O_TRUNC|os.O_WRONLY, 0644)
	if err != nil {
		return err
	}
	if _, err = f.Write(b); err != nil {
		f.Close()
		return err
	}
	f.Sync()
	f.Close()
	return os.Rename(path+".tmp", path)
}

// WriteSnapshotLocked writes a snapshot from inside a hook.
func WriteSnapshotLocked(db *DB, path string) error {
	return writeFileSync(path, SnapshotLocked(db))
}

// Restore replaces DB content with the snapshot.
func (a *Adapter) Restore(b []byte) error {
	db := newDB()
	if err := gob.NewDecoder(bytes.NewReader(b)).Decode(db); err != nil {
		return err
	}
	if db.Users == nil {
		db.Users = map[t.Uid]*UserRow{}
	}
	if db.Topics == nil {
		db.Topics = map[string]*TopicRow{}
	}
	if db.Msgs == nil {
		db.Msgs = map[string][]*MsgRow{}
	}
	if db.Files == nil {
		db.Files = map[t.Uid]*FileRow{}
	}
	if db.PCache == nil {
		db.PCache = map[string]PCRow{}
	}
	a.mu.Lock()
	a.db = db
	a.mu.Unlock()
	return nil
}

// Reset wipes the database and creates the initial schema content.
func (a *Adapter) Reset() {
	a.mu.Lock()
	a.db = newDB()
	a.createDbLocked()
	a.mu.Unlock()
}

func (a *Adapter) createDbLocked() {
	now := a.now()
	a.db.Version = adpVersion
	a.db.Topics["sys"] = &TopicRow{CreatedAt: now, UpdatedAt: now, TouchedAt: now, Name: "sys",
		State:  t.StateOK,
		Access: t.DefaultAccess{Auth: t.ModeNone, Anon: t.ModeNone},
		Public: json.RawMessage(`{"fn": "System"}`)}
}

// begin runs the intercept hook. Returns the call record; if c.Err != nil the
// caller must return it without touching the DB (after calling a.end(c)).
func (a *Adapter) begin(op, topic string, user t.Uid, args map[string]any) *Call {
	c := &Call{N: atomic.AddInt64(&a.calls, 1), Op: op, Topic: topic, User: user, Args: args}
	atomic.AddInt64(&a.inflight, 1)
	if f := a.intercept.Load(); f != nil {
		if err := (*f)(c); err != nil {
			c.Err = err
			c.Injected = true
		}
	}
	return c
}

// end must be called with the lock held for non-injected calls (so Observe sees a
// consistent DB), and is also used for injected ones (takes the lock itself).
func (a *Adapter) endLocked(c *Call, err error) {
	c.Err = err
	if f := a.observe.Load(); f != nil {
		(*f)(c, a.db)
	}
	atomic.AddInt64(&a.inflight, -1)
}

func (a *Adapter) endInjected(c *Call) error {
	a.mu.Lock()
	if f := a.observe.Load(); f != nil {
		(*f)(c, a.db)
	}
	a.mu.Unlock()
	atomic.AddInt64(&a.inflight, -1)
	return c.Err
}

// ---- helpers

func toJSON(src any) json.RawMessage {
	if src == nil {
		return nil
	}
	b, _ := json.Marshal(src)
	return b
}

func fromJSON(src json.RawMessage) any {
	if src == nil {
		return nil
	}
	var out any
	json.Unmarshal(src, &out)
	return out
}

func cpTime(p *time.Time) *time.Time {
	if p == nil {
		return nil
	}
	x := *p
	return &x
}

func cpStrs(s []string) []string {
	if s == nil {
		return nil
	}
	return append([]string{}, s...)
}

func (u *UserRow) toUser() *t.User {
	var usr t.User
	usr.SetUid(u.Id)
	usr.CreatedAt = u.CreatedAt
	usr.UpdatedAt = u.UpdatedAt
	usr.State = u.State
	usr.StateAt = cpTime(u.StateAt)
	usr.Access = u.Access
	usr.LastSeen = cpTime(u.LastSeen)
	usr.UserAgent = u.UserAgent
	usr.Public = fromJSON(u.Public)
	usr.Trusted = fromJSON(u.Trusted)
	usr.Tags = t.StringSlice(cpStrs(u.Tags))
	return &usr
}

func (r *TopicRow) toTopic() *t.Topic {
	tt := new(t.Topic)
	tt.Id = r.Name
	tt.CreatedAt = r.CreatedAt
	tt.UpdatedAt = r.UpdatedAt
	tt.State = r.State
	tt.StateAt = cpTime(r.StateAt)
	tt.TouchedAt = r.TouchedAt
	tt.UseBt = r.UseBt
	tt.Owner = r.Owner.String()
	tt.Access = r.Access
	tt.SeqId = r.SeqId
	tt.DelId = r.DelId
	tt.Public = fromJSON(r.Public)
	tt.Trusted = fromJSON(r.Trusted)
	tt.Tags = t.StringSlice(cpStrs(r.Tags))
	return tt
}

func (s *SubRow) toSub(withPrivate bool) t.Subscription {
	var sub t.Subscription
	sub.CreatedAt = s.CreatedAt
	sub.UpdatedAt = s.UpdatedAt
	sub.DeletedAt = cpTime(s.DeletedAt)
	sub.User = s.User.String()
	sub.Topic = s.Topic
	sub.DelId = s.DelId
	sub.RecvSeqId = s.RecvSeqId
	sub.ReadSeqId = s.ReadSeqId
	sub.ModeWant = s.ModeWant
	sub.ModeGiven = s.ModeGiven
	if withPrivate {
		sub.Private = fromJSON(s.Private)
	}
	return sub
}

// Copy returns a deep copy of the row (for snapshots in events).
func (s *SubRow) Copy() SubRow {
	c := *s
	c.DeletedAt = cpTime(s.DeletedAt)
	c.Private = append(json.RawMessage(nil), s.Private...)
	return c
}

func (m *MsgRow) toMsg() t.Message {
	var msg t.Message
	msg.SetUid(t.Uid(m.Id))
	msg.CreatedAt = m.CreatedAt
	msg.UpdatedAt = m.UpdatedAt
	msg.DeletedAt = cpTime(m.DeletedAt)
	msg.DelId = m.DelId
	msg.SeqId = m.SeqId
	msg.Topic = m.Topic
	msg.From = m.From.String()
	if m.Head != nil {
		var h t.MessageHeaders
		json.Unmarshal(m.Head, &h)
		msg.Head = h
	}
	msg.Content = fromJSON(m.Content)
	return msg
}

func (db *DB) findSub(topic string, uid t.Uid) *SubRow {
	for _, s := range db.Subs {
		if s.Topic == topic && s.User == uid {
			return s
		}
	}
	return nil
}

// SubsOf returns rows of the topic in insertion order.
func (db *DB) SubsOf(topic string) []*SubRow {
	var out []*SubRow
	for _, s := range db.Subs {
		if s.Topic == topic {
			out = append(out, s)
		}
	}
	return out
}

// SubsOfUser returns rows of the user in insertion order.
func (db *DB) SubsOfUser(uid t.Uid) []*SubRow {
	var out []*SubRow
	for _, s := range db.Subs {
		if s.User == uid {
			out = append(out, s)
		}
	}
	return out
}

// FindSub is exported for the harness.
func (db *DB) FindSub(topic string, uid t.Uid) *SubRow { return db.findSub(topic, uid) }

var errUnknownColumn = errors.New("vfmem: unknown column")

// applyUpdate assigns update map values to the fields of the row (pointer to struct).
func applyUpdate(row any, update map[string]any) error {
	rv := reflect.ValueOf(row).Elem()
	rt := rv.Type()
	for k, v := range update {
		lk := strings.ToLower(k)
		idx := -1
		for i := 0; i < rt.NumField(); i++ {
			if strings.ToLower(rt.Field(i).Name) == lk {
				idx = i
				break
			}
		}
		if idx < 0 {
			return errors.New(errUnknownColumn.Error() + " '" + k + "'")
		}
		f := rv.Field(idx)
		if lk == "public" || lk == "trusted" || lk == "private" {
			f.Set(reflect.ValueOf(toJSON(v)))
			continue
		}
		if v == nil {
			f.Set(reflect.Zero(f.Type()))
			continue
		}
		vv := reflect.ValueOf(v)
		switch {
		case vv.Type().AssignableTo(f.Type()):
			f.Set(vv)
		case f.Kind() == reflect.Ptr && vv.Type().AssignableTo(f.Type().Elem()):
			p := reflect.New(f.Type().Elem())
			p.Elem().Set(vv)
			f.Set(p)
		case vv.Kind() == reflect.Ptr && !vv.IsNil() && vv.Type().Elem().AssignableTo(f.Type()):
			f.Set(vv.Elem())
		case lk == "tags":
			switch tags := v.(type) {
			case t.StringSlice:
				f.Set(reflect.ValueOf(cpStrs([]string(tags))))
			case []string:
				f.Set(reflect.ValueOf(cpStrs(tags)))
			default:
				return errors.New("vfmem: bad tags type")
			}
		case vv.Type().ConvertibleTo(f.Type()) && vv.Kind() != reflect.String && f.Kind() != reflect.String:
			f.Set(vv.Convert(f.Type()))
		case f.Type() == reflect.TypeOf(t.AccessMode(0)) && vv.Kind() == reflect.String:
			var m t.AccessMode
			if err := m.UnmarshalText([]byte(vv.String())); err != nil {
				return err
			}
			f.Set(reflect.ValueOf(m))
		default:
			return errors.New("vfmem: cannot assign " + vv.Type().String() + " to column '" + k + "'")
		}
	}
	return nil
}

func extractTags(update map[string]any) []string {
	if val := update["Tags"]; val != nil {
		switch tags := val.(type) {
		case t.StringSlice:
			return []string(tags)
		case []string:
			return tags
		}
	}
	return nil
}

func hasDup(tags []string) bool {
	seen := map[string]bool{}
	for _, x := range tags {
		if seen[x] {
			return true
		}
		seen[x] = true
	}
	return false
}

func sortedUids(m map[t.Uid]*UserRow) []t.Uid {
	out := make([]t.Uid, 0, len(m))
	for k := range m {
		out = append(out, k)
	}
	sort.Slice(out, func(i, j int) bool { return out[i] < out[j] })
	return out
}
