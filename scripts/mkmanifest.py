#!/usr/bin/env python3
"""Generates /verif/MANIFEST.json from the table below (kept in one place so it stays valid)."""
import json
props=[json.loads(l) for l in open('/verif/properties.jsonl')]
C = {}
def chk(id, cat, text, note, tech, engine, ref):
    C[id] = dict(property_id=id, quick_cmd=f"bin/vf check {id} --tier quick", thorough_cmd=f"bin/vf check {id} --tier thorough",
        evidence_file=f"/verif/evidence/{id}.json", replay_cmd_template=f"bin/vf check {id} --replay {{path}}", engine=engine,
        level_claimed=dict(category=cat, text=text, design_ref=ref), level_note=note, technique=tech)

chk("C01","fault_enumeration",
    "The whole server runs over the in-memory adapter; concurrent publishers on grp/chn/p2p/sys topics (several users, several sessions, root on behalf of a user, store-call delays, idle unload/reload and p2p unsubscribe/resubscribe between bursts) produce client-boundary histories that are checked for unique gapless acks, ack = data = history = desc numbering, per-session order, consecutive MessageSave numbers and linearizability (porcupine) against an append-only log. Every store call of a publish is made to fail in turn and the process is really SIGKILLed before and after every store call of a publish, restarted from the durable snapshot and queried. Faults and crash points are enumerated completely for the publish path; schedules are sampled.",
    "vfmem (harness/vfmem) stands in for the SQL adapters and is trusted to mirror their contract; SQL text is not exercised; schedules are those the Go scheduler plus injected store delays produce.",
    "client-boundary history recording + porcupine linearizability + store fault/crash enumeration","sim","DESIGN.md 3/C01")
chk("C02","exploration",
    "Whole-server runs over the in-memory adapter with websocket clients: after every accepted publish, at logical quiescence, the set of sessions that received a copy, each copy's content/head/from/seq/topic name and the push receipt (recipients, channel) are compared with what the store rows captured just before the publish and the client-observed attachment history say. Populations, permission histories, idle reloads (channel reader first) and noecho/forged-sender/nested-content inputs are drawn per scenario.",
    "vfmem mirrors the adapter contract; attachment derived from the client-boundary history; quiescence is logical (channels empty, no store call in flight, all goroutines parked, frames out = frames in); concurrent attach/detach churn during a publish is covered by C14, not here.",
    "offline oracle over recorded client frames + push receipts against store-row ground truth","sim","DESIGN.md 3/C02")
chk("C03","exploration",
    "Same engine as C02 with the publish-permission oracles: every attempt is classified entitled/not entitled from the store rows and attachment history; accepted => entitled; rejected => error reply with the request id and no effect (no store write between request and quiescence, no frame at any session, no push); entitled => accepted. Includes me/fnd, system topic without attachment, anonymous level, root on behalf of a user, owner suspended (read-only topic) and a publish racing {del topic} while the store call is slowed.",
    "vfmem mirrors the adapter contract; 'being deleted' is explored through one injected delay at TopicDelete, not all schedules.",
    "offline oracle over client frames + store-call log with ground-truth rows","sim","DESIGN.md 3/C03")
chk("C04","exploration",
    "Reference-model differential at the client boundary on the running server: random histories of publishes, soft/hard deletes with generated range lists (unsorted, overlapping, nested, adjacent, touching, duplicated, singles, bounds beyond the last id, invalid lists), history queries with absent/zero/inverted/beyond-last bounds and limits, deletion-log queries and unsubscribe/resubscribe, by owner / member / member with D / member without R; every answer and every MessageDeleteList argument is compared with an independent model. RangeSorter.Normalize additionally gets an exhaustive small-scope run (all lists of <=3 well-formed ranges over 1..8/1..10).",
    "vfmem mirrors the messages/dellog contract; the SQL BETWEEN arithmetic of the real adapters is not exercised; limits above the adapter maximum (100) are checked against vfmem's maximum.",
    "reference-model differential over recorded answers + exhaustive small-scope enumeration","sim","DESIGN.md 3/C04")
chk("C06","exploration",
    "Whole-server runs: a group topic with owner/admin/member/candidate/sharer/stranger is driven through a directed prefix reaching the interesting ownership states and then 8-21 random metadata requests with idle unload/reload between steps; after every step, at logical quiescence, the subscription rows and the topic row in the store are checked for exactly one effective owner named by topics.owner, for 'denied => nothing changed', for ownership moving only by acceptance of an offer made by the owner (with the previous owner losing O in the same step), and for the owner-only operations.",
    "vfmem mirrors the adapter contract; requests are sequential (one outstanding at a time); concurrent ownership races are not explored.",
    "invariant monitor over store rows at quiescent points + step-attribution oracle","sim","DESIGN.md 3/C06")
chk("C07","exploration",
    "Same engine on group (subscriber limit 5) and p2p topics with arbitrary mode strings: every change between the before/after store rows of a step is attributed to the actor and judged against the authorisation rules of the property; bans and restrictions are driven through removal + re-subscription; p2p participant/mode bounds, sys/me/fnd admission and the subscriber limit are asserted after every step. Also carries the C05 wire clauses: mode = want & given on every acs object seen, and replay of {pres acs} notifications by a second session on 'me', by the owner's session in the topic and by a proxy Topic through updateAcsFromPresMsg must reproduce the stored modes.",
    "vfmem mirrors the adapter contract; sequential requests; anonymous-level subscribers are exercised only on sys (C03).",
    "row-diff attribution oracle + notification replay shadow tables","sim","DESIGN.md 3/C07")
chk("C08","fault_enumeration",
    "Whole-server runs with three monitors: (1) after every request of a random metadata/publish/note/delete sequence on grp and p2p topics the loaded topic's cached fields are compared with the store rows at logical quiescence; (2) reload differential: a fixed probe set answered by every attached subscriber before and after a real idle unload + reload must be identical; (3) for 16 request kinds every store write of the request is failed once (failed => store unchanged; cache = store in every case) and for 7 request kinds the process is SIGKILLed before/after each of the first store writes and right after the acknowledgement, restarted from the snapshot and probed (acknowledged => the probes equal those of an uncrashed run). Store-failure and crash points are enumerated completely for the listed request kinds; request sequences are sampled.",
    "vfmem mirrors the adapter contract; only single store failures are injected; multi-write handlers without a transaction that fail half-way are recorded in known_findings.json (ownership transfer, set desc public+private, del msg, publish write order, read note dragging recv).",
    "hooked-state invariant (cache vs rows) + reload differential + store fault/crash enumeration","sim","DESIGN.md 3/C08")
chk("C09","exploration",
    "Whole-server runs on grp/chn/p2p topics with the C02 population: every {note} (read/recv/kp/kpa/unknown, sequence numbers around the current marks, the last id and beyond) from attached, detached, read-less, write-less, channel-reader and foreign sessions is classified valid/invalid from store rows + attachment history; at quiescence invalid notes must have caused no frame and no store write, valid ones must store exactly the mark, change only the author's row and reach exactly the attached readers' sessions with true sender and the recipient's own topic name; stored and reported marks satisfy 0<=read<=recv<=seq and never decrease within a subscription lifetime, across publishes, permission changes, reloads and channel-reader re-attachment.",
    "vfmem mirrors the adapter contract; 'kpa/kpv' echo to the sender's own other sessions is not judged (the property speaks of typing notes); one recorded finding (read note beyond recv stores read>recv) is excluded by signature.",
    "offline oracle over client frames + store-call log + row monitor","sim","DESIGN.md 3/C09")
chk("C10","exploration",
    "Whole-server runs with several users and sessions on me, p2p and group topics under random attach/detach/disconnect/mute/unmute/ban/unban/publish/note steps: (leak) every {pres} (other than acs/gone/term) and {info} frame received by anybody is attributed to its topic and the receiver's store row must grant P (and R for info; receipts relayed inside an attached topic need R only) before or after the step; (convergence) at settled points - logical quiescence and all idle topics unloaded - the online flag in a fresh {meta sub} on me and the last {pres on|off} received about every p2p partner with P on both sides and about the group equal the truth; (accounting) cached per-user online counters of loaded topics and the online flags of the group's {meta sub} equal the number of attached sessions.",
    "vfmem mirrors the adapter contract; 'eventually' is restated as 'at settled points'; sequential requests (one outstanding at a time); Session.background is not settable for local sessions in this code base so background sessions behave as foreground.",
    "trace monitor over presence frames with row ground truth + settled-point convergence and counter invariants","sim","DESIGN.md 3/C10")
chk("C11","exploration",
    "Fresh websocket connections driven by random scripts of the ten message kinds (valid / too old / garbage versions, a dozen login variants incl. expired, tampered and no-login tokens, suspended, deleted and not-yet-validated accounts, extra.obo from non-root and root) are compared reply by reply with a three-variable reference automaton; a final {sub me} probe must succeed iff the automaton says authenticated; an observer checks author and sender header of every accepted publish. Runs with and without a required credential validator.",
    "vfmem mirrors the adapter contract; accounts are provisioned through the store and the real authenticators; reply codes are asserted only where the property fixes them (401, 409, 403), otherwise only the class (refused / accepted).",
    "reference-automaton monitor over client-boundary request/reply histories","sim","DESIGN.md 3/C11")
chk("C12","exploration",
    "The real token, code and basic authenticators and checkAPIKey are run in-process over the in-memory store: exhaustive single-bit flips and truncations of every issued token and API key, tokens forged by an independent implementation of the documented layout (right key must be accepted, foreign key / wrong serial / expired / level beyond root refused), random strings as API keys, reset-code attempt sequences against a small model, password and login-case scenarios.",
    "expiry uses fixed instants in 2020 / 2090; bcrypt cost limits the number of basic-auth accounts per run.",
    "exhaustive mutation of issued secrets + independent forger + attempt-sequence model","sim","DESIGN.md 3/C12")
chk("C13","exploration",
    "Child process per batch, booted with each of the 16 combinations of optional subsystems; raw bytes, broken JSON and structure-aware hostile messages of all ten kinds from clients in every session state; every command is on disk before it is sent, so a dead child yields the killing input; liveness of the process and of a bystander session, a reply for every request with an id (an id-less error for requests that cannot be decoded or are refused before dispatch), error codes for ill-formed topic names. Drafty-shaped hostile content is rendered through drafty.PlainText/Preview in-package.",
    "websocket transport only (long-poll and gRPC entry points share dispatch but their read loops are not fuzzed); FCM/TNPG payload builders are covered only through the drafty renderer they call.",
    "crash/liveness monitor over child processes + request/reply correlation","sim","DESIGN.md 3/C13")
chk("C14","exploration",
    "Race-detector build of the whole server under concurrent attach/detach/unsubscribe/publish/get/slow-consumer/disconnect/topic-deletion/account-deletion/topic-creation workloads with seeded store delays; at logical quiescence: all sub/leave/del requests answered, attachment tables of sessions (under their lock) and topics agree, no dead session attached, online counters match, nothing parked in a channel send / wait group / mutex / an unanswerable receive, deleted topics refuse requests, no attachment left after all clients disconnect; Go race reports are classified by the driver: in scope iff the racing source line names the data the property lists.",
    "schedules are those the Go scheduler produces under -race with injected store delays (3 batches x 3 rounds quick, 10 x 12 thorough); reports whose one side is the harness reading actor state at quiescence are excluded; races on actor-private topic fields read by hub helper goroutines are counted as out of scope (not covered by the statement).",
    "Go race detector + structural invariants and blocked-goroutine scan at quiescent points","sim","DESIGN.md 3/C14")
chk("C05","exploration",
    "Runtime oracle over the real AccessMode code: every one of the 256x256 permission pairs is pushed through Delta/ApplyDelta/ApplyMutation and every set through text/JSON/SQL round trips (finite core enumerated completely); all short strings over the mode alphabet plus junk are compared with an independent reference for the stated laws (unknown letters rejected and target unchanged, empty = no change, N = none). The on-the-wire intersection law and the notification-replay clause are monitored in the C07 engine runs and reported there.",
    "Reference parser in harness/types/c05.go is trusted; strings longer than 5 are sampled, not enumerated; proxy replay through updateAcsFromPresMsg is exercised by the sim engine (C07), not here.",
    "exhaustive runtime enumeration + reference-model differential on the real functions","pkg","DESIGN.md 3/C05")

m={"version":1,
 "setup_cmd":"cd /verif && GOFLAGS=-mod=mod GOPROXY=off GOSUMDB=off GOTOOLCHAIN=local go build -o bin/vf ./cmd/vf && bin/vf selftest",
 "hooks":{"guard":"verif","enable":"no hooks are committed to /repo: harness files (build tag verif) are injected at build time with `go test -overlay` by bin/vf (DESIGN.md 1.1)",
   "baseline_off_cmd":"cd /repo/server && GOFLAGS=-mod=mod GOPROXY=off go test -vet=off -count=1 ./...","source_commits":[],"add_only":True},
 "engines":[
   {"name":"pkg","path":"harness/{types,ringhash,drafty,...}","serves_properties":["C04","C05","C12","C13","C17","C19","C20"],"kind_free_text":"package-level runtime monitors overlaid as test files into the real packages"},
   {"name":"sim","path":"harness/main + harness/vfmem","serves_properties":["C01","C02","C03","C04","C06","C07","C08","C09","C10","C11","C13","C14","C15","C16","C19","C20"],"kind_free_text":"whole server booted in a child process over the in-memory adapter; websocket clients; offline monitors over recorded histories"},
 ],
 "checks":[C[k] for k in sorted(C)],
 "not_applicable":[{"property_id":p['id'],"reason":"check not built yet in this revision (work in progress; runtime monitoring applies, see DESIGN.md)"} for p in props if p['id'] not in C],
 "notes":"All checks rebuild from /repo's working tree via go test -overlay; exit 0 held / 1 violation / 2 inconclusive."}
json.dump(m,open('/verif/MANIFEST.json','w'),indent=1)
print(len(C),"checks")
