#!/bin/bash
# Applies every seeded change under /verif/seeded to /repo in turn, runs the quick check of the property it breaks,
# records which violation signatures fired in meta.json (detected_by) and reverts. /repo must be clean and otherwise unused.
export GOFLAGS=-mod=mod GOPROXY=off GOSUMDB=off GOTOOLCHAIN=local
cd /verif || exit 9
REPO=${REPO:-/repo}
export VF_REPO=$REPO
[ -n "$NOBUILD" ] || go build -o bin/vf ./cmd/vf || exit 9
if ! git -C $REPO diff --quiet; then echo "repo dirty"; exit 9; fi
for d in ${1:-/verif/seeded/C*}; do
  name=$(basename $d); id=${name%%-*}
  if ! git -C $REPO apply $d/patch.diff 2>/dev/null; then echo "$name: PATCH-DOES-NOT-APPLY"; continue; fi
  out=$(timeout 1800 bin/vf check $id --tier quick 2>&1); rc=$?
  git -C $REPO checkout -- .
  sigs=$(echo "$out" | grep -o "sig=[^ ]*" | sed 's/sig=//' | sort -u | paste -sd' ')
  [ -n "$NOUPDATE" ] || python3 - "$d/meta.json" "$id" "$rc" "$sigs" <<'PY'
import json,sys
p,id,rc,sigs=sys.argv[1:5]
m=json.load(open(p))
m['detected_by']={"check":id,"tier":"quick","exit_code":int(rc),"violation_signatures":sigs.split() if sigs else [],"detected":int(rc)==1 and bool(sigs)}
json.dump(m,open(p,'w'),indent=1)
PY
  echo "$name: exit=$rc sigs=[$sigs]"
done
git -C $REPO status --short | head -3
