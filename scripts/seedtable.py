#!/usr/bin/env python3
"""Regenerates the seeded-change table of DESIGN.md (between the SEEDTABLE markers) from /verif/seeded/*/meta.json."""
import json,glob,re,os
rows=[]
for d in sorted(glob.glob('/verif/seeded/C*')):
    m=json.load(open(d+'/meta.json'))
    readme=open(d+'/README.md').read().splitlines()
    title=next((l.lstrip('# ').strip() for l in readme if l.startswith('#')), '')
    title=re.sub(r'^C\d+\s*/\s*(seed\s*\d+\s*/?\s*)?(mut(ation)?\s*\d+)\s*[-—–:]*\s*','',title)
    det=m.get('detected_by') or {}
    sigs=det.get('violation_signatures') or []
    short=sorted({re.sub(r':[^:]*$','',s) if s.count(':')>2 else s for s in sigs})
    rows.append((os.path.basename(d), title[:110], 'yes' if det.get('detected') else 'NO', ', '.join('`%s`'%s for s in short[:4])))
out=['| seeded | what it changes | caught by its quick check | violation signatures (classes) |','|---|---|---|---|']
for r in rows: out.append('| %s | %s | %s | %s |'%r)
p='/verif/DESIGN.md'
s=open(p).read()
a=s.index('<!-- SEEDTABLE-BEGIN -->'); b=s.index('<!-- SEEDTABLE-END -->')
s=s[:a]+'<!-- SEEDTABLE-BEGIN -->\n'+'\n'.join(out)+'\n'+s[b:]
open(p,'w').write(s)
print(len(rows),'rows;', sum(1 for r in rows if r[2]=='yes'),'detected')
