#!/bin/bash
# runs every registered check once (quick), prints one line each
cd /verif
for id in $(bin/vf list); do
  out=$(VERIF_SEED=${VERIF_SEED:-1} bin/vf check $id --tier ${1:-quick} 2>&1)
  rc=$?
  echo "$id rc=$rc $(echo "$out" | grep -E '^(HELD|VIOLATION|INCONCLUSIVE)' | head -2 | tr '\n' ' ' | cut -c1-200)"
done
