#!/bin/bash
# usage: seedtest.sh <check-id> <patch.diff> [tier]  -- applies patch to /repo, runs check, reverts.
id=$1; patch=$2; tier=${3:-quick}
cd /repo || exit 9
if ! git diff --quiet; then echo "repo dirty"; exit 9; fi
if ! git apply "$patch"; then echo "PATCH-DOES-NOT-APPLY"; exit 8; fi
cd /verif && timeout 1800 bin/vf check $id --tier $tier > /tmp/seedtest.$$.out 2>&1
rc=$?
git -C /repo checkout -- .
grep -E "^(VIOLATION|KNOWN-FINDING|HELD|INCONCLUSIVE)|sig=" /tmp/seedtest.$$.out | head -${4:-8}
rm -f /tmp/seedtest.$$.out
echo "exit=$rc"
