#!/bin/bash
# usage: fragile.sh <seed>...  runs every quick check at each seed and prints, per check, exit codes and the clauses whose hit count is below 5 in any run.
cd /verif || exit 9
export GOFLAGS=-mod=mod GOPROXY=off GOSUMDB=off GOTOOLCHAIN=local
for id in $(bin/vf list); do
  for seed in "$@"; do
    out=$(VERIF_SEED=$seed bin/vf check $id --tier quick 2>&1); rc=$?
    low=$(echo "$out" | awk '/^  clause /{ if ($3+0 < 5) printf "%s=%s ", $2, $3 }')
    echo "$id seed=$seed rc=$rc low: $low"
    [ $rc != 0 ] && echo "$out" | grep -E "sig=|INCONCL" | head -4
  done
done
