#!/bin/bash
# usage: sweepall.sh <tier> <seed>...   runs every registered check at each seed, prints one line per run; non-zero exits are kept with their output.
cd /verif || exit 9
export GOFLAGS=-mod=mod GOPROXY=off GOSUMDB=off GOTOOLCHAIN=local
tier=$1; shift
mkdir -p .work/sweep
for seed in "$@"; do
  for id in $(bin/vf list); do
    t0=$(date +%s)
    out=$(VERIF_SEED=$seed bin/vf check $id --tier $tier 2>&1); rc=$?
    t1=$(date +%s)
    echo "$tier seed=$seed $id rc=$rc $((t1-t0))s $(echo "$out" | grep -E '^(HELD|VIOLATION|INCONCLUSIVE)' | head -1 | cut -c1-120)"
    if [ $rc != 0 ]; then echo "$out" > .work/sweep/$tier-$seed-$id.out; echo "$out" | grep -E "sig=|INCONCL" | head -5; fi
  done
done
