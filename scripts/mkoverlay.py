#!/usr/bin/env python3
"""Builds the go overlay json + modfile in a work dir. Usage: mkoverlay.py <workdir> [--patch-time]"""
import json, os, re, sys, shutil
work = sys.argv[1]
patch_time = '--patch-time' in sys.argv
os.makedirs(work, exist_ok=True)
V = '/verif/harness'
R = '/repo/server'
repl = {}
def add_dir(src, dstdir, test_suffix=True, prefix='vf_'):
    for fn in sorted(os.listdir(src)):
        if not fn.endswith('.go'): continue
        base = fn[:-3]
        dst = os.path.join(dstdir, prefix + base + ('_test.go' if test_suffix else '.go'))
        repl[dst] = os.path.join(src, fn)
add_dir(V + '/main', R, True)
add_dir(V + '/vfmem', R + '/db/vfmem', False, '')
for pkg, dst in [('types', R + '/store/types'), ('ringhash', R + '/ringhash'), ('drafty', R + '/drafty'),
                 ('mysql', R + '/db/mysql'), ('fcm', R + '/push/fcm'), ('basic', R+'/auth/basic'), ('code', R+'/auth/code'),
                 ('token', R+'/auth/token'), ('storepkg', R+'/store'), ('media', R+'/media'), ('fs', R+'/media/fs')]:
    if os.path.isdir(V + '/' + pkg):
        add_dir(V + '/' + pkg, dst, True)
if patch_time:
    subs = {
        'main.go': [(r'idleMasterTopicTimeout = time\.Second \* 4', 'idleMasterTopicTimeout = time.Millisecond * 120'),
                    (r'uaTimerDelay = time\.Second \* 5', 'uaTimerDelay = time.Millisecond * 150')],
        'session.go': [(r'deferredNotificationsTimeout = time\.Second \* 5', 'deferredNotificationsTimeout = time.Millisecond * 150')],
        'calls.go': [(r'time\.Duration\(globals\.callEstablishmentTimeout\) \* time\.Second', 'time.Duration(globals.callEstablishmentTimeout) * 10 * time.Millisecond')],
    }
    report = {}
    for fn, lst in subs.items():
        src = open(os.path.join(R, fn)).read()
        n = 0
        for pat, rep in lst:
            src, k = re.subn(pat, rep, src)
            n += k
        report[fn] = n
        if n:
            p = os.path.join(work, 'patched_' + fn)
            open(p, 'w').write(src)
            repl[os.path.join(R, fn)] = p
    json.dump(report, open(os.path.join(work, 'timepatch.json'), 'w'))
json.dump({'Replace': repl}, open(os.path.join(work, 'overlay.json'), 'w'), indent=1)
gm = open('/repo/go.mod').read()
gm = gm.replace('require (', 'require (\n\tgithub.com/anishathalye/porcupine v1.3.0', 1)
open(os.path.join(work, 'go.mod'), 'w').write(gm)
shutil.copy('/repo/go.sum', os.path.join(work, 'go.sum'))
print(os.path.join(work, 'overlay.json'))
