#!/bin/bash
# Confirms seeded mutants from /tmp/seed/*.out in a scratch worktree of /repo HEAD and stores the confirmed ones under /verif/seeded.
export GOFLAGS=-mod=mod GOPROXY=off GOSUMDB=off GOTOOLCHAIN=local
WT=/tmp/confirm_wt4
git -C /repo worktree remove --force $WT 2>/dev/null
git -C /repo worktree add -q --detach $WT HEAD || exit 1
declare -A DIR=( [main]=server [store]=server/store [types]=server/store/types [code]=server/auth/code [basic]=server/auth/basic [fcm]=server/push/fcm [mysql]=server/db/mysql [ringhash]=server/ringhash [postgres]=server/db/postgres [drafty]=server/drafty [email]=server/validate/email [tel]=server/validate/tel [token]=server/auth/token [fs]=server/media/fs [media]=server/media [common]=server/db/common [push]=server/push [tnpg]=server/push/tnpg [auth]=server/auth [concurrency]=server/concurrency )
for d in ${1:-/tmp/seed4/C*.out/mut*}; do
  id=$(basename $(dirname $d) .out); k=$(basename $d); kk=${k#mut}; name=$id-mut$((kk+4))
  out=/verif/seeded/$name
  [ -f $out/meta.json ] && { echo "$name already confirmed"; continue; }
  demo=$(ls $d/*_test.go | head -1)
  pk=$(grep -m1 "^package" $demo | awk '{print $2}')
  pdir=${DIR[$pk]}
  tags=""; [ "$pk" = mysql ] && tags="-tags mysql"; [ "$pk" = postgres ] && tags="-tags postgres"
  [ -z "$pdir" ] && { echo "$name: UNKNOWN PACKAGE $pk"; continue; }
  cd $WT && git checkout -q -- . && git clean -fdq
  if ! git apply $d/patch.diff 2>/dev/null; then echo "$name: PATCH DOES NOT APPLY to HEAD"; continue; fi
  (cd server && go build ./... ) >/tmp/confirm.log 2>&1 || { echo "$name: BUILD FAILS"; continue; }
  if ! (cd server && go test -vet=off -count=1 . ./db/common ./drafty ./ringhash >/tmp/confirm.log 2>&1); then echo "$name: SUITE FAILS with change"; continue; fi
  cp $demo $WT/$pdir/zz_seed_demo_test.go
  tests=$(grep -o "^func Test[A-Za-z0-9_]*" $demo | sed 's/func //' | paste -sd'|')
  (cd $WT/$pdir && timeout 300 go test -vet=off -count=1 $tags -run "^($tests)\$" . >/tmp/confirm_with.log 2>&1); rc_with=$?
  git apply -R $d/patch.diff
  (cd $WT/$pdir && timeout 300 go test -vet=off -count=1 $tags -run "^($tests)\$" . >/tmp/confirm_without.log 2>&1); rc_without=$?
  if [ $rc_with -ne 0 ] && [ $rc_without -eq 0 ]; then
    mkdir -p $out
    cp $d/patch.diff $out/patch.diff; cp $demo $out/demo_test.go; cp $d/README.md $out/README.md
    python3 - "$name" "$id" "$pdir" "$tests" "$tags" <<'PY'
import json,sys,re
name,id,pdir,tests,tags=sys.argv[1:6]
readme=open(f'/verif/seeded/{name}/README.md').read()
meta={"id":name,"property":id,"breaks":id,"origin":"independent sub-agent (fourth round) given only the property text, one-line titles of the earlier changes to avoid, and a scratch worktree",
 "demo":{"file":"demo_test.go","copy_into":pdir,"run":f"go test -vet=off -count=1 {tags} -run '^({tests})$' ."},
 "confirmed":{"worktree":"scratch worktree of /repo HEAD","builds":True,"existing_suite_passes_with_change":True,"demo_fails_with_change":True,"demo_passes_without_change":True,
   "commands":["git apply patch.diff","cd server && go build ./... && go test -vet=off -count=1 . ./db/common ./drafty ./ringhash",f"cp demo_test.go {pdir}/zz_seed_demo_test.go && go test -run ... (fails)","git apply -R patch.diff && go test -run ... (passes)"]},
 "needs_to_manifest":"see README.md (written by the sub-agent)","detected_by":None}
json.dump(meta,open(f'/verif/seeded/{name}/meta.json','w'),indent=1)
PY
    echo "$name: CONFIRMED"
  else
    echo "$name: NOT CONFIRMED (with=$rc_with without=$rc_without)"
  fi
done
cd / && git -C /repo worktree remove --force $WT
