#!/bin/bash
# Regenerates the committed evidence and replays from runs of every quick check on the clean /repo at VERIF_SEED=1.
# (Sweeps over seeded changes overwrite evidence/ and add replays of mutated trees; this puts the clean state back.)
export GOFLAGS=-mod=mod GOPROXY=off GOSUMDB=off GOTOOLCHAIN=local
cd /verif || exit 9
if ! git -C /repo diff --quiet; then echo "repo dirty"; exit 9; fi
go build -o bin/vf ./cmd/vf || exit 9
git checkout -q -- replays 2>/dev/null; git clean -fdq replays
rm -f replays/*/*.json
fail=0
for id in $(bin/vf list); do
  rm -f evidence/$id.json
  out=$(VERIF_SEED=1 VERIF_TIER=quick bin/vf check $id --tier quick 2>&1); rc=$?
  echo "$id rc=$rc $(echo "$out" | grep -E '^(HELD|VIOLATION|INCONCLUSIVE)' | head -1 | cut -c1-100)"
  [ $rc != 0 ] && { fail=1; echo "$out" | grep -E "sig=|INCONCL" | head -5; }
  [ -f evidence/$id.json ] || { echo "$id: NO EVIDENCE FILE"; fail=1; }
done
exit $fail
