package main

var checks = []checkDef{
	{ID: "C01", Level: "fault_enumeration", Pkg: "server", Run: "^TestVfC01$", TimePatch: true, Batches: [2]int{4, 30}, Timeout: [2]int{300, 900},
		Required: []string{"ack_seq", "gapless_acks", "data_seq_agrees", "live_order", "history_seq_agrees", "desc_seq_agrees", "store_seq", "linearizable", "fault_point", "crash_point", "restart_monotonic", "p2p_unsub_resub_across_reload", "failed_publish_consumes_no_number"},
		Rule:     "concurrent-publisher scenarios (seeded: topic kind grp/chn/p2p/sys, 2-3 users x 1-2 sessions, optional root session publishing on behalf of a user, 1-2 bursts with leave-all/idle-unload/re-attach in between, store-call delays) checked for unique+gapless acks, ack=data=history=desc seq, per-session order, MessageSave sequence and porcupine linearizability against an append-only-log model; plus enumeration of every store call of a publish made to fail (grp/p2p x attachments x author reader) and a real SIGKILL before/after each store call of a publish with restart from the snapshot. Distinct = distinct scenario shape hash, distinct store-call interleaving hash, each fault point, each crash point.",
		Assume:   []string{"vfmem in-memory adapter mirrors the MySQL adapter contract (DESIGN appendix A)", "SQL text of the real adapters is not exercised"}},
	{ID: "C05", Level: "exploration", Pkg: "server/store/types", Run: "^TestVfC05$", Batches: [2]int{1, 1}, Timeout: [2]int{300, 900},
		Required: []string{"delta_pair", "canonical_roundtrip", "law_unknown_rejected", "law_delta_apply", "law_unknown_rejected_delta"},
		Rule:     "exhaustive: all 256x256 (old,new) permission pairs through Delta/ApplyDelta/ApplyMutation; all 256 sets through text/JSON/SQL round trips in several spellings; every string of length <=4 (quick) / <=5 (thorough) over the alphabet JRWPASDONjrwo+-xZ! plus random longer ones, compared with an independent reference parser on the laws the property states. A distinct case = one permission set, the pair space, or the string space of one length bound.",
		Assume:   []string{"reference parser in harness/types/c05.go encodes only the laws stated in the property"}},
}
