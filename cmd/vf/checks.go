package main

var checks = []checkDef{
	{ID: "C05", Level: "exploration", Pkg: "server/store/types", Run: "^TestVfC05$", Batches: [2]int{1, 1}, Timeout: [2]int{300, 900},
		Required: []string{"delta_pair", "canonical_roundtrip", "law_unknown_rejected", "law_delta_apply", "law_unknown_rejected_delta"},
		Rule:     "exhaustive: all 256x256 (old,new) permission pairs through Delta/ApplyDelta/ApplyMutation; all 256 sets through text/JSON/SQL round trips in several spellings; every string of length <=4 (quick) / <=5 (thorough) over the alphabet JRWPASDONjrwo+-xZ! plus random longer ones, compared with an independent reference parser on the laws the property states. A distinct case = one permission set, the pair space, or the string space of one length bound.",
		Assume:   []string{"reference parser in harness/types/c05.go encodes only the laws stated in the property"}},
}
