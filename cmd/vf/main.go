// vf is the driver behind every quick_cmd / thorough_cmd in MANIFEST.json.
// It overlays the harness onto /repo's current working tree, builds the test binary,
// runs child processes (one per batch), merges their results, matches violations against
// known_findings.json, writes evidence and replay files and sets the exit code
// (0 held / 1 violation / 2 inconclusive).
package main

import (
	"crypto/sha1"
	"encoding/hex"
	"encoding/json"
	"fmt"
	"os"
	"os/exec"
	"path/filepath"
	"regexp"
	"sort"
	"strconv"
	"strings"
	"sync"
	"syscall"
	"time"
)

// repo is the tree the checks are built from. VF_REPO overrides it for the maintenance scripts only (sweeping
// seeded changes over a scratch clone in parallel); the registered commands never set it.
var repo = func() string {
	if p := os.Getenv("VF_REPO"); p != "" {
		return p
	}
	return "/repo"
}()

var verifDir = "/verif"

type checkDef struct {
	ID        string
	Level     string   // evidence level
	Pkg       string   // package dir relative to repo
	Run       string   // -test.run regex
	Tags      string   // extra build tags
	Race      bool     // build with -race
	TimePatch bool     // overlay time-scaled constants
	Batches   [2]int   // quick, thorough
	Parallel  int      // max children in parallel (0 = 8)
	Timeout   [2]int   // per-child watchdog seconds quick, thorough
	Required  []string // clauses that must have hits
	Rule      string
	Assume    []string
	Extra     []checkPart // additional packages run as part of the same property
}

type checkPart struct {
	Pkg, Run, Tags string
	Race           bool
	TimePatch      bool
	Batches        [2]int
	Timeout        [2]int
}

type violation struct {
	Sig     string `json:"sig"`
	Msg     string `json:"msg"`
	Witness any    `json:"witness,omitempty"`
}

type result struct {
	Property     string           `json:"property"`
	Batch        int              `json:"batch"`
	Evaluations  int64            `json:"evaluations"`
	Cases        []string         `json:"cases"`
	Clauses      map[string]int64 `json:"clauses"`
	Samples      []any            `json:"samples"`
	Violations   []violation      `json:"violations"`
	Inconclusive []string         `json:"inconclusive"`
	Info         map[string]any   `json:"info"`
	Exhaustive   bool             `json:"exhaustive"`
	Done         bool             `json:"done"`
}

type knownFinding struct {
	Property string `json:"property"`
	Sig      string `json:"sig"` // regexp matched against violation signature
	What     string `json:"what"`
	Status   string `json:"status"` // "known" or "fixed"
	Commit   string `json:"commit,omitempty"`
}

func env() []string {
	e := os.Environ()
	e = append(e, "GOFLAGS=-mod=mod", "GOPROXY=off", "GOSUMDB=off", "GOTOOLCHAIN=local")
	return e
}

func die(code int, f string, a ...any) {
	fmt.Fprintf(os.Stderr, f+"\n", a...)
	os.Exit(code)
}

func mkOverlay(work string, timePatch bool) (string, map[string]int) {
	harness := filepath.Join(verifDir, "harness")
	srv := filepath.Join(repo, "server")
	repl := map[string]string{}
	addDir := func(src, dst string, test bool, prefix string) {
		ents, err := os.ReadDir(src)
		if err != nil {
			return
		}
		for _, en := range ents {
			n := en.Name()
			if !strings.HasSuffix(n, ".go") {
				continue
			}
			base := strings.TrimSuffix(n, ".go")
			out := prefix + base + ".go"
			if test {
				out = prefix + base + "_test.go"
			}
			repl[filepath.Join(dst, out)] = filepath.Join(src, n)
		}
	}
	addDir(filepath.Join(harness, "main"), srv, true, "vf_")
	addDir(filepath.Join(harness, "vfmem"), filepath.Join(srv, "db/vfmem"), false, "")
	addDir(filepath.Join(harness, "vfkit"), filepath.Join(srv, "vfkit"), false, "")
	for name, dst := range map[string]string{
		"types": "store/types", "ringhash": "ringhash", "drafty": "drafty", "mysql": "db/mysql",
		"postgres": "db/postgres", "fcm": "push/fcm", "basic": "auth/basic", "code": "auth/code",
		"token": "auth/token", "storepkg": "store", "media": "media", "fs": "media/fs"} {
		addDir(filepath.Join(harness, name), filepath.Join(srv, dst), true, "vf_")
	}
	report := map[string]int{}
	if timePatch {
		subs := map[string][][2]string{
			"main.go": {{`idleMasterTopicTimeout = time\.Second \* 4`, "idleMasterTopicTimeout = time.Millisecond * 120"},
				{`uaTimerDelay = time\.Second \* 5`, "uaTimerDelay = time.Millisecond * 150"}},
			"session.go": {{`deferredNotificationsTimeout = time\.Second \* 5`, "deferredNotificationsTimeout = time.Millisecond * 150"},
				// delay points around the asynchronous detach of a session (harness/main/c14.go)
				{`func \(s \*Session\) delStaleSub\(topic string\) \{\n`, "func (s *Session) delStaleSub(topic string) {\n\tvfFP(\"delStaleSubEnter\", topic+\"|\"+s.sid)\n"},
				{`(\t\t\}\n\t\}\n)(\ts\.delSub\(topic\)\n\}\n\nfunc \(s \*Session\) countSub)`, "${1}\tvfFP(\"delStaleSubBeforeDel\", topic+\"|\"+s.sid)\n${2}"}},
			"calls.go":   {{`time\.Duration\(globals\.callEstablishmentTimeout\) \* time\.Second`, "time.Duration(globals.callEstablishmentTimeout) * 10 * time.Millisecond"}},
			// injected delay points (no-ops unless a scenario arms them, see harness/main/c01fp.go)
			"topic.go": {{`hub\.unreg <- &topicUnreg\{rcptTo: t\.name\}`, `vfFP("topicTimeoutBeforeUnreg", t.name); hub.unreg <- &topicUnreg{rcptTo: t.name}`}},
			"hub.go":   {{`h\.topicDel\(topic\)\n\n(\s*)t\.exit <- &shutDown\{reason: reason\}`, "h.topicDel(topic)\n${1}vfFP(\"hubUnregBeforeExit\", topic)\n${1}t.exit <- &shutDown{reason: reason}"}},
		}
		for fn, lst := range subs {
			b, err := os.ReadFile(filepath.Join(srv, fn))
			if err != nil {
				continue
			}
			src := string(b)
			n := 0
			for _, pr := range lst {
				re := regexp.MustCompile(pr[0])
				n += len(re.FindAllStringIndex(src, -1))
				src = re.ReplaceAllString(src, pr[1])
			}
			report[fn] = n
			if n > 0 {
				p := filepath.Join(work, "patched_"+fn)
				os.WriteFile(p, []byte(src), 0644)
				repl[filepath.Join(srv, fn)] = p
			}
		}
	}
	ov, _ := json.MarshalIndent(map[string]any{"Replace": repl}, "", " ")
	ovp := filepath.Join(work, "overlay.json")
	os.WriteFile(ovp, ov, 0644)
	gm, err := os.ReadFile(filepath.Join(repo, "go.mod"))
	if err != nil {
		die(2, "cannot read go.mod: %v", err)
	}
	s := strings.Replace(string(gm), "require (", "require (\n\tgithub.com/anishathalye/porcupine v1.3.0", 1)
	os.WriteFile(filepath.Join(work, "go.mod"), []byte(s), 0644)
	gs, _ := os.ReadFile(filepath.Join(repo, "go.sum"))
	os.WriteFile(filepath.Join(work, "go.sum"), gs, 0644)
	return ovp, report
}

func build(work, pkg, tags string, race, timePatch bool, out string) error {
	sub := filepath.Join(work, "ov_"+strings.ReplaceAll(pkg, "/", "_")+fmt.Sprint(timePatch))
	os.MkdirAll(sub, 0755)
	ovp, rep := mkOverlay(sub, timePatch)
	if timePatch {
		for fn, n := range rep {
			if n == 0 {
				fmt.Printf("NOTE: time-scale pattern not found in %s; running with original constant\n", fn)
			}
		}
	}
	alltags := "verif"
	if tags != "" {
		alltags += "," + tags
	}
	args := []string{"test", "-c", "-vet=off", "-tags", alltags, "-overlay", ovp, "-modfile=" + filepath.Join(sub, "go.mod"), "-o", out}
	if race {
		args = append(args, "-race")
	}
	args = append(args, ".")
	cmd := exec.Command("go", args...)
	cmd.Dir = filepath.Join(repo, pkg)
	cmd.Env = env()
	b, err := cmd.CombinedOutput()
	if err != nil {
		return fmt.Errorf("build failed in %s: %v\n%s", pkg, err, string(b))
	}
	return nil
}

type childOut struct {
	res     *result
	crashed bool
	timeout bool
	log     string
	batch   int
	part    int
}

func runChild(bin, dir, runRe, outDir string, id string, batch, nbatch int, seed int64, tier string, timeoutS int, replay string, race bool) childOut {
	logp := filepath.Join(outDir, fmt.Sprintf("child-%d.log", batch))
	lf, _ := os.Create(logp)
	defer lf.Close()
	cmd := exec.Command(bin, "-test.run", runRe, "-test.v", "-test.timeout", "0")
	cmd.Dir = dir
	cmd.Stdout = lf
	cmd.Stderr = lf
	e := append(env(), "VF_OUT="+outDir, "VF_SEED="+fmt.Sprint(seed), "VF_TIER="+tier,
		"VF_BATCH="+fmt.Sprint(batch), "VF_NBATCH="+fmt.Sprint(nbatch), "VF_REPLAY="+replay,
		"VF_EVLOG="+filepath.Join(outDir, fmt.Sprintf("events-%d.jsonl", batch)))
	if race {
		e = append(e, "GORACE=halt_on_error=0 log_path="+filepath.Join(outDir, fmt.Sprintf("race-%d", batch)))
	}
	if os.Getenv("VF_KEEP_SRVLOG") != "" || id == "C14" {
		e = append(e, "VF_SRVLOG="+filepath.Join(outDir, fmt.Sprintf("srv-%d.log", batch)))
	}
	cmd.Env = e
	cmd.SysProcAttr = &syscall.SysProcAttr{Setpgid: true}
	co := childOut{log: logp, batch: batch}
	if err := cmd.Start(); err != nil {
		co.crashed = true
		return co
	}
	done := make(chan error, 1)
	go func() { done <- cmd.Wait() }()
	var err error
	select {
	case err = <-done:
	case <-time.After(time.Duration(timeoutS) * time.Second):
		co.timeout = true
		cmd.Process.Signal(syscall.SIGQUIT)
		select {
		case <-done:
		case <-time.After(10 * time.Second):
			syscall.Kill(-cmd.Process.Pid, syscall.SIGKILL)
			<-done
		}
	}
	rp := filepath.Join(outDir, fmt.Sprintf("result-%s-%d.json", id, batch))
	if b, rerr := os.ReadFile(rp); rerr == nil {
		var r result
		if json.Unmarshal(b, &r) == nil {
			co.res = &r
		}
	}
	if err != nil && !co.timeout && !(race && co.res != nil && co.res.Done) {
		// (a -race binary exits non-zero when the detector has reported anything; that is judged from the race log)
		co.crashed = true
	}
	if co.res == nil || !co.res.Done {
		if !co.timeout {
			co.crashed = true
		}
	}
	return co
}

func tailFile(p string, n int) string {
	b, err := os.ReadFile(p)
	if err != nil {
		return ""
	}
	lines := strings.Split(string(b), "\n")
	if len(lines) > n {
		lines = lines[len(lines)-n:]
	}
	return strings.Join(lines, "\n")
}

var panicRe = regexp.MustCompile(`(?m)^(panic: .*|fatal error: .*)$`)
var frameRe = regexp.MustCompile(`(?m)^(github\.com/tinode/chat/server[^\s(]*\.[A-Za-z0-9_.()*]+)\(`)

func crashSig(logp string) (string, string) {
	b, _ := os.ReadFile(logp)
	s := string(b)
	m := panicRe.FindString(s)
	if m == "" {
		return "crash:unknown", tailFile(logp, 30)
	}
	idx := strings.Index(s, m)
	rest := s[idx:]
	fn := ""
	for _, fm := range frameRe.FindAllStringSubmatch(rest, -1) {
		f := fm[1]
		if strings.Contains(f, "vfkit") || strings.Contains(f, ".vf") || strings.Contains(f, "TestVf") {
			continue
		}
		fn = f
		break
	}
	if fn == "" {
		fn = "harness"
	}
	fn = strings.TrimPrefix(fn, "github.com/tinode/chat/server")
	if len(rest) > 3000 {
		rest = rest[:3000]
	}
	return "crash:" + fn, rest
}

func loadKnown() []knownFinding {
	var kf struct {
		Findings []knownFinding `json:"findings"`
	}
	b, err := os.ReadFile(filepath.Join(verifDir, "known_findings.json"))
	if err != nil {
		return nil
	}
	if err := json.Unmarshal(b, &kf); err != nil {
		die(2, "known_findings.json: %v", err)
	}
	return kf.Findings
}

func main() {
	if v := os.Getenv("VERIF_DIR"); v != "" {
		verifDir = v
	}
	if len(os.Args) < 2 {
		die(2, "usage: vf check <ID> [--tier quick|thorough] [--replay path] | vf list | vf selftest")
	}
	switch os.Args[1] {
	case "list":
		for _, c := range checks {
			fmt.Println(c.ID)
		}
		return
	case "selftest":
		selftest()
		return
	case "build":
		// vf build <pkg> <out> [race] [tags]: developer helper
		work := filepath.Join(verifDir, ".work", "devbuild")
		os.MkdirAll(work, 0755)
		race := len(os.Args) > 4 && os.Args[4] == "race"
		tags := ""
		if len(os.Args) > 5 {
			tags = os.Args[5]
		}
		if err := build(work, os.Args[2], tags, race, true, os.Args[3]); err != nil {
			die(2, "%v", err)
		}
		return
	case "check":
	default:
		die(2, "unknown command %s", os.Args[1])
	}
	if len(os.Args) < 3 {
		die(2, "usage: vf check <ID>")
	}
	id := os.Args[2]
	tier := os.Getenv("VERIF_TIER")
	replay := ""
	keep := false
	only := -1
	for i := 3; i < len(os.Args); i++ {
		switch os.Args[i] {
		case "--tier":
			i++
			tier = os.Args[i]
		case "--replay":
			i++
			replay = os.Args[i]
		case "--keep":
			keep = true
		case "--batch":
			i++
			only, _ = strconv.Atoi(os.Args[i])
		}
	}
	if tier != "thorough" {
		tier = "quick"
	}
	ti := 0
	if tier == "thorough" {
		ti = 1
	}
	seed := int64(1)
	if v := os.Getenv("VERIF_SEED"); v != "" {
		if n, err := strconv.ParseInt(v, 10, 64); err == nil {
			seed = n
		}
	}
	var def *checkDef
	for i := range checks {
		if checks[i].ID == id {
			def = &checks[i]
		}
	}
	if def == nil {
		die(2, "unknown check %s", id)
	}
	start := time.Now()
	work := filepath.Join(verifDir, ".work", fmt.Sprintf("%s-%d-%d", id, os.Getpid(), time.Now().UnixNano()%100000))
	os.MkdirAll(work, 0755)
	if !keep {
		defer os.RemoveAll(work)
	}
	exit := func(code int) {
		if !keep {
			os.RemoveAll(work)
		}
		os.Exit(code)
	}

	parts := append([]checkPart{{Pkg: def.Pkg, Run: def.Run, Tags: def.Tags, Race: def.Race, TimePatch: def.TimePatch,
		Batches: def.Batches, Timeout: def.Timeout}}, def.Extra...)

	var outs []childOut
	var mu sync.Mutex
	var raceViols []violation
	raceInfo := map[string]int{}
	raceRan := false
	for pi, p := range parts {
		bin := filepath.Join(work, fmt.Sprintf("part%d.test", pi))
		if err := build(work, p.Pkg, p.Tags, p.Race, p.TimePatch, bin); err != nil {
			fmt.Println("INCONCLUSIVE: " + err.Error())
			exit(2)
		}
		nb := p.Batches[ti]
		if nb <= 0 {
			nb = 1
		}
		par := def.Parallel
		if par <= 0 {
			par = 8
		}
		to := p.Timeout[ti]
		if to <= 0 {
			to = 600
		}
		outDir := filepath.Join(work, fmt.Sprintf("out%d", pi))
		os.MkdirAll(outDir, 0755)
		sem := make(chan bool, par)
		var wg sync.WaitGroup
		for b := 0; b < nb; b++ {
			if only >= 0 && b != only {
				continue
			}
			wg.Add(1)
			sem <- true
			go func(b int) {
				defer wg.Done()
				defer func() { <-sem }()
				co := runChild(bin, filepath.Join(repo, p.Pkg), p.Run, outDir, id, b, nb, seed, tier, to, replay, p.Race)
				co.part = pi
				mu.Lock()
				outs = append(outs, co)
				mu.Unlock()
			}(b)
		}
		wg.Wait()
		os.Remove(bin)
		if p.Race {
			rv, inScope, outScope, harnessOnly := parseRaceLogs(outDir)
			raceViols = append(raceViols, rv...)
			raceInfo["race_reports_in_scope"] += inScope
			raceInfo["race_reports_out_of_scope"] += outScope
			raceInfo["race_reports_involving_harness_reads"] += harnessOnly
			raceRan = true
		}
	}
	sort.Slice(outs, func(i, j int) bool {
		if outs[i].part != outs[j].part {
			return outs[i].part < outs[j].part
		}
		return outs[i].batch < outs[j].batch
	})

	// merge
	var evals int64
	cases := map[string]bool{}
	clauses := map[string]int64{}
	var samples []any
	var viols []violation
	var inconc []string
	info := map[string]any{}
	exhaustive := true
	for _, co := range outs {
		if co.res != nil {
			r := co.res
			evals += r.Evaluations
			for _, c := range r.Cases {
				cases[c] = true
			}
			for k, v := range r.Clauses {
				clauses[k] += v
			}
			if len(samples) < 4 {
				for _, s := range r.Samples {
					if len(samples) < 4 {
						samples = append(samples, s)
					}
				}
			}
			viols = append(viols, r.Violations...)
			inconc = append(inconc, r.Inconclusive...)
			for k, v := range r.Info {
				if f, ok := v.(float64); ok {
					if cur, ok2 := info[k].(float64); ok2 {
						info[k] = cur + f
						continue
					}
				}
				if _, has := info[k]; !has {
					info[k] = v
				}
			}
			if !r.Exhaustive {
				exhaustive = false
			}
		}
		if co.timeout {
			inconc = append(inconc, fmt.Sprintf("part %d batch %d: watchdog expired\n%s", co.part, co.batch, tailFile(co.log, 15)))
			// keep the log for diagnosis
			keepLog(co.log, id, "timeout", co.batch)
		} else if co.crashed {
			sig, trace := crashSig(co.log)
			viols = append(viols, violation{Sig: sig, Msg: fmt.Sprintf("child process died (part %d batch %d)", co.part, co.batch),
				Witness: map[string]any{"trace": trace, "last_events": tailFile(filepath.Join(filepath.Dir(co.log), fmt.Sprintf("events-%d.jsonl", co.batch)), 12)}})
		}
	}

	viols = append(viols, raceViols...)
	if raceRan {
		for k, v := range raceInfo {
			info[k] = float64(v)
		}
		clauses["race_detector_ran"]++
	}
	// known findings
	known := loadKnown()
	code := 0
	repDir := filepath.Join(verifDir, "replays", id)
	printedKnown := map[string]bool{}
	printedViol := map[string]bool{}
	nviol := 0
	for _, v := range viols {
		matched := false
		for _, k := range known {
			if k.Property != id || k.Status == "fixed" {
				continue
			}
			re, err := regexp.Compile("^(?:" + k.Sig + ")$")
			if err != nil {
				continue
			}
			if re.MatchString(v.Sig) {
				matched = true
				if !printedKnown[k.Sig] {
					printedKnown[k.Sig] = true
					fmt.Printf("KNOWN-FINDING: property=%s %s [%s]\n", id, k.What, v.Sig)
				}
				break
			}
		}
		if matched {
			continue
		}
		nviol++
		code = 1
		if printedViol[v.Sig] {
			continue
		}
		printedViol[v.Sig] = true
		os.MkdirAll(repDir, 0755)
		h := sha1.Sum([]byte(v.Sig))
		rp := filepath.Join(repDir, hex.EncodeToString(h[:6])+".json")
		wb, _ := json.MarshalIndent(map[string]any{"property": id, "sig": v.Sig, "msg": v.Msg, "seed": seed, "tier": tier, "witness": v.Witness}, "", " ")
		os.WriteFile(rp, wb, 0644)
		fmt.Printf("VIOLATION property=%s replay=%s\n", id, rp)
		fmt.Printf("  sig=%s\n  %s\n", v.Sig, v.Msg)
	}

	// required clauses
	var missing []string
	for _, c := range def.Required {
		if clauses[c] == 0 {
			missing = append(missing, c)
		}
	}
	if code == 0 && (len(missing) > 0 || len(inconc) > 0 || evals == 0) {
		code = 2
	}

	// evidence
	distinct := len(cases)
	cov := map[string]any{
		"evaluations":         evals,
		"distinct_nontrivial": distinct,
		"rule":                def.Rule,
		"samples":             samples,
		"clause_hits":         clauses,
		"exhaustive":          exhaustive && evals > 0,
		"inconclusive":        len(inconc),
		"children":            len(outs),
		"info":                info,
	}
	if len(samples) == 0 {
		cov["samples"] = []any{"(none)"}
	}
	ev := map[string]any{
		"property_id": id,
		"tier":        tier,
		"seed":        seed,
		"level":       def.Level,
		"coverage":    cov,
		"assumptions": def.Assume,
		"wall_s":      time.Since(start).Seconds(),
		"violations":  nviol,
	}
	if len(printedKnown) > 0 {
		var ks []string
		for k := range printedKnown {
			ks = append(ks, k)
		}
		sort.Strings(ks)
		ev["known_findings_seen"] = ks
	}
	eb, _ := json.MarshalIndent(ev, "", " ")
	os.MkdirAll(filepath.Join(verifDir, "evidence"), 0755)
	os.WriteFile(filepath.Join(verifDir, "evidence", id+".json"), eb, 0644)

	switch code {
	case 0:
		fmt.Printf("HELD property=%s tier=%s seed=%d evaluations=%d distinct=%d wall=%.1fs\n", id, tier, seed, evals, distinct, time.Since(start).Seconds())
	case 2:
		fmt.Printf("INCONCLUSIVE property=%s missing_clauses=%v evaluations=%d\n", id, missing, evals)
		for i, s := range inconc {
			if i > 5 {
				break
			}
			fmt.Println("  " + s)
		}
	}
	var keys []string
	for k := range clauses {
		keys = append(keys, k)
	}
	sort.Strings(keys)
	for _, k := range keys {
		fmt.Printf("  clause %-40s %d\n", k, clauses[k])
	}
	exit(code)
}

func keepLog(p, id, kind string, batch int) {
	b, err := os.ReadFile(p)
	if err != nil {
		return
	}
	if len(b) > 200000 {
		b = b[len(b)-200000:]
	}
	d := filepath.Join(verifDir, ".work", "kept")
	os.MkdirAll(d, 0755)
	os.WriteFile(filepath.Join(d, fmt.Sprintf("%s-%s-%d.log", id, kind, batch)), b, 0644)
}

func selftest() {
	// The driver has no logic worth testing beyond being runnable; vfmem's own checks
	// run as part of every sim check's first batch.
	if _, err := os.Stat(filepath.Join(repo, "go.mod")); err != nil {
		die(2, "selftest: /repo not found")
	}
	fmt.Println("vf selftest ok:", len(checks), "checks registered")
}

var raceScopeRe = regexp.MustCompile(`\.subs\b|sessCache|\.lru\b|terminating|lastAction|\.status\b|lastTouched`)
var raceFrameRe = regexp.MustCompile(`^\s+(/\S+\.go):(\d+)`)

// parseRaceLogs reads the Go race detector logs of a part. A report is in scope iff neither access comes from a
// harness goroutine reading actor state and the source line of the first server frame of one of the two accesses
// names the shared data the property lists (attachment tables, session registry, termination / status flags).
func parseRaceLogs(dir string) (viols []violation, inScope, outScope, harness int) {
	files, _ := filepath.Glob(filepath.Join(dir, "race-*"))
	seen := map[string]bool{}
	srcCache := map[string][]string{}
	srcLine := func(file string, line int) string {
		ls, ok := srcCache[file]
		if !ok {
			b, _ := os.ReadFile(file)
			ls = strings.Split(string(b), "\n")
			srcCache[file] = ls
		}
		if line-1 >= 0 && line-1 < len(ls) {
			return ls[line-1]
		}
		return ""
	}
	for _, f := range files {
		b, err := os.ReadFile(f)
		if err != nil {
			continue
		}
		for _, block := range strings.Split(string(b), "==================") {
			if !strings.Contains(block, "WARNING: DATA RACE") {
				continue
			}
			// split into access sections; stop at "Goroutine ... created at"
			lines := strings.Split(block, "\n")
			type access struct {
				fn, file string
				line     int
				harness  bool
			}
			var accs []access
			var cur *access
			inAccess := false
			for i := 0; i < len(lines); i++ {
				l := lines[i]
				t := strings.TrimSpace(l)
				if strings.HasPrefix(t, "Goroutine ") {
					break
				}
				if strings.HasPrefix(t, "Write at") || strings.HasPrefix(t, "Read at") || strings.HasPrefix(t, "Previous write at") ||
					strings.HasPrefix(t, "Previous read at") || strings.HasPrefix(t, "Atomic") || strings.HasPrefix(t, "Previous atomic") {
					accs = append(accs, access{})
					cur = &accs[len(accs)-1]
					inAccess = true
					continue
				}
				if !inAccess || cur == nil {
					continue
				}
				if m := raceFrameRe.FindStringSubmatch(l); m != nil && i > 0 {
					file := m[1]
					ln, _ := strconv.Atoi(m[2])
					fn := strings.TrimSpace(lines[i-1])
					if strings.Contains(filepath.Base(file), "vf_") {
						cur.harness = true
					}
					if cur.file == "" && strings.HasPrefix(file, repo+"/") && !strings.Contains(filepath.Base(file), "vf_") && !strings.Contains(file, "/vfmem/") && !strings.Contains(file, "/vfkit/") {
						cur.fn, cur.file, cur.line = fn, file, ln
					}
				}
			}
			if len(accs) < 2 {
				continue
			}
			if accs[0].harness || accs[1].harness {
				harness++
				continue
			}
			scope := false
			var fns []string
			for _, a := range accs[:2] {
				if a.file != "" {
					if raceScopeRe.MatchString(srcLine(a.file, a.line)) {
						scope = true
					}
					fn := a.fn
					if i := strings.LastIndex(fn, "("); i > 0 {
						fn = fn[:i]
					}
					fns = append(fns, strings.TrimPrefix(fn, "github.com/tinode/chat/server"))
				}
			}
			sort.Strings(fns)
			key := strings.Join(fns, "|")
			if !scope {
				outScope++
				continue
			}
			inScope++
			if seen[key] {
				continue
			}
			seen[key] = true
			blk := block
			if len(blk) > 4000 {
				blk = blk[:4000]
			}
			viols = append(viols, violation{Sig: "race:" + key, Msg: "data race on state the sessions/topics/hub/registry share under a lock or atomic: " + key,
				Witness: map[string]any{"report": blk}})
		}
	}
	return
}
